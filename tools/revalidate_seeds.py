#!/venv/bin/python
"""Re-runs the repository's test suite, with the baseline command (sequential), on every seeded change in /verif/seeded
(each in a scratch git worktree of /repo outside /repo and /verif, removed afterwards) and records the result in meta.json
(`suite_baseline`).  A seeded change the baseline suite catches does not qualify and is reported.

  tools/revalidate_seeds.py [-j N] [-k substr]
"""
import argparse
import glob
import json
import os
import re
import subprocess
import tempfile
from concurrent.futures import ThreadPoolExecutor

VERIF = os.path.dirname(os.path.dirname(os.path.abspath(__file__)))
PY = "/venv/bin/python"


def one(d):
    meta_p = os.path.join(d, "meta.json")
    meta = json.load(open(meta_p))
    wt = tempfile.mkdtemp(prefix="pysm-reval-")
    os.rmdir(wt)
    try:
        subprocess.run(["git", "-C", "/repo", "worktree", "add", "--detach", "-q", wt, "HEAD"], check=True, capture_output=True)
        r = subprocess.run(["git", "-C", wt, "apply", os.path.join(d, "patch.diff")], capture_output=True, text=True)
        if r.returncode != 0:
            return meta["id"], "STALE (patch does not apply)"
        c = subprocess.run([PY, "-m", "pytest", "-ra", "-q", "-p", "no:cacheprovider", "--timeout=900", "--continue-on-collection-errors"],
                           cwd=wt, capture_output=True, text=True, timeout=3600)
        tail = next((l for l in reversed((c.stdout + c.stderr).splitlines()) if re.search(r"\d+ passed", l)), "?")
        failed = [l for l in c.stdout.splitlines() if l.startswith("FAILED")]
        meta["suite_baseline"] = tail.strip() + ("  " + "; ".join(failed[:3]) if failed else "")
        json.dump(meta, open(meta_p, "w"), indent=1)
        return meta["id"], meta["suite_baseline"]
    finally:
        subprocess.run(["git", "-C", "/repo", "worktree", "remove", "--force", wt], capture_output=True)


def main():
    ap = argparse.ArgumentParser()
    ap.add_argument("-j", type=int, default=3)
    ap.add_argument("-k", default="")
    a = ap.parse_args()
    dirs = [d for d in sorted(glob.glob(os.path.join(VERIF, "seeded", "*"))) if a.k in d]
    bad = 0
    with ThreadPoolExecutor(max_workers=a.j) as ex:
        for sid, res in ex.map(one, dirs):
            ok = "348 passed" in res and not re.search(r"(?<!x)\b\d+ failed|\d+ error", res)
            bad += not ok
            print(f"{'ok ' if ok else 'BAD'} {sid:48} {res}")
    print(f"{len(dirs)} seeded changes, {bad} not surviving the baseline suite")


if __name__ == "__main__":
    main()
