#!/venv/bin/python
"""Regenerates /verif/MANIFEST.json from the rule modules that exist (so it is valid at all times)."""

import importlib
import json
import os
import sys

HERE = os.path.dirname(os.path.abspath(__file__))
VERIF = os.path.dirname(HERE)
sys.path.insert(0, VERIF)

BASELINE = ("cd /repo && /venv/bin/python -m pytest -ra -q -p no:cacheprovider --timeout=900 "
            "--continue-on-collection-errors --junitxml=/tmp/pysm-baseline.junit.xml")

props = [json.loads(l) for l in open(os.path.join(VERIF, "properties.jsonl"))]
checks, na = [], []
for p in props:
    pid = p["id"]
    path = os.path.join(VERIF, "sa", "rules", pid.lower() + ".py")
    if not os.path.exists(path):
        na.append({"property_id": pid, "reason": "check not yet committed in this session (implementation in progress, see DESIGN.md section 3)"})
        continue
    mod = importlib.import_module(f"sa.rules.{pid.lower()}")
    if getattr(mod, "NOT_APPLICABLE", None):
        na.append({"property_id": pid, "reason": mod.NOT_APPLICABLE})
        continue
    checks.append({
        "property_id": pid,
        "quick_cmd": f"./check {pid} --tier quick",
        "thorough_cmd": f"./check {pid} --tier thorough",
        "evidence_file": f"/verif/evidence/{pid}.json",
        "replay_cmd_template": f"./check {pid} --replay {{path}}",
        "engine": "sa",
        "level_claimed": {
            "category": "other",
            "text": getattr(mod, "LEVEL_TEXT", "static all-paths analysis of the structural clauses of the property on "
                                               "the kernel functions every machine and history goes through; the "
                                               "behavioural residual that depends on run-time values is not decided"),
            "design_ref": f"DESIGN.md section 3, {pid}",
        },
        "level_note": getattr(mod, "LEVEL_NOTE", "Trusted: CPython's ast grammar and Python's evaluation order; the "
                                                 "path enumerator/resolver in /verif/sa. Assumes user programs reach "
                                                 "the kernels through the public API only."),
        "technique": getattr(mod, "TECHNIQUE", "static analysis: path-sensitive AST walk + def-use terms + call-graph rules"),
    })

manifest = {
    "version": 1,
    "setup_cmd": "true",
    "hooks": {
        "guard": "PYSM_VERIF",
        "enable": "no hooks: the checks only read /repo's sources; nothing in /repo is built, imported or instrumented",
        "baseline_off_cmd": BASELINE,
        "source_commits": [],
        "add_only": True,
    },
    "engines": [{
        "name": "sa",
        "path": "/verif/sa",
        "serves_properties": [c["property_id"] for c in checks],
        "kind_free_text": "repository-specific static analyser: ast loader, class/attribute type resolver, "
                          "compositional path enumerator with term substitution, rule sets per property",
    }],
    "checks": checks,
    "not_applicable": na,
    "notes": "Static analysis only; exit 2 + ANALYSIS-ERROR means the analysis is broken (never a verdict). "
             "Known findings: /verif/known_findings.json. Mutant/benign corpus: selftest/run.py.",
}
json.dump(manifest, open(os.path.join(VERIF, "MANIFEST.json"), "w"), indent=1)
print(f"{len(checks)} checks, {len(na)} not_applicable")
