#!/venv/bin/python
"""Regenerates /verif/MANIFEST.json from the rule modules that exist (so it is valid at all times)."""

import importlib
import json
import os
import sys

HERE = os.path.dirname(os.path.abspath(__file__))
VERIF = os.path.dirname(HERE)
sys.path.insert(0, VERIF)

BASELINE = ("cd /repo && /venv/bin/python -m pytest -ra -q -p no:cacheprovider --timeout=900 "
            "--continue-on-collection-errors --junitxml=/tmp/pysm-baseline.junit.xml")

TECH = {
 "C01": "static analysis: all-paths walk of _trigger/_activate (term substitution), loop-shape and first-wins rules, equality-membership idiom table, all-of executor rule, who-may-write inventory",
 "C02": "static analysis: abstract-trace inclusion of every _activate path in the documented group order (spec automaton), internal-flag conditioning, derives-from dataflow for state/source/target views, convention-name table agreement",
 "C03": "static analysis: must-pass-through (enqueue before drain), deque end pairing, lock typestate on processing_loop paths, who-may-call closure on the resolved call graph, acyclicity (Tarjan SCC) of the event path",
 "C04": "static analysis: lock typestate with exceptional edges out of every call (Exception / BaseException classes), handler inventory on the event path, single-write ordering rule",
 "C05": "static analysis: sibling agreement of sync/async abstract traces modulo await, maybe-awaitable effect analysis (sources/sinks, summaries), flag-propagation and facade must-pass rules, positive-control scan",
 "C06": "static analysis: structural preconditions of the enqueue/try-acquire/drain protocol - typestate LOCKED for every consumer op, re-check-after-release on every normal exit, no await inside the release window",
 "C07": "static analysis: table agreement of reserved names, layering order, adapter must-pass, iterator-consumption typestate over all paths of bind_expected, identity-bearing cache key",
 "C08": "static analysis: regex AST analysis (re._parser), operator table agreement, laziness/evaluation-order rules on combinator paths, fold-shape rules on build_expression, registration-time-only call-graph rule, identity of guard entries",
 "C09": "static analysis: must-call of the five checks, truth-table comparison of each selecting predicate over its atoms, worklist-dataflow rule on the reachability visit",
 "C10": "static analysis: who-may-read/write of the model's state field, membership-dominates-write, no-shadow attribute inventory, None-vs-falsy sweep over the state-handling modules",
 "C11": "static analysis: path rule on start() (None-test may be widened, never narrowed), who-may-create/call rules for the initial trigger, guarded-pop rule, sentinel flow",
 "C12": "static analysis: all-providers loop shape, single attachment path (call graph), id()-bearing keys with seen-test dominance, per-instance container freshness, engine-selection invariant ordering",
 "C13": "static analysis: taint rule on send() (called object must be a BoundEvent built there or a guarded declared-event lookup), single enqueue site, order-preserving de-duplication shape, descriptor dataflow",
 "C14": "static analysis: derives-from dataflow of the returned value (only BEFORE+ON results, in that order), value-set {0,1,many} analysis of the unwrap, unfiltered-collection rule",
 "C15": "static analysis: argument dataflow of the to/from_/itself/any builders on all iterations, call-graph phase rule for any() expansion, by-reference list combination, event-designator normalisation, metaclass dispatch table",
 "C16": "static analysis: shared-mutable inventory (module/closure/class level) against a triaged table, identity-bearing memo key, freshness of per-class/per-instance containers, instance-time writes to definition objects",
 "C17": "static analysis: sibling agreement between __init__ and __getstate__/__setstate__ (attribute carry table, excluded set, step sequence, engine-selection ordering)",
 "C18": "static analysis: argument dataflow in contrib/diagram.py on all paths of get_graph and helpers (node per state, edge per external transition source->target, peripheries, highlight comparison, label source)",
}
NOTE = {
 "C06": "Decides that the code has the shape under which the protocol's textbook argument applies; interleavings themselves are not enumerated. Trusted: atomicity of deque/Lock primitives in CPython.",
 "C07": "Only structural preconditions are decided; that the binding is right for every signature x call shape is a value-level claim and is not decided.",
 "C09": "The 'iff' over all graphs is algorithmic; decided is the shape of the BFS and of the five predicates. A re-implemented algorithm is reported as unrecognised (exit 2), never guessed.",
 "C15": "Behavioural equivalence of whole machines across renderings is not decided; only the translation of each style into (source, target, event) and where it is registered.",
 "C05": "Relational equivalence of user-visible traces for arbitrary machines is not decided; sibling agreement + await discipline are. Callback slots not in awaitflow.MA_SLOTS are assumed synchronous (listed in evidence).",
}
props = [json.loads(l) for l in open(os.path.join(VERIF, "properties.jsonl"))]
checks, na = [], []
for p in props:
    pid = p["id"]
    path = os.path.join(VERIF, "sa", "rules", pid.lower() + ".py")
    if not os.path.exists(path):
        na.append({"property_id": pid, "reason": "check not yet committed in this session (implementation in progress, see DESIGN.md section 3)"})
        continue
    mod = importlib.import_module(f"sa.rules.{pid.lower()}")
    if getattr(mod, "NOT_APPLICABLE", None):
        na.append({"property_id": pid, "reason": mod.NOT_APPLICABLE})
        continue
    checks.append({
        "property_id": pid,
        "quick_cmd": f"./check {pid} --tier quick",
        "thorough_cmd": f"./check {pid} --tier thorough",
        "evidence_file": f"/verif/evidence/{pid}.json",
        "replay_cmd_template": f"./check {pid} --replay {{path}}",
        "engine": "sa",
        "level_claimed": {
            "category": "other",
            "text": getattr(mod, "LEVEL_TEXT", "static all-paths analysis of the structural clauses of the property on "
                                               "the kernel functions every machine and history goes through: " + mod.EXPLANATION[:600]),
            "design_ref": f"DESIGN.md section 3, {pid}",
        },
        "level_note": NOTE.get(pid, "Structural clauses only (see EXPLANATION in the evidence file); the behavioural residual that depends on "
                                    "run-time values is not decided.") + " Trusted: CPython's ast grammar and evaluation order; the path "
                      "enumerator/resolver in /verif/sa (cross-checked against mypy's receiver types in the thorough tier). Assumes user programs "
                      "reach the kernels through the public API only. Genuine defects recorded instead of repaired are in known_findings.json.",
        "technique": TECH.get(pid, "static analysis: path-sensitive AST walk + def-use terms + call-graph rules"),
    })

manifest = {
    "version": 1,
    "setup_cmd": "true",
    "hooks": {
        "guard": "PYSM_VERIF",
        "enable": "no hooks: the checks only read /repo's sources; nothing in /repo is built, imported or instrumented",
        "baseline_off_cmd": BASELINE,
        "source_commits": [],
        "add_only": True,
    },
    "engines": [{
        "name": "sa",
        "path": "/verif/sa",
        "serves_properties": [c["property_id"] for c in checks],
        "kind_free_text": "repository-specific static analyser: ast loader, class/attribute type resolver, "
                          "compositional path enumerator with term substitution, rule sets per property",
    }],
    "checks": checks,
    "not_applicable": na,
    "notes": "Static analysis only; exit 2 + ANALYSIS-ERROR means the analysis is broken (never a verdict). "
             "Known findings: /verif/known_findings.json. Mutant/benign corpus: selftest/run.py.",
}
json.dump(manifest, open(os.path.join(VERIF, "MANIFEST.json"), "w"), indent=1)
print(f"{len(checks)} checks, {len(na)} not_applicable")
