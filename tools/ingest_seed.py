#!/venv/bin/python
"""Confirms a seeded change in a scratch worktree and records it under /verif/seeded/<id>/.

  tools/ingest_seed.py <id> <property> <patch.diff> <demo.py> --needs "<what it needs to manifest>"

Steps (all in a scratch git worktree of /repo outside /repo and /verif, removed afterwards):
  1. patch applies; package byte-compiles
  2. demo exits 0 WITHOUT the patch and non-zero WITH it
  3. the repository's test suite still passes with the patch (348 passed)
  4. every registered check (quick tier) is run against the patched tree with --repo; the ones that
     exit 1 are recorded with their rules
"""

import argparse
import json
import os
import re
import shutil
import subprocess
import sys
import tempfile

HERE = os.path.dirname(os.path.abspath(__file__))
VERIF = os.path.dirname(HERE)
PY = "/venv/bin/python"


def sh(cmd, cwd=None, env=None, timeout=1800):
    r = subprocess.run(cmd, cwd=cwd, env=env, capture_output=True, text=True, timeout=timeout, shell=isinstance(cmd, str))
    return r.returncode, (r.stdout + r.stderr)


def main():
    ap = argparse.ArgumentParser()
    ap.add_argument("id")
    ap.add_argument("prop")
    ap.add_argument("patch")
    ap.add_argument("demo")
    ap.add_argument("--needs", default="")
    ap.add_argument("--source", default="sub-agent")
    ap.add_argument("--skip-suite", action="store_true")
    a = ap.parse_args()
    wt = tempfile.mkdtemp(prefix="pysm-seed-")
    os.rmdir(wt)
    meta = {"id": a.id, "property": a.prop, "needs": a.needs, "source": a.source, "ran": []}
    try:
        rc, out = sh(["git", "-C", "/repo", "worktree", "add", "--detach", "-q", wt, "HEAD"])
        assert rc == 0, out
        env = dict(os.environ, PYTHONPATH=wt)
        demo = os.path.abspath(a.demo)
        rc0, out0 = sh([PY, demo], cwd=wt, env=env, timeout=300)
        meta["ran"].append(f"demo on unchanged tree: exit {rc0}")
        rc, out = sh(["git", "-C", wt, "apply", os.path.abspath(a.patch)])
        if rc != 0:
            print("PATCH DOES NOT APPLY", out)
            return 2
        rc, out = sh([PY, "-m", "compileall", "-q", "statemachine"], cwd=wt)
        meta["ran"].append(f"compileall: exit {rc}")
        rc1, out1 = sh([PY, demo], cwd=wt, env=env, timeout=300)
        meta["ran"].append(f"demo with the change: exit {rc1}: {out1.strip().splitlines()[-1][:160] if out1.strip() else ''}")
        suite = "skipped"
        if not a.skip_suite:
            rcs, outs = sh([PY, "-m", "pytest", "-ra", "-q", "-p", "no:cacheprovider", "--timeout=900", "--continue-on-collection-errors"], cwd=wt, timeout=1800)  # the baseline command (sequential)
            m = re.findall(r"^.*\d+ passed.*$|^.*\d+ failed.*$", outs, re.M)
            suite = m[-1].strip() if m else (outs.strip().splitlines() or [""])[-1]
            meta["ran"].append(f"test suite with the change: rc={rcs} {suite}")
        sh(["git", "-C", wt, "checkout", "--", "docs"])
        reported = {}
        exits = {}
        for i in range(1, 19):
            pid = f"C{i:02d}"
            rc, out = sh([os.path.join(VERIF, "check"), pid, "--tier", "quick", "--repo", wt, "--no-evidence"], cwd=VERIF)
            exits[pid] = rc
            if rc == 1:
                reported[pid] = sorted(set(re.findall(r"^\s+(C\d+\.[\w/-]+) at ", out, re.M)))
            elif rc == 2:
                reported[pid] = ["ANALYSIS-ERROR: " + next((l for l in out.splitlines() if "ANALYSIS-ERROR" in l), "")[:200]]
        meta["demo_exit_unchanged"] = rc0
        meta["demo_exit_changed"] = rc1
        meta["suite"] = suite
        meta["check_exits"] = {k: v for k, v in exits.items() if v != 0}
        meta["reported_by"] = [f"{p}: {', '.join(r)}" for p, r in reported.items() if exits[p] == 1]
        meta["analysis_errors"] = [f"{p}: {r[0]}" for p, r in reported.items() if exits[p] == 2]
        meta["caught_by_own_property"] = exits.get(a.prop) == 1
        if exits.get(a.prop) == 2:
            meta["miss_reason"] = "own check is inconclusive (exit 2, ANALYSIS-ERROR / unrecognised idiom): not a verdict"
        elif exits.get(a.prop) == 0:
            meta["miss_reason"] = "own check passes (exit 0)"
        ok = rc0 == 0 and rc1 != 0 and (a.skip_suite or "348 passed" in suite)
        meta["confirmed"] = ok
        dest = os.path.join(VERIF, "seeded", a.id)
        os.makedirs(dest, exist_ok=True)
        shutil.copy(a.patch, os.path.join(dest, "patch.diff"))
        shutil.copy(a.demo, os.path.join(dest, "demo.py"))
        json.dump(meta, open(os.path.join(dest, "meta.json"), "w"), indent=1)
        print(json.dumps(meta, indent=1))
        return 0 if ok else 1
    finally:
        sh(["git", "-C", "/repo", "worktree", "remove", "--force", wt])
        shutil.rmtree(wt, ignore_errors=True)


if __name__ == "__main__":
    sys.exit(main())
