#!/venv/bin/python
"""Re-expresses stored refactoring diffs that no longer apply to /repo (because a later `fix:` commit changed their
context) with a 3-way merge in a scratch worktree, re-runs the suite on the result and rewrites the diff.
  tools/rebase_diffs.py selftest/refactors/a.diff ..."""
import os, subprocess, sys, tempfile
PY = "/venv/bin/python"
for diff in sys.argv[1:]:
    diff = os.path.abspath(diff)
    wt = tempfile.mkdtemp(prefix="pysm-rebase-"); os.rmdir(wt)
    subprocess.run(["git", "-C", "/repo", "worktree", "add", "--detach", "-q", wt, "HEAD"], check=True)
    try:
        if subprocess.run(["git", "-C", wt, "apply", "--check", diff], capture_output=True).returncode == 0:
            print("applies   ", os.path.basename(diff)); continue
        r = subprocess.run(["git", "-C", wt, "apply", "--3way", diff], capture_output=True, text=True)
        conflicts = subprocess.run(["git", "-C", wt, "diff", "--name-only", "--diff-filter=U"], capture_output=True, text=True).stdout.split()
        if r.returncode != 0 or conflicts:
            print("CONFLICT  ", os.path.basename(diff), conflicts, r.stderr.strip().splitlines()[-1:] )
            continue
        t = subprocess.run(f"{PY} -m pytest -q -p no:cacheprovider -n 6 --no-cov 2>&1 | tail -1", shell=True, cwd=wt, capture_output=True, text=True).stdout.strip()
        subprocess.run(["git", "-C", wt, "checkout", "--", "docs"], capture_output=True)
        new = subprocess.run(["git", "-C", wt, "diff", "HEAD", "--", "statemachine"], capture_output=True, text=True).stdout
        if "348 passed" in t and new.strip():
            open(diff, "w").write(new)
            print("rebased   ", os.path.basename(diff), t)
        else:
            print("SUITE-FAIL", os.path.basename(diff), t)
    finally:
        subprocess.run(["git", "-C", "/repo", "worktree", "remove", "--force", wt], capture_output=True)
