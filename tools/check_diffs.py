#!/venv/bin/python
"""Runs every registered check (quick tier) against a scratch copy of the package with each given diff applied
and prints the checks that do not exit 0.  Used for behaviour-preserving refactorings (expected: all silent).
  tools/check_diffs.py /tmp/wr-*/out/refactor*.diff"""
import os, re, shutil, subprocess, sys, tempfile
from concurrent.futures import ThreadPoolExecutor
VERIF = os.path.dirname(os.path.dirname(os.path.abspath(__file__)))
import json
_exp = os.path.join(VERIF, "selftest", "refactors", "EXPECTED.json")
EXPECTED = json.load(open(_exp)) if os.path.exists(_exp) else {}

def one(diff):
    tmp = tempfile.mkdtemp(prefix="pysm-diffchk-")
    try:
        shutil.copytree("/repo/statemachine", os.path.join(tmp, "statemachine"), ignore=shutil.ignore_patterns("__pycache__"))
        shutil.copy("/repo/pyproject.toml", tmp)
        r = subprocess.run(["patch", "-p1", "-s", "-i", os.path.abspath(diff)], cwd=tmp, capture_output=True, text=True)
        if r.returncode != 0:
            return diff, "PATCH-FAILED", []
        out = []
        for i in range(1, 19):
            pid = f"C{i:02d}"
            c = subprocess.run([os.path.join(VERIF, "check"), pid, "--repo", tmp, "--no-evidence"], capture_output=True, text=True, cwd=VERIF)
            if c.returncode == 1:
                rules = sorted(set(re.findall(r"^\s+(C\d+\.[\w/-]+) at (\S+) (\S+)", c.stdout, re.M)))
                exp = EXPECTED.get(os.path.basename(diff), {}).get(pid)
                if exp and {a for a, _, _ in rules} <= set(exp["rules"]):
                    continue  # a genuine, already-known defect reported at its relocated construct (see EXPECTED.json)
                out.append(f"{pid} VIOLATION " + "; ".join(f"{a} @{b} {d}" for a, b, d in rules)[:400])
            elif c.returncode == 2:
                out.append(f"{pid} EXIT2 " + next((l for l in c.stdout.splitlines() if "ANALYSIS-ERROR" in l), "")[:300])
        return diff, "ok" if not out else "NOT-SILENT", out
    finally:
        shutil.rmtree(tmp, ignore_errors=True)

diffs = sys.argv[1:]
bad = 0
with ThreadPoolExecutor(max_workers=int(os.environ.get("JOBS", "5"))) as ex:
    for diff, verdict, out in ex.map(one, diffs):
        print(f"{verdict:11} {diff}")
        for o in out:
            print("      ", o)
        bad += verdict != "ok"
print(f"{len(diffs)} diffs, {bad} not silent")
