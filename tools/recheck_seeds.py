#!/venv/bin/python
"""Re-runs every registered check (quick) against each seeded change in /verif/seeded (scratch copy of the
package + patch, outside /repo and /verif) and refreshes `reported_by` / `caught_by_own_property` in meta.json."""
import glob, json, os, re, shutil, subprocess, sys, tempfile
from concurrent.futures import ThreadPoolExecutor
VERIF = os.path.dirname(os.path.dirname(os.path.abspath(__file__)))

def one(d):
    meta = json.load(open(os.path.join(d, "meta.json")))
    tmp = tempfile.mkdtemp(prefix="pysm-seedchk-")
    try:
        shutil.copytree("/repo/statemachine", os.path.join(tmp, "statemachine"), ignore=shutil.ignore_patterns("__pycache__"))
        shutil.copy("/repo/pyproject.toml", tmp)
        r = subprocess.run(["patch", "-p1", "-s", "-i", os.path.join(d, "patch.diff")], cwd=tmp, capture_output=True, text=True)
        if r.returncode != 0:
            meta["recheck_error"] = "patch does not apply to the current /repo tree"
            return meta
        reported, errors, exits = [], [], {}
        for i in range(1, 19):
            pid = f"C{i:02d}"
            c = subprocess.run([os.path.join(VERIF, "check"), pid, "--repo", tmp, "--no-evidence"], capture_output=True, text=True, cwd=VERIF)
            exits[pid] = c.returncode
            if c.returncode == 1:
                reported.append(f"{pid}: " + ", ".join(sorted(set(re.findall(r"^\s+(C\d+\.[\w/-]+) at ", c.stdout, re.M)))))
            elif c.returncode == 2:
                errors.append(f"{pid}: " + next((l for l in c.stdout.splitlines() if "ANALYSIS-ERROR" in l), "")[:200])
        meta.pop("recheck_error", None)
        meta["reported_by"] = reported
        meta["analysis_errors"] = errors
        meta["check_exits"] = {k: v for k, v in exits.items() if v}
        meta["caught_by_own_property"] = exits.get(meta["property"]) == 1
        meta.pop("miss_reason", None)
        if exits.get(meta["property"]) == 2:
            meta["miss_reason"] = "own check is inconclusive (exit 2, ANALYSIS-ERROR / unrecognised idiom): not a verdict"
        elif exits.get(meta["property"]) == 0:
            meta["miss_reason"] = "own check passes (exit 0)"
        json.dump(meta, open(os.path.join(d, "meta.json"), "w"), indent=1)
        return meta
    finally:
        shutil.rmtree(tmp, ignore_errors=True)

dirs = sorted(glob.glob(os.path.join(VERIF, "seeded", sys.argv[1] if len(sys.argv) > 1 else "*")))
with ThreadPoolExecutor(max_workers=int(os.environ.get("JOBS", "6"))) as ex:
    for m in ex.map(one, dirs):
        own = "own" if m.get("caught_by_own_property") else ("any" if m.get("reported_by") else "MISSED")
        if m.get("recheck_error"):
            own = "STALE"  # the stored patch no longer applies to /repo: re-express it on the current tree
        print(f"{m['id']:45} {m['property']} {own:6} {'; '.join(m.get('reported_by', []))} {' '.join(m.get('analysis_errors', []))[:120]}")
