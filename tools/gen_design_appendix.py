#!/venv/bin/python
"""Writes the corpus/seeded matrix (which check catches which change) as markdown to stdout.
Input: the JSON written by `selftest/run.py --json FILE` (+ optional --validate run) and /verif/seeded/*/meta.json."""
import glob
import json
import os
import sys

HERE = os.path.dirname(os.path.abspath(__file__))
VERIF = os.path.dirname(HERE)
sys.path.insert(0, os.path.join(VERIF, "selftest"))
from corpus import CORPUS  # noqa: E402

res = {}
if len(sys.argv) > 1 and os.path.exists(sys.argv[1]):
    for r in json.load(open(sys.argv[1])):
        res[r["id"]] = r
print("| corpus entry | kind | properties | reported by (quick tier) | suite with the edit |")
print("|---|---|---|---|---|")
for e in CORPUS:
    r = res.get(e["id"], {})
    rules = sorted({x for c in r.get("checks", {}).values() for x in c.get("rules", [])})
    suite = ""
    if "suite" in r:
        suite = r["suite"][1].replace("|", "/")[:60]
    verdict = r.get("verdict", "")
    rep = ", ".join(rules) if rules else ("silent" if e["kind"] == "benign" else "?")
    print(f"| {e['id']} | {e['kind']} | {' '.join(e['props'])} | {rep} | {suite} |")
print()
seeded = sorted(glob.glob(os.path.join(VERIF, "seeded", "*", "meta.json")))
if seeded:
    print("| seeded change (independent sub-agent) | property | needs | checks that report it |")
    print("|---|---|---|---|")
    for f in seeded:
        m = json.load(open(f))
        print(f"| {m['id']} | {m['property']} | {m.get('needs', '')[:110]} | {', '.join(m.get('reported_by', [])) or 'MISSED: ' + m.get('miss_reason', '')} |")
