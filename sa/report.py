"""Obligations, verdicts, known findings, evidence files, exit codes."""

from __future__ import annotations

import hashlib
import json
import os
import re
import time
from dataclasses import dataclass, field
from typing import Dict, List, Optional

from .loader import AnalysisError, Program

VERIF = os.path.dirname(os.path.dirname(os.path.abspath(__file__)))
KNOWN_FILE = os.path.join(VERIF, "known_findings.json")


def _norm(s: str) -> str:
    return re.sub(r"\s+", " ", str(s or "")).strip()


@dataclass
class Obligation:
    rule: str
    where: str
    what: str
    status: str = "discharged"  # discharged | violation | known | control
    construct: str = ""
    stmt: str = ""
    detail: dict = field(default_factory=dict)
    finding_id: str = ""

    def key(self, prop: str) -> tuple:
        return (prop, self.rule, _norm(self.construct), _norm(self.stmt))

    def as_dict(self) -> dict:
        d = {"rule": self.rule, "where": self.where, "what": self.what, "status": self.status}
        if self.construct:
            d["construct"] = self.construct
        if self.stmt:
            d["stmt"] = self.stmt
        if self.detail:
            d["detail"] = self.detail
        if self.finding_id:
            d["finding"] = self.finding_id
        return d


class Report:
    def __init__(self, prop: str, tier: str, program: Program, explanation: str = "",
                 evidence_dir: Optional[str] = None, write_evidence: bool = True):
        self.prop = prop
        self.tier = tier
        self.program = program
        self.t0 = time.time()
        self.obligations: List[Obligation] = []
        self.explanation = explanation
        self.assumptions: List[str] = []
        self.trusted: List[str] = []
        self.counters: Dict[str, int] = {}
        self.extra: Dict[str, object] = {}
        self.functions_analysed: set = set()
        self.paths_enumerated = 0
        self.evidence_dir = evidence_dir or os.path.join(VERIF, "evidence")
        self.write_evidence = write_evidence
        self.known = self._load_known()
        self.only_key: Optional[tuple] = None  # replay filter
        self.rules_run: List[str] = []

    # ------------------------------------------------------------------ known findings
    def _load_known(self) -> List[dict]:
        if not os.path.exists(KNOWN_FILE):
            return []
        try:
            data = json.load(open(KNOWN_FILE, encoding="utf-8"))
        except Exception as e:
            raise AnalysisError(f"known_findings.json unreadable: {e}") from e
        return [f for f in data.get("findings", []) if f.get("status") == "known" and f.get("property") == self.prop]

    def _match_known(self, ob: Obligation) -> Optional[dict]:
        k = ob.key(self.prop)
        for f in self.known:
            if (f.get("property"), f.get("rule"), _norm(f.get("construct")), _norm(f.get("stmt"))) == k:
                return f
        return None

    # ------------------------------------------------------------------ recording
    def note_fn(self, fn) -> None:
        self.functions_analysed.add(fn.key if hasattr(fn, "key") else str(fn))

    def note_paths(self, n: int) -> None:
        self.paths_enumerated += n

    def count(self, name: str, n: int = 1) -> None:
        self.counters[name] = self.counters.get(name, 0) + n

    def ok(self, rule: str, where: str, what: str, **detail) -> Obligation:
        ob = Obligation(rule, where, what, "discharged", detail=_jsonable(detail))
        self.obligations.append(ob)
        return ob

    def violation(self, rule: str, where: str, what: str, construct: str, stmt: str = "", **detail) -> Obligation:
        ob = Obligation(rule, where, what, "violation", construct, _norm(stmt), _jsonable(detail))
        f = self._match_known(ob)
        if f is not None:
            ob.status = "known"
            ob.finding_id = f.get("id", "")
        # de-duplicate identical findings (same key reported through several paths)
        for prev in self.obligations:
            if prev.status in ("violation", "known") and prev.key(self.prop) == ob.key(self.prop):
                prev.detail.setdefault("also", 0)
                prev.detail["also"] += 1
                return prev
        self.obligations.append(ob)
        return ob

    def check(self, ok_: bool, rule: str, where: str, what: str, construct: str = "", stmt: str = "", **detail):
        if ok_:
            return self.ok(rule, where, what, **detail)
        return self.violation(rule, where, what, construct or where.split(" ", 1)[-1], stmt, **detail)

    def control(self, rule: str, fired: bool, what: str) -> None:
        """Positive control: a known-bad fixture must be flagged on every run."""
        if not fired:
            raise AnalysisError(f"positive control for {rule} did not fire: {what}")
        self.obligations.append(Obligation(rule, "fixtures", what, "control"))

    def floor(self, rule: str, what: str, count: int, minimum: int) -> None:
        self.count(f"floor:{rule}:{what}", count)
        if count < minimum and any(o.rule == rule and o.status in ("violation", "known") for o in self.obligations):
            return  # the anchor is there but already reported as broken: not an analysis error
        if count < minimum:
            raise AnalysisError(f"{rule}: instance floor not met for {what}: {count} < {minimum} (anchor lost)")

    def unrecognised(self, rule: str, where: str, what: str):
        raise AnalysisError(f"UNRECOGNISED-IDIOM {rule} at {where}: {what}")

    # ------------------------------------------------------------------ finishing
    def finish(self) -> int:
        obs = self.obligations
        if self.only_key is not None:
            obs = [o for o in obs if o.key(self.prop) == self.only_key]
        viol = [o for o in obs if o.status == "violation"]
        known = [o for o in obs if o.status == "known"]
        disc = [o for o in obs if o.status == "discharged"]
        ctrl = [o for o in obs if o.status == "control"]
        wall = time.time() - self.t0
        lines = []
        for o in known:
            lines.append(f"KNOWN-FINDING: property={self.prop} {o.finding_id} {o.rule} {o.construct} :: {o.what}")
        replay_dir = os.path.join(self.evidence_dir, "replay")
        for o in viol:
            dig = hashlib.sha256(repr(o.key(self.prop)).encode()).hexdigest()[:10]
            path = os.path.join(replay_dir, f"{self.prop}-{o.rule}-{dig}.json")
            if self.write_evidence:
                os.makedirs(replay_dir, exist_ok=True)
                with open(path, "w", encoding="utf-8") as fh:
                    json.dump({"property": self.prop, "rule": o.rule, "construct": o.construct,
                               "stmt": o.stmt, "where": o.where, "what": o.what, "detail": o.detail},
                              fh, indent=1, sort_keys=True)
            lines.append(f"  {o.rule} at {o.where}: {o.what}")
            if o.stmt:
                lines.append(f"      stmt: {o.stmt}")
            for kk, vv in list(o.detail.items())[:6]:
                lines.append(f"      {kk}: {vv}")
            lines.append(f"VIOLATION property={self.prop} replay={path}")
        n_obl = len(disc) + len(viol) + len(known)
        rules = sorted({o.rule for o in obs})
        summary = (f"{self.prop} [{self.tier}] rules={len(rules)} obligations={n_obl} discharged={len(disc)} "
                   f"known={len(known)} violations={len(viol)} controls={len(ctrl)} "
                   f"functions={len(self.functions_analysed)} paths={self.paths_enumerated} wall={wall:.2f}s")
        print(summary)
        for ln in lines:
            print(ln)
        if self.write_evidence and self.only_key is None:
            self._write_evidence(disc, viol, known, ctrl, rules, wall)
        return 1 if viol else 0

    def _write_evidence(self, disc, viol, known, ctrl, rules, wall) -> None:
        os.makedirs(self.evidence_dir, exist_ok=True)
        samples = []
        seen_rules = set()
        for o in viol + known + disc:
            if o.rule in seen_rules and o.status == "discharged":
                continue
            seen_rules.add(o.rule)
            samples.append(o.as_dict())
        per_rule: Dict[str, Dict[str, int]] = {}
        for o in disc + viol + known:
            d = per_rule.setdefault(o.rule, {"obligations": 0, "discharged": 0, "violations": 0, "known": 0})
            d["obligations"] += 1
            d[{"discharged": "discharged", "violation": "violations", "known": "known"}[o.status]] += 1
        st = self.program.stats()
        cov = {
            "explanation": self.explanation,
            "rule": "every obligation is one (rule, code site or path) instance derived from /repo's current source; "
                    "distinct = distinct (rule, site, detail) records",
            "units_parsed": st["units_parsed"],
            "package_functions": st["functions"],
            "source_digest": st["digest"],
            "repo_root": st["root"],
            "functions_analysed": len(self.functions_analysed),
            "functions": sorted(self.functions_analysed),
            "paths_enumerated": self.paths_enumerated,
            "obligations": len(disc) + len(viol) + len(known),
            "discharged": len(disc),
            "known_findings": len(known),
            "positive_controls_fired": len(ctrl),
            "evaluations": len(disc) + len(viol) + len(known),
            "distinct_nontrivial": len({(o.rule, o.where, json.dumps(o.detail, sort_keys=True, default=str))
                                        for o in disc + viol + known}),
            "rules": rules,
            "per_rule": per_rule,
            "counters": self.counters,
            "exhaustive": bool(self.extra.get("exhaustive", False)),
            "samples": samples[:60],
            "trusted_base": self.trusted,
            "checker_cmd": f"./check {self.prop} --tier {self.tier}",
        }
        for k, v in self.extra.items():
            if k not in cov:
                cov[k] = v
        ev = {
            "property_id": self.prop,
            "tier": self.tier,
            "seed": int(os.environ.get("VERIF_SEED", "0") or 0),
            "level": "other",
            "wall_s": round(wall, 3),
            "violations": len(viol),
            "coverage": cov,
            "assumptions": self.assumptions,
        }
        path = os.path.join(self.evidence_dir, f"{self.prop}.json")
        tmp = path + ".tmp"
        with open(tmp, "w", encoding="utf-8") as fh:
            json.dump(ev, fh, indent=1, sort_keys=True, default=str)
        os.replace(tmp, path)


def _jsonable(d: dict) -> dict:
    out = {}
    for k, v in d.items():
        try:
            json.dumps(v)
            out[k] = v
        except TypeError:
            out[k] = str(v)
    return out
