"""Decorators and wrapper builders introduced after the analysed baseline.

The rules read the *body* of an anchored function.  A decorator put on that function later (or a wrapper put around a callable
before it is stored) runs first: it may call the function once with the caller's arguments and hand back its result
(transparent: logging, timing), or it may answer without calling it (a memo: `lru_cache`, a dict in front), in which case what
the body computes is no longer what callers get.  This module classifies them:

  verdict = "transparent" | "memo" | "unknown"

* a package function `D(f)` that returns a nested function (or an instance of a callable class) is read through
  `shapes.closure_models`: every returning path of the product must call `f` exactly once, with the product's own parameters,
  and return that call's value -> transparent; a returning path without a call of `f` -> memo;
* `functools.lru_cache / cache / cached_property` -> memo;
* anything else -> unknown.
"""

from __future__ import annotations

import ast
from typing import List, Optional, Tuple

from .kernel import expand
from .paths import show

# decorators of the analysed baseline: (name) -> allowed everywhere; signature_cache only where the baseline has it
_PLAIN = {"property", "classmethod", "staticmethod", "dataclass", "abstractmethod", "overload", "wraps", "total_ordering"}
_BASELINE_PAIRS = {("statemachine/signature.py::SignatureAdapter.from_callable", "signature_cache")}
_STDLIB_MEMO = {"lru_cache", "cache", "cached_property", "cached"}


def _deco_name(d: ast.AST) -> str:
    if isinstance(d, ast.Call):
        d = d.func
    if isinstance(d, ast.Attribute):
        return d.attr
    if isinstance(d, ast.Name):
        return d.id
    return type(d).__name__


def new_decorators(ctx, fn) -> List[ast.AST]:
    """Decorator expressions on `fn` that the analysed baseline did not have."""
    out = []
    for d in getattr(fn.node, "decorator_list", []) or []:
        nm = _deco_name(d)
        if nm in _PLAIN or nm in ("setter", "getter", "deleter"):
            continue
        if (fn.key, nm) in _BASELINE_PAIRS:
            continue
        out.append(d)
    return out


def builder_verdict(ctx, builder, wrapped_param: Optional[str] = None) -> Tuple[str, str]:
    """What the product of `builder(f, ...)` does with `f` (see module docstring)."""
    from .shapes import closure_models

    if wrapped_param is None:
        wrapped_param = builder.params[0] if builder.params else None
    if wrapped_param is None:
        return "unknown", f"{builder.qualname} takes no callable"
    try:
        models = closure_models(ctx, builder)
    except Exception as e:  # AnalysisError included: an unreadable builder is simply not classified
        return "unknown", f"{builder.qualname}: {e}"
    verdicts = []
    # paths of the builder that hand the callable back untouched
    for p in ctx.paths(builder, inline=None, exc_edges="none"):
        if p.kind == "return" and p.value is not None:
            v = expand(p.value, p.events)
            if isinstance(v, ast.Name) and v.id == wrapped_param:
                verdicts.append(("transparent", "returns the callable itself"))
    if not models and not verdicts:
        return "unknown", f"{builder.qualname} does not return a nested function or callable object"
    for m in models:
        a = m.fn.node.args
        own = [x.arg for x in a.posonlyargs + a.args + a.kwonlyargs] + ([a.vararg.arg] if a.vararg else []) + ([a.kwarg.arg] if a.kwarg else [])
        if m.bindings:
            own = [x for x in own if x not in m.bindings]
        for p in m.paths(ctx, inline=None, exc_edges="none"):
            if p.kind not in ("return", "fall"):
                continue
            calls = [e for e in p.calls() if _is_wrapped(e.term.func, wrapped_param, m)]
            if not calls:
                verdicts.append(("memo", f"{m.fn.qualname} can return without calling `{wrapped_param}` "
                                 f"({'; '.join(show(b.term) + '=' + str(b.x['taken']) for b in p.of('branch'))[:120]})"))
                continue
            if len(calls) > 1:
                verdicts.append(("unknown", f"{m.fn.qualname} calls `{wrapped_param}` {len(calls)} times on one path"))
                continue
            c = calls[0]
            v = expand(p.value, p.events) if p.value is not None else None
            passes = all((isinstance(x, ast.Name) and x.id in own) or (isinstance(x, ast.Starred) and isinstance(x.value, ast.Name) and x.value.id in own)
                         for x in c.term.args) and all(
                (isinstance(k.value, ast.Name) and k.value.id in own) for k in c.term.keywords)
            same = isinstance(p.value, ast.Name) and p.value.id in (f"$c{c.idx}", f"$w{c.idx}")
            if not same and v is not None:
                same = show(v) == show(expand(ast.Name(id=f"$c{c.idx}", ctx=ast.Load()), p.events))
            verdicts.append(("transparent", "calls it once and returns its value") if (passes and same) else
                            ("unknown", f"{m.fn.qualname} changes the arguments or the result of `{wrapped_param}`"))
    kinds = {k for k, _ in verdicts}
    if "memo" in kinds:
        return "memo", next(w for k, w in verdicts if k == "memo")
    if "unknown" in kinds:
        return "unknown", next(w for k, w in verdicts if k == "unknown")
    return "transparent", verdicts[0][1]


def _is_wrapped(f: ast.AST, wrapped_param: str, model) -> bool:
    if isinstance(f, ast.Name) and f.id == wrapped_param:
        return True
    # callable object: the field holding the callable
    if isinstance(f, ast.Attribute) and isinstance(f.value, ast.Name) and model.attrs:
        held = model.attrs.get(f.attr)
        if held is not None and show(held[0]) == wrapped_param:
            return True
    return False


def decorator_verdict(ctx, fn, d: ast.AST) -> Tuple[str, str]:
    nm = _deco_name(d)
    if nm in _STDLIB_MEMO:
        return "memo", f"@{nm}: results are kept per argument tuple (compared by == / hash) for as long as the cache lives"
    if nm == "signature_cache":
        return "memo", "@signature_cache: results are kept per cache key"
    target = d.func if isinstance(d, ast.Call) else d
    g = None
    if isinstance(target, ast.Name):
        try:
            g = ctx.r.lookup_global(target.id, fn.module)
        except Exception:
            g = None
    if g and g[0] == "func":
        if isinstance(d, ast.Call):
            return "unknown", f"@{show(d)}: decorator factory not analysed"
        return builder_verdict(ctx, g[1])
    return "unknown", f"@{show(d)} is not a function of the package"


def wrapped_report(ctx, fn) -> List[Tuple[str, str, str]]:
    """[(decorator text, verdict, why)] for the decorators of `fn` that are new and not transparent."""
    out = []
    for d in new_decorators(ctx, fn):
        v, why = decorator_verdict(ctx, fn, d)
        if v != "transparent":
            out.append((show(d), v, why))
    return out


def check_fresh(ctx, rule: str, fns, what: str) -> int:
    """Obligation: none of `fns` is reached through a memo (its body runs at every call).  Memo -> violation; unknown -> unrecognised."""
    rep = ctx.rep
    n = 0
    for fn in fns:
        for txt, v, why in wrapped_report(ctx, fn):
            n += 1
            if v == "memo":
                rep.violation(rule, fn.loc(), f"{what}: `{fn.qualname}` is now reached through @{txt}, which can answer without running it - {why}",
                              fn.key, f"@{txt}")
            else:
                rep.unrecognised(rule, fn.loc(), f"`{fn.qualname}` is wrapped by @{txt}: {why}")
    return n
