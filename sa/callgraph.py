"""Whole-package call graph over resolved callees (typed / by-name / property reads), plus the
inventory of callback-slot call sites (calls through values that hold user or derived callables)."""

from __future__ import annotations

import ast
from typing import Dict, Iterable, List, Optional, Set, Tuple

from .loader import FuncInfo, Program
from .resolve import Resolver, own_nodes


class CallGraph:
    def __init__(self, program: Program, resolver: Resolver):
        self.p = program
        self.r = resolver
        self.edges: Dict[FuncInfo, List[Tuple[FuncInfo, str, ast.AST]]] = {}
        self.slots: Dict[FuncInfo, List[Tuple[ast.AST, object]]] = {}
        self.unknown: Dict[FuncInfo, List[Tuple[ast.AST, object]]] = {}
        self.stats = {"typed": 0, "by_name": 0, "stdlib": 0, "builtin": 0, "slot": 0, "unknown": 0, "prop": 0}
        self._build()

    def _build(self) -> None:
        for fn in self.p.all_functions():
            out = self.edges.setdefault(fn, [])
            for node, res in self.r.call_sites(fn):
                self.stats[res.how] = self.stats.get(res.how, 0) + 1
                if res.how in ("typed", "by_name"):
                    for t in res.targets:
                        out.append((t, res.how, node))
                if res.how == "slot" or any(t.startswith(("attr:", "param:", "local:", "value:", "call-result")) for t in res.tags):
                    self.slots.setdefault(fn, []).append((node, res))
                if res.how == "unknown":
                    self.unknown.setdefault(fn, []).append((node, res))
            for node, getter in self.r.property_reads(fn):
                self.stats["prop"] += 1
                out.append((getter, "prop", node))
            # a bound method taken as a value (`check = self._callbacks.check`, `partial(self._take_callback, ...)`,
            # `cond=event.is_same_event`) is called by whoever receives it: an edge from the function that takes it
            callfuncs = {id(n.func) for n in own_nodes(fn.node) if isinstance(n, ast.Call)}
            for n in own_nodes(fn.node):
                if isinstance(n, ast.Attribute) and isinstance(n.ctx, ast.Load) and id(n) not in callfuncs:
                    for b in self.r.typeof(n.value, fn, ()):
                        c = self.p.classes.get(b[5:] if b.startswith("type:") else b)
                        if c is None:
                            continue
                        t = self.p.lookup_method(c, n.attr)
                        if t is not None and "property" not in t.decorators and not t.is_setter and not any(t is x for x, _, _ in out):
                            self.stats["method_value"] = self.stats.get("method_value", 0) + 1
                            out.append((t, "typed", n))
            # nested functions defined here are (potentially) called by whoever receives them:
            # over-approximate with an edge from the definer
            for n in own_nodes(fn.node):
                if isinstance(n, (ast.FunctionDef, ast.AsyncFunctionDef)):
                    q = f"{fn.qualname}.{n.name}"
                    t = fn.module.functions.get(q)
                    if t is not None:
                        out.append((t, "closure", n))

    def callees(self, fn: FuncInfo, hows: Iterable[str] = ("typed", "by_name", "prop")) -> List[FuncInfo]:
        return [t for t, how, _ in self.edges.get(fn, []) if how in hows]

    def callers(self, target: FuncInfo, hows: Iterable[str] = ("typed", "by_name", "prop")) -> List[Tuple[FuncInfo, ast.AST, str]]:
        out = []
        for fn, es in self.edges.items():
            for t, how, node in es:
                if t is target and how in hows:
                    out.append((fn, node, how))
        return out

    def reachable(self, roots: Iterable[FuncInfo], hows: Iterable[str] = ("typed", "by_name", "prop", "closure")) -> Set[FuncInfo]:
        seen: Set[FuncInfo] = set()
        todo = list(roots)
        hows = tuple(hows)
        while todo:
            f = todo.pop()
            if f in seen:
                continue
            seen.add(f)
            for t, how, _ in self.edges.get(f, []):
                if how in hows and t not in seen:
                    todo.append(t)
        return seen

    def cycles(self, nodes: Set[FuncInfo], hows: Iterable[str] = ("typed", "by_name", "prop")) -> List[List[FuncInfo]]:
        """Strongly connected components with more than one node, or with a self loop."""
        hows = tuple(hows)
        index: Dict[FuncInfo, int] = {}
        low: Dict[FuncInfo, int] = {}
        on: Set[FuncInfo] = set()
        stack: List[FuncInfo] = []
        out: List[List[FuncInfo]] = []
        counter = [0]

        def succ(v):
            return [t for t, how, _ in self.edges.get(v, []) if how in hows and t in nodes]

        def strong(v):
            # iterative Tarjan
            work = [(v, iter(succ(v)))]
            index[v] = low[v] = counter[0]
            counter[0] += 1
            stack.append(v)
            on.add(v)
            while work:
                node, it = work[-1]
                advanced = False
                for w in it:
                    if w not in index:
                        index[w] = low[w] = counter[0]
                        counter[0] += 1
                        stack.append(w)
                        on.add(w)
                        work.append((w, iter(succ(w))))
                        advanced = True
                        break
                    elif w in on:
                        low[node] = min(low[node], index[w])
                if advanced:
                    continue
                work.pop()
                if work:
                    parent = work[-1][0]
                    low[parent] = min(low[parent], low[node])
                if low[node] == index[node]:
                    comp = []
                    while True:
                        w = stack.pop()
                        on.discard(w)
                        comp.append(w)
                        if w is node:
                            break
                    if len(comp) > 1 or node in succ(node):
                        out.append(comp)

        for v in sorted(nodes, key=lambda f: f.key):
            if v not in index:
                strong(v)
        return out

    def baseline_callers(self, target: FuncInfo, is_new) -> Set[FuncInfo]:
        """Callers of `target`, looking through helpers introduced later (`is_new`): a new helper stands for the
        functions that call it; a new function nobody calls stands for itself (an entry point of its own)."""
        out: Set[FuncInfo] = set()
        seen: Set[FuncInfo] = set()
        todo = [target]
        while todo:
            cur = todo.pop()
            for fn, node, how in self.callers(cur):
                if fn in seen:
                    continue
                seen.add(fn)
                if is_new(fn) and self.callers(fn):
                    todo.append(fn)
                else:
                    out.add(fn)
        return out

    def only_reached_through(self, target: FuncInfo, gate_names: Set[str], family: Set[str]) -> Tuple[bool, List[str]]:
        """True when every caller chain of `target` (within `family` classes) ends in a function
        whose name is in gate_names.  Returns (ok, offending caller keys)."""
        bad: List[str] = []
        seen: Set[FuncInfo] = set()
        todo = [target]
        if not self.callers(target):
            return (False, [target.key + " (no caller: an entry point of its own)"])
        while todo:
            cur = todo.pop()
            for fn, node, how in self.callers(cur):
                if fn in seen:
                    continue
                seen.add(fn)
                if fn.name in gate_names:
                    continue
                if fn.cls is not None and fn.cls.name in family and fn.parent is None:
                    # a helper of the same family: its own callers must be gated too
                    if not self.callers(fn):
                        bad.append(fn.key + " (helper with no caller)")
                    todo.append(fn)
                else:
                    bad.append(f"{fn.key}:{getattr(node, 'lineno', 0)}")
        return (not bad, bad)
