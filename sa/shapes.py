"""Shape normalisers: equivalent ways of writing the same small computation are mapped to one canonical
description, so that rules compare meaning rather than spelling.

  canon_lookup     M[k]  ==  M.get(k)  ==  M.get(k, None)             -> (M, k)
  dict_model       d = base.copy(); d[k] = v; d.update(k2=v2, **{..})   -> base + ordered key writes
  collect_shape    [f(e) for e in xs if c(e)]  ==  out = []; for e in xs: if c(e): out.append(f(e)); return out
  missing_fact     `k not in M` / `M.get(k) is None`                    -> polarity of "k is missing from M"
"""

from __future__ import annotations

import ast
from dataclasses import dataclass, field
from typing import Dict, List, Optional, Tuple

from .kernel import expand, expand1
from .paths import Ev, Path, show


def canon_lookup(t: ast.AST, evs) -> Optional[Tuple[str, str]]:
    """(container, key) when `t` denotes the element of a mapping stored under a key."""
    seen = 0
    while isinstance(t, ast.Name) and t.id.startswith("$c") and seen < 4:
        t2 = expand1(t, evs)
        if t2 is t or show(t2) == show(t):
            break
        t = t2
        seen += 1
    if isinstance(t, ast.Subscript):
        return show(t.value), show(t.slice)
    if isinstance(t, ast.Call) and isinstance(t.func, ast.Attribute) and t.func.attr == "get" and t.args:
        if len(t.args) == 1 or (isinstance(t.args[1], ast.Constant) and t.args[1].value is None):
            return show(t.func.value), show(t.args[0])
    if isinstance(t, ast.Call) and isinstance(t.func, ast.Attribute) and t.func.attr == "setdefault" and len(t.args) == 2:
        d = t.args[1]
        d = expand1(d, evs) if isinstance(d, ast.Name) and d.id.startswith("$c") else d
        if isinstance(d, ast.Call) and not d.args and not d.keywords:
            return show(t.func.value), show(t.args[0])  # the element under the key, created empty when missing
    return None


def through_getitem(ctx, cls_name: str, lk):
    """`self[key]` inside class `cls_name` denotes `container[key]` when every path of its __getitem__ returns that
    canonical lookup of its parameter."""
    if lk is None or lk[0] != "self":
        return lk
    gi = ctx.p.find_fn(f"{cls_name}.__getitem__")
    if gi is None or len(gi.params) < 2:
        return lk
    cont = set()
    for p in ctx.paths(gi, inline=None, exc_edges="none"):
        r = canon_lookup(p.value, p.events) if p.kind == "return" else None
        if r is None or r[1] != gi.params[1]:
            return lk
        cont.add(r[0])
    return (cont.pop(), lk[1]) if len(cont) == 1 else lk


def missing_fact(p: Path, container: str, key: str) -> Optional[bool]:
    """True when the path established that `key` is missing from `container`, False when present."""
    out = None
    for b in p.of("branch"):
        t = b.term
        if isinstance(t, ast.Compare) and len(t.ops) == 1:
            op, l, r = t.ops[0], t.left, t.comparators[0]
            if isinstance(op, ast.In) and show(l) == key and show(r) == container:
                out = not b.x["taken"]
            if isinstance(op, ast.Is) and isinstance(r, ast.Constant) and r.value is None:
                lk = canon_lookup(l, p.events)
                if lk == (container, key):
                    out = b.x["taken"]
        lk = canon_lookup(t, p.events)
        if lk == (container, key):  # truthiness of the looked-up object
            out = not b.x["taken"]
    return out


@dataclass
class DictModel:
    base: Optional[str]  # text of what the mapping started from (e.g. 'self.trigger_data.kwargs.copy()'), '{}' for empty
    writes: List[Tuple[str, ast.AST, Ev]] = field(default_factory=list)  # (constant key or '**', value term, event) in order
    obj: str = ""
    created: int = -1

    def final(self) -> Dict[str, ast.AST]:
        out: Dict[str, ast.AST] = {}
        for k, v, _ in self.writes:
            if k != "**":
                out[k] = v
        return out

    def merges_after(self, idx: int) -> List[Ev]:
        return [e for k, v, e in self.writes if k == "**" and e.idx > idx]


def dict_model(p: Path, obj) -> Optional[DictModel]:
    """Abstract content of the mapping object named by placeholder `obj` (`$cN` / `$lN`) along the path;
    `obj` may also be a dict display term (a mapping built and returned in one expression)."""
    evs = p.events
    m = None
    if isinstance(obj, ast.Dict):
        last = evs[-1] if evs else None
        m = DictModel("{}", obj=show(obj), created=last.idx if last is not None else 0)
        for k, v in zip(obj.keys, obj.values):
            if k is None:
                m.writes.append(("**", v, last))
                if not any(kk != "**" for kk, _, _ in m.writes) and len(m.writes) == 1:
                    m.base = show(expand(v, evs))  # `{**base, ...}` starts from base
            elif isinstance(k, ast.Constant):
                m.writes.append((k.value, v, last))
        return m
    if not isinstance(obj, str):
        obj = show(obj)
    for e in evs:
        if e.kind == "call" and f"$c{e.idx}" == obj:
            t = e.term
            f = show(t.func)
            if f.endswith(".copy") or f == "dict":
                base = show(expand(t, evs))
                m = DictModel(base, obj=obj, created=e.idx)
                if f == "dict":
                    m.base = "{}" if not t.args else show(expand(t.args[0], evs))
                    for kw in t.keywords:
                        m.writes.append((kw.arg or "**", kw.value, e))
            else:
                m = DictModel(show(expand(t, evs)), obj=obj, created=e.idx)
        elif e.kind == "alloc" and f"$l{e.idx}" == obj and isinstance(e.term, ast.Dict):
            m = DictModel("{}", obj=obj, created=e.idx)
            for k, v in zip(e.term.keys, e.term.values):
                if k is None:
                    m.writes.append(("**", v, e))
                elif isinstance(k, ast.Constant):
                    m.writes.append((k.value, v, e))
        if m is None:
            continue
        if e.kind == "store" and e.x.get("subscript") and show(e.term.value) == obj:
            k = e.term.slice
            m.writes.append((k.value if isinstance(k, ast.Constant) else "?", e.x["value"], e))
        elif e.kind == "call" and isinstance(e.term.func, ast.Attribute) and show(e.term.func.value) == obj:
            op = e.term.func.attr
            if op == "update":
                for a in e.term.args:
                    a1 = expand1(a, evs)
                    if isinstance(a1, ast.Dict):
                        for k, v in zip(a1.keys, a1.values):
                            m.writes.append((k.value if isinstance(k, ast.Constant) else "**", v, e))
                    else:
                        m.writes.append(("**", a, e))
                for kw in e.term.keywords:
                    m.writes.append((kw.arg or "**", kw.value, e))
            elif op == "setdefault" and e.term.args and isinstance(e.term.args[0], ast.Constant):
                m.writes.append((e.term.args[0].value, e.term.args[1] if len(e.term.args) > 1 else ast.Constant(value=None), e))
    return m


@dataclass
class Collect:
    source: str  # iterated collection
    filters: List[Tuple[str, bool]]  # (condition text with the element written as ELEM, required polarity)
    value: str  # collected value with the element written as ELEM
    form: str  # 'comprehension' | 'loop'
    extra: dict = field(default_factory=dict)


def _elem_norm(txt: str, elem: str) -> str:
    return txt.replace(elem, "ELEM")


def collect_from_comp(c: ast.AST) -> Optional[Collect]:
    if not isinstance(c, (ast.ListComp, ast.GeneratorExp)) or len(c.generators) != 1:
        return None
    g = c.generators[0]
    if not isinstance(g.target, ast.Name):
        return None
    t = g.target.id
    import re

    def norm(x):
        return re.sub(rf"\b{re.escape(t)}\b", "ELEM", show(x))

    return Collect(show(g.iter), [(norm(i), True) for i in g.ifs], norm(c.elt), "comprehension")


def collect_from_loop(p: Path) -> Optional[Collect]:
    """A path with exactly one iteration that appends to a fresh list which is then returned."""
    evs = p.events
    if p.kind != "return":
        return None
    out = show(p.value)
    if not out.startswith("$l"):
        return None
    its = [e for e in evs if e.kind == "iter" and e.x.get("loop") == "for"]
    apps = [e for e in evs if e.kind == "call" and isinstance(e.term.func, ast.Attribute) and e.term.func.attr == "append"
            and show(e.term.func.value) == out]
    if len(its) != 1 or len(apps) != 1:
        return None
    it, app = its[0], apps[0]
    elem = show(it.x["elem"])
    filters = []
    for b in evs[it.idx: app.idx]:
        if b.kind == "branch":
            filters.append((_elem_norm(show(expand1(b.term, evs)), elem), b.x["taken"]))
    val = _elem_norm(show(expand1(app.term.args[0], evs)), elem)
    return Collect(show(it.term), filters, val, "loop")


import operator as _op

_CMP = {ast.Eq: _op.eq, ast.NotEq: _op.ne, ast.Lt: _op.lt, ast.LtE: _op.le, ast.Gt: _op.gt, ast.GtE: _op.ge}


def consistent_lengths(p: Path, obj: str, candidates=(0, 1, 2, 3)) -> List[int]:
    """Lengths of the list `obj` that agree with every length/truthiness test of it on the path."""
    evs = p.events
    facts = []
    for b in p.of("branch"):
        t = expand1(b.term, evs)
        pol = b.x["taken"]
        if show(b.term) == obj:
            facts.append(lambda L, pol=pol: (L > 0) == pol)
        elif isinstance(t, ast.Compare) and len(t.ops) == 1 and type(t.ops[0]) in _CMP:
            l, r = t.left, t.comparators[0]
            if isinstance(l, ast.Call) and show(l.func) == "len" and show(l.args[0]) == obj and isinstance(r, ast.Constant):
                facts.append(lambda L, f=_CMP[type(t.ops[0])], c=r.value, pol=pol: f(L, c) == pol)
            elif isinstance(r, ast.Call) and show(r.func) == "len" and show(r.args[0]) == obj and isinstance(l, ast.Constant):
                facts.append(lambda L, f=_CMP[type(t.ops[0])], c=l.value, pol=pol: f(c, L) == pol)
        elif isinstance(t, ast.Call) and show(t.func) == "len" and show(t.args[0]) == obj:
            facts.append(lambda L, pol=pol: (L > 0) == pol)
    # iterating the list (or a tail slice of it) also tells its length: exhausted after k rounds / at least k+1 rounds
    for e in evs:
        if e.kind in ("iter", "exhaust") and e.x.get("loop", "for") == "for" and e.term is not None:
            t = e.term
            off = None
            if show(t) == obj:
                off = 0
            elif isinstance(t, ast.Subscript) and show(t.value) == obj and isinstance(t.slice, ast.Slice) and t.slice.upper is None and t.slice.step is None \
                    and isinstance(t.slice.lower, ast.Constant) and type(t.slice.lower.value) is int and t.slice.lower.value >= 0:
                off = t.slice.lower.value
            if off is None:
                continue
            k = e.x.get("k", 0)
            if e.kind == "exhaust":
                facts.append(lambda L, k=k, off=off: max(L - off, 0) == k)
            else:
                facts.append(lambda L, k=k, off=off: L - off >= k + 1)
    return [L for L in candidates if all(f(L) for f in facts)]


def fold_of(t: ast.AST, evs) -> Optional[Tuple[str, str, int]]:
    """(function, list, n_elements) when `t` is the left fold of a list by a binary function: `reduce(f, xs)`, or the
    value built by `acc = xs[0]; for x in xs[1:]: acc = f(acc, x)` after n-1 rounds: f(f(xs[0], xs[1:][$k0]), xs[1:][$k1])."""
    t1 = expand1(t, evs) if isinstance(t, ast.Name) and t.id.startswith("$c") else t
    if isinstance(t1, ast.Call) and show(t1.func) in ("reduce", "functools.reduce") and len(t1.args) == 2:
        return show(t1.args[0]), show(t1.args[1]), -1
    n = 0
    cur = t1
    fname = None
    lst = None
    while True:
        c = expand1(cur, evs) if isinstance(cur, ast.Name) and cur.id.startswith("$c") else cur
        if isinstance(c, ast.Call) and len(c.args) == 2 and not c.keywords:
            f = show(c.func)
            if fname is None:
                fname = f
            if f != fname:
                return None
            right = c.args[1]
            if not (isinstance(right, ast.Subscript) and show(right.slice).startswith("$k") and isinstance(right.value, ast.Subscript)
                    and isinstance(right.value.slice, ast.Slice) and show(right.value.slice) == "1:"):
                return None
            l_ = show(right.value.value)
            if lst is None:
                lst = l_
            if l_ != lst:
                return None
            n += 1
            cur = c.args[0]
            continue
        if isinstance(c, ast.Subscript) and isinstance(c.slice, ast.Constant) and c.slice.value == 0 and fname is not None and show(c.value) == lst:
            return fname, lst, n + 1
        return None


def call_value(ctx, call: ast.Call, fn) -> Optional[ast.AST]:
    """If `call` (a raw AST call inside fn) targets one package function whose every returning path returns the same
    term, return that term with the callee's parameters replaced by the call's arguments; else None.
    Lets rules look *through* a small helper used inside a comprehension (which the path engine does not enter)."""
    res = ctx.r.resolve_in(call, fn)
    if res.how != "typed" or len(res.targets) != 1:
        return None
    callee = res.targets[0]
    if isinstance(callee.node, ast.Lambda):
        return None
    a = callee.node.args
    names = [x.arg for x in a.posonlyargs + a.args]
    if callee.cls is not None and callee.parent is None and "staticmethod" not in callee.decorators and names and names[0] in ("self", "cls"):
        names = names[1:]
    binds = {}
    for nm, arg in zip(names, call.args):
        binds[nm] = arg
    for kw in call.keywords:
        if kw.arg:
            binds[kw.arg] = kw.value
    body = [st for st in callee.node.body if not (isinstance(st, ast.Expr) and isinstance(st.value, ast.Constant))]
    if len(body) == 1 and isinstance(body[0], ast.Return) and body[0].value is not None:
        # a one-expression helper: substitute the parameters textually (keeps conditional expressions whole)
        import copy

        class _S(ast.NodeTransformer):
            def visit_Name(self, n):
                return copy.deepcopy(binds[n.id]) if isinstance(n.ctx, ast.Load) and n.id in binds else n

        return _S().visit(copy.deepcopy(body[0].value))
    vals = set()
    term = None
    for p in ctx.paths(callee, inline=None, exc_edges="none", bindings=binds):
        if p.kind != "return":
            continue
        t = expand(p.value, p.events)
        vals.add(show(t))
        term = t
    return term if len(vals) == 1 else None


def generator_shape(ctx, gen_fn) -> Optional[Collect]:
    """Shape of a simple generator `for e in xs: if c(e): yield v(e)` (one-iteration path)."""
    for p in ctx.paths(gen_fn, inline=None, exc_edges="none", unroll=1):
        evs = p.events
        its = [e for e in evs if e.kind == "iter" and e.x.get("loop") == "for"]
        ys = [e for e in evs if e.kind == "yield" and not e.x.get("from")]
        if len(its) != 1 or len(ys) != 1:
            continue
        it, y = its[0], ys[0]
        elem = show(it.x["elem"])
        filters = [(_elem_norm(show(expand1(b.term, evs)), elem), b.x["taken"]) for b in evs[it.idx: y.idx] if b.kind == "branch"]
        return Collect(show(it.term), filters, _elem_norm(show(expand1(y.term, evs)), elem), "generator")
    return None


def compose_source(ctx, c: Collect, fn) -> Collect:
    """If the collection iterates a call to a package generator helper, look through it."""
    try:
        src = ast.parse(c.source, mode="eval").body
    except SyntaxError:
        return c
    if not isinstance(src, ast.Call):
        return c
    res = ctx.r.resolve_in(src, fn)
    if res.how != "typed" or len(res.targets) != 1:
        return c
    g = generator_shape(ctx, res.targets[0])
    if g is None or g.value != "ELEM":
        return c
    # parameters of the helper are passed through unchanged in the cases this is used for (*args, **kwargs)
    return Collect(g.source, g.filters + c.filters, c.value, c.form + "+generator", {**c.extra, "through": res.targets[0].qualname})


def executor_collect(ctx, fn) -> List[Collect]:
    """All collection shapes by which `fn` gathers per-callback values: returned comprehension, gather(*comp), append loop."""
    out: List[Collect] = []
    for p in ctx.paths(fn, exc_edges="none", unroll=1):
        if p.kind != "return":
            continue
        v = expand(p.value, p.events)
        c = None
        if isinstance(v, (ast.ListComp, ast.GeneratorExp)):
            c = collect_from_comp(v)
        elif isinstance(v, ast.Call) and v.args and isinstance(v.args[0], ast.Starred) and isinstance(v.args[0].value, (ast.GeneratorExp, ast.ListComp)):
            c = collect_from_comp(v.args[0].value)
            if c is not None:
                c.extra["wrapper"] = show(v.func)
                c.extra["wrapper_kwargs"] = [kw.arg for kw in v.keywords]
                calls = [e for e in p.calls() if show(e.term.func) == show(v.func)]
                c.extra["awaited"] = bool(calls and calls[0].x.get("awaited"))
        else:
            c = collect_from_loop(p)
        if c is not None:
            out.append(compose_source(ctx, c, fn))
    return out


def eq_implies(ctx, fn, required, paths_kw=None):
    """Does `fn` (an __eq__) answer True only when `self.A == other.A` holds for every A in `required`?
    The returned expression of every path is read as a boolean function: comparisons `self.A == other.A` are the atoms
    A, every other leaf is a free atom.  -> (ok, description, atoms seen)"""
    import itertools
    from . import boolfn

    other = fn.params[1] if len(fn.params) > 1 else "other"
    descs, seen = [], set()
    ok_all = True
    for p in ctx.paths(fn, inline=None, exc_edges="none", **(paths_kw or {})):
        if p.kind != "return":
            continue
        v = expand(p.value, p.events)
        descs.append(show(v))
        free = {}

        def atom(x, free=free):
            if isinstance(x, (ast.BoolOp, ast.IfExp, ast.Constant)) or (isinstance(x, ast.UnaryOp) and isinstance(x.op, ast.Not)):
                return None
            if isinstance(x, ast.Compare) and len(x.ops) == 1 and isinstance(x.ops[0], ast.Eq):
                l, r = show(x.left), show(x.comparators[0])
                for side_a, side_b in ((l, r), (r, l)):
                    if side_a.startswith("self.") and side_b == f"{other}.{side_a[5:]}":
                        seen.add(side_a[5:])
                        return "EQ_" + side_a[5:]
            if isinstance(x, ast.Name) and x.id == "NotImplemented":
                return "FREE_NotImplemented"
            return free.setdefault(show(x), f"FREE_{len(free)}")

        # collect the atoms first (evaluate once with a recording valuation)
        class _Rec(dict):
            def __missing__(self, k):
                self[k] = True
                return True

        rec = _Rec()
        try:
            boolfn.evaluate(v, atom, rec)
        except boolfn.Unrecognised:
            return False, f"unrecognised equality `{show(v)}`", seen
        names = sorted(set(rec) | {f"EQ_{a}" for a in required})
        for combo in itertools.product([True, False], repeat=len(names)):
            val = dict(zip(names, combo))
            try:
                res = bool(boolfn.evaluate(v, atom, dict(val)))
            except boolfn.Unrecognised:
                return False, f"unrecognised equality `{show(v)}`", seen
            if res and not all(val[f"EQ_{a}"] for a in required):
                ok_all = False
    if not descs:
        return False, "no returning path", seen
    return ok_all and all(a in seen for a in required), " | ".join(descs), seen


@dataclass
class ClosureModel:
    """What a builder hands out as a callable: a nested function closing over the builder's locals, or an instance of a
    class with `__call__` whose fields hold them.  Both are analysed alike: `paths()` enumerates the body that runs at
    call time with the captured values substituted (free variables, or `self.<field>` through the constructor's stores)."""
    builder: object
    fn: object
    obj: str
    attrs: Dict[str, Tuple[ast.AST, Ev]]
    bindings: Optional[dict]
    events: tuple

    def paths(self, ctx, **kw):
        return ctx.paths(self.fn, bindings=self.bindings, **kw)


def closure_models(ctx, builder, bindings=None) -> List[ClosureModel]:
    out: Dict[str, ClosureModel] = {}
    for p in ctx.paths(builder, inline=None, exc_edges="none", bindings=bindings):
        if p.kind != "return" or not isinstance(p.value, ast.Name):
            continue
        oid = p.value.id
        if oid in out:
            continue
        fn = None
        binds = None
        if oid.startswith("$def:"):
            q = oid[len("$def:"):].split("@")[0]
            fn = next((f for f in builder.module.all_functions if f.qualname == q and not isinstance(f.node, ast.Lambda)), None)
        elif oid.startswith("$new:"):
            cname = oid[len("$new:"):].split("@")[0]
            c = ctx.p.classes.get(cname)
            fn = ctx.p.lookup_method(c, "__call__") if c is not None else None
            if fn is not None:
                heap = {k_: v for k_, v in p.heap.items() if k_[0] == oid}
                binds = {fn.params[0]: ast.Name(id=oid, ctx=ast.Load()), "$heap": heap}
        if fn is None:
            continue
        attrs = {}
        for e in p.of("store"):
            if isinstance(e.term, ast.Attribute) and isinstance(e.term.value, ast.Name) and e.term.value.id == oid:
                attrs[e.x.get("attr")] = (e.x["value"], e)
        out[oid] = ClosureModel(builder, fn, oid, attrs, binds, p.events)
    return list(out.values())


def seq_model(p: Path, t: ast.AST, upto: Optional[int] = None) -> Optional[List[ast.AST]]:
    """Elements of the sequence `t` denotes on this path, in order: a tuple/list display as written, or a list placeholder
    `$lN` with the appends / extends applied to it before event index `upto` (an extend contributes a Starred element)."""
    evs = p.events
    if isinstance(t, (ast.Tuple, ast.List)):
        return list(t.elts)
    if not (isinstance(t, ast.Name) and t.id.startswith("$l") and t.id[2:].isdigit()):
        return None
    i = int(t.id[2:])
    if i >= len(evs) or evs[i].kind != "alloc" or not isinstance(evs[i].term, (ast.List, ast.Tuple)):
        return None
    out = list(evs[i].term.elts)
    for e in evs[i + 1: upto]:
        if e.kind == "call" and isinstance(e.term.func, ast.Attribute) and show(e.term.func.value) == t.id:
            op = e.term.func.attr
            if op == "append" and len(e.term.args) == 1:
                out.append(e.term.args[0])
            elif op == "extend" and len(e.term.args) == 1:
                out.append(ast.Starred(value=e.term.args[0], ctx=ast.Load()))
            elif op == "insert" and len(e.term.args) == 2 and isinstance(e.term.args[0], ast.Constant) and e.term.args[0].value == 0:
                out.insert(0, e.term.args[1])
            else:
                return None
    return out


def derives_from(p: Path, t: ast.AST, needle: str) -> bool:
    """Does the value `t` (on this path) derive from the value whose expanded text is `needle`?  Looks through call
    placeholders and through containers built on the path: a list/dict/set allocated here derives from what was appended,
    added, extended or stored into it (also via `d.setdefault(k, []).append(x)`)."""
    from .kernel import xshow

    evs = p.events
    if needle in xshow(t, evs):
        return True
    seen = set()
    todo = [n_.id for n_ in ast.walk(t) if isinstance(n_, ast.Name) and n_.id.startswith(("$l", "$c"))]
    while todo:
        nm = todo.pop()
        if nm in seen:
            continue
        seen.add(nm)
        for e_ in evs:
            if e_.kind == "call" and isinstance(e_.term.func, ast.Attribute) and e_.term.func.attr in ("append", "add", "extend", "update", "insert", "setdefault"):
                recv = e_.term.func.value
                if show(recv) == nm or nm in {x.id for x in ast.walk(expand1(recv, evs)) if isinstance(x, ast.Name)} \
                        or nm in {x.id for x in ast.walk(recv) if isinstance(x, ast.Name)}:
                    for a_ in e_.term.args:
                        if needle in xshow(a_, evs):
                            return True
                        todo.extend(n_.id for n_ in ast.walk(a_) if isinstance(n_, ast.Name) and n_.id.startswith(("$l", "$c")))
            if e_.kind == "store" and e_.x.get("subscript") and show(e_.term.value) == nm:
                if needle in xshow(e_.x["value"], evs) + xshow(e_.term.slice, evs):
                    return True
            if e_.kind == "call" and f"$c{e_.idx}" == nm:
                for a_ in list(e_.term.args) + [e_.term.func]:
                    todo.extend(n_.id for n_ in ast.walk(a_) if isinstance(n_, ast.Name) and n_.id.startswith(("$l", "$c")))
    return False


# ------------------------------------------------------------------ copy protocol of a class
COPY_HOOKS = ("__copy__", "__deepcopy__", "__reduce__", "__reduce_ex__", "__getstate__", "__setstate__", "__getnewargs__", "__getnewargs_ex__")


def copy_hooks(ctx, cls_name: str, names=COPY_HOOKS):
    """The copy-protocol methods instances of the class respond to (own or inherited inside the package): [(name, FuncInfo)]."""
    c = ctx.p.classes.get(cls_name)
    if c is None:
        return []
    out = []
    for nm in names:
        m = ctx.p.lookup_method(c, nm)
        if m is not None:
            out.append((nm, m))
    return out


def shallow_copy_missing(ctx, cls_name: str, fields) -> Optional[List[str]]:
    """What `copy.copy(x)` loses for an instance x of the class: None when the class has no copy hook (the default copy keeps every
    attribute), else the fields of `fields` that some path of its `__copy__` does not carry over (rebuilt through the constructor
    with `self.<field>` per field, or `__dict__` copied whole).  Raises AnalysisError for a hook it cannot read."""
    from .loader import AnalysisError

    hooks = copy_hooks(ctx, cls_name, ("__copy__", "__reduce__", "__reduce_ex__", "__getstate__", "__setstate__", "__getnewargs__", "__getnewargs_ex__"))
    if not hooks:
        return None
    if [nm for nm, _ in hooks] != ["__copy__"]:
        raise AnalysisError(f"{cls_name}: copy protocol through {', '.join(nm for nm, _ in hooks)} is not analysed")
    fn = hooks[0][1]
    init = ctx.p.lookup_method(ctx.p.classes[cls_name], "__init__")
    a = init.node.args
    params = [x.arg for x in a.posonlyargs + a.args if x.arg != "self"]
    missing = set()
    for p in ctx.paths(fn, exc_edges="none"):
        if p.kind != "return" or p.value is None:
            continue
        v = expand(p.value, p.events)
        if isinstance(v, ast.Name) and v.id == "self":
            continue  # the very object: nothing lost (sharing is another rule's business)
        if isinstance(v, ast.Call) and show(v.func) in ("type(self)", "self.__class__", cls_name, "cls"):
            given = {}
            for i, arg in enumerate(v.args):
                if i < len(params):
                    given[params[i]] = show(arg)
            for kw in v.keywords:
                if kw.arg:
                    given[kw.arg] = show(kw.value)
            missing |= {f for f in fields if given.get(f) != f"self.{f}"}
            continue
        whole = any(e.kind == "call" and isinstance(e.term.func, ast.Attribute) and e.term.func.attr == "update"
                    and show(e.term.func.value).endswith(".__dict__") and e.term.args and show(expand(e.term.args[0], p.events)) == "self.__dict__"
                    for e in p.events)
        if whole:
            continue
        raise AnalysisError(f"{fn.key}: shape of the copy not recognised: {show(v)[:80]}")
    return sorted(missing)
