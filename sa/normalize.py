"""AST-level canonicalisation of 'collect' loops into the comprehensions they spell out.

    xs = []                                   xs = [E for T in IT if C1 if C2]
    for T in IT:
        if not C1: continue          ==>
        if C2:
            xs.append(E)

(likewise `d = {}` / `d[K] = V` -> dict comprehension and `s = set()` / `s.add(E)` -> set comprehension).
Used on request of a rule (`ctx.paths(..., comps_for_loops=True)`) whose obligations are stated over the
comprehension: an explicit loop that does nothing but collect is then seen as that comprehension.  A loop that
does anything else (other effects, break/return/else, the container touched elsewhere in the loop) is left alone.
Locals assigned once inside the loop body and used only afterwards in it are substituted into the collected
expression (`v = f(x); xs.append(v)` -> `f(x)`), which preserves evaluation order because they are single-use
or pure names.
"""

from __future__ import annotations

import ast
import copy
from typing import Dict, List, Optional, Tuple


def _names(n: ast.AST) -> set:
    return {x.id for x in ast.walk(n) if isinstance(x, ast.Name)}


def _is_empty_ctor(v: ast.AST) -> Optional[str]:
    if isinstance(v, ast.List) and not v.elts:
        return "list"
    if isinstance(v, ast.Dict) and not v.keys:
        return "dict"
    if isinstance(v, ast.Call) and isinstance(v.func, ast.Name) and not v.args and not v.keywords and v.func.id in ("list", "dict", "set"):
        return v.func.id
    return None


def _negate(t: ast.AST) -> ast.AST:
    if isinstance(t, ast.UnaryOp) and isinstance(t.op, ast.Not):
        return copy.deepcopy(t.operand)  # (used as a filter: only its truth value matters)
    if isinstance(t, ast.Compare) and len(t.ops) == 1:
        flip = {ast.Is: ast.IsNot, ast.IsNot: ast.Is, ast.In: ast.NotIn, ast.NotIn: ast.In, ast.Eq: ast.NotEq, ast.NotEq: ast.Eq}
        if type(t.ops[0]) in (ast.Is, ast.IsNot, ast.In, ast.NotIn):
            c = copy.deepcopy(t)
            c.ops = [flip[type(t.ops[0])]()]
            return c
    return ast.UnaryOp(op=ast.Not(), operand=copy.deepcopy(t))


class _Sub(ast.NodeTransformer):
    def __init__(self, binds: Dict[str, ast.AST]):
        self.binds = binds

    def visit_Name(self, n):
        if isinstance(n.ctx, ast.Load) and n.id in self.binds:
            return copy.deepcopy(self.binds[n.id])
        return n


def _collect_body(body: List[ast.stmt], name: str, kind: str, binds: Dict[str, ast.AST]):
    """-> (conds, element) for a loop body that only filters and collects into `name`, else None.
    element is an expr (list/set) or a (key, value) pair (dict)."""
    conds: List[ast.AST] = []
    stmts = list(body)
    i = 0
    while i < len(stmts):
        s = stmts[i]
        last = i == len(stmts) - 1
        if isinstance(s, ast.Expr) and isinstance(s.value, ast.Constant):
            i += 1
            continue
        if isinstance(s, ast.If) and not s.orelse and len(s.body) == 1 and isinstance(s.body[0], ast.Continue) and not last:
            conds.append(_Sub(binds).visit(_negate(s.test)))
            i += 1
            continue
        if isinstance(s, (ast.Assign, ast.AnnAssign)) and not last:
            tgt = s.targets[0] if isinstance(s, ast.Assign) and len(s.targets) == 1 else (s.target if isinstance(s, ast.AnnAssign) else None)
            val = s.value
            if not isinstance(tgt, ast.Name) or val is None or tgt.id == name or name in _names(val):
                return None
            rest = stmts[i + 1:]
            uses = sum(1 for r in rest for x in ast.walk(r) if isinstance(x, ast.Name) and x.id == tgt.id and isinstance(x.ctx, ast.Load))
            stores = sum(1 for r in rest for x in ast.walk(r) if isinstance(x, ast.Name) and x.id == tgt.id and not isinstance(x.ctx, ast.Load))
            pure = isinstance(val, (ast.Name, ast.Attribute, ast.Constant))
            if stores or (uses > 1 and not pure):
                return None
            binds = dict(binds)
            binds[tgt.id] = _Sub(binds).visit(copy.deepcopy(val))
            i += 1
            continue
        if isinstance(s, ast.If) and not s.orelse and last:
            inner = _collect_body(s.body, name, kind, binds)
            if inner is None:
                return None
            c2, el = inner
            return conds + [_Sub(binds).visit(copy.deepcopy(s.test))] + c2, el
        if isinstance(s, ast.If) and last and len(s.orelse) >= 1:
            # if c: v = A else: v = B ; must be followed by the collect -> not last; unsupported here
            return None
        if last:
            if kind in ("list", "set") and isinstance(s, ast.Expr) and isinstance(s.value, ast.Call):
                c = s.value
                meth = "append" if kind == "list" else "add"
                if isinstance(c.func, ast.Attribute) and isinstance(c.func.value, ast.Name) and c.func.value.id == name and c.func.attr == meth \
                        and len(c.args) == 1 and not c.keywords and not isinstance(c.args[0], ast.Starred):
                    el = _Sub(binds).visit(copy.deepcopy(c.args[0]))
                    if name in _names(el):
                        return None
                    return conds, el
            if kind == "dict" and isinstance(s, ast.Assign) and len(s.targets) == 1 and isinstance(s.targets[0], ast.Subscript):
                t = s.targets[0]
                if isinstance(t.value, ast.Name) and t.value.id == name:
                    k = _Sub(binds).visit(copy.deepcopy(t.slice))
                    v = _Sub(binds).visit(copy.deepcopy(s.value))
                    if name in _names(k) | _names(v):
                        return None
                    return conds, (k, v)
            return None
        return None
    return None


def _branchy_value(stmts: List[ast.stmt]) -> List[ast.stmt]:
    """`if c: v = A` / `else: v = B`  ->  `v = A if c else B` (so that it can be substituted)."""
    out = []
    for s in stmts:
        if isinstance(s, ast.If) and len(s.body) == 1 and len(s.orelse) == 1 and all(
                isinstance(x, ast.Assign) and len(x.targets) == 1 and isinstance(x.targets[0], ast.Name) for x in (s.body[0], s.orelse[0])) \
                and s.body[0].targets[0].id == s.orelse[0].targets[0].id:
            new = ast.Assign(targets=[copy.deepcopy(s.body[0].targets[0])],
                             value=ast.IfExp(test=copy.deepcopy(s.test), body=copy.deepcopy(s.body[0].value), orelse=copy.deepcopy(s.orelse[0].value)))
            out.append(ast.copy_location(new, s))
        else:
            out.append(s)
    return out


def _rewrite_block(stmts: List[ast.stmt]) -> Tuple[List[ast.stmt], int]:
    out: List[ast.stmt] = []
    n = 0
    i = 0
    stmts = list(stmts)
    while i < len(stmts):
        s = stmts[i]
        done = False
        tgt = None
        if isinstance(s, ast.Assign) and len(s.targets) == 1 and isinstance(s.targets[0], ast.Name):
            tgt, val = s.targets[0], s.value
        elif isinstance(s, ast.AnnAssign) and isinstance(s.target, ast.Name) and s.value is not None:
            tgt, val = s.target, s.value
        kind = _is_empty_ctor(val) if tgt is not None else None
        if kind is not None:
            # the collecting loop: next statement that mentions the name must be a `for` that only collects
            j = i + 1
            while j < len(stmts) and tgt.id not in _names(stmts[j]):
                j += 1
            if j < len(stmts) and isinstance(stmts[j], ast.For) and not stmts[j].orelse and tgt.id not in _names(stmts[j].iter) \
                    and tgt.id not in _names(stmts[j].target):
                loop = stmts[j]
                got = _collect_body(_branchy_value(loop.body), tgt.id, kind, {})
                between = stmts[i + 1: j]
                loop_names = _names(loop.iter)
                # statements between the allocation and the loop keep their place (they do not mention the container)
                if got is not None and not any(isinstance(x, (ast.Break, ast.Return, ast.Yield, ast.YieldFrom, ast.Await)) for x in ast.walk(loop)):
                    conds, el = got
                    gen = ast.comprehension(target=copy.deepcopy(loop.target), iter=copy.deepcopy(loop.iter), ifs=conds, is_async=0)
                    if kind == "list":
                        comp = ast.ListComp(elt=el, generators=[gen])
                    elif kind == "set":
                        comp = ast.SetComp(elt=el, generators=[gen])
                    else:
                        comp = ast.DictComp(key=el[0], value=el[1], generators=[gen])
                    new = ast.Assign(targets=[ast.Name(id=tgt.id, ctx=ast.Store())], value=comp)
                    ast.copy_location(new, loop)
                    ast.fix_missing_locations(new)
                    for x in ast.walk(new):
                        if not hasattr(x, "lineno") and isinstance(x, (ast.expr, ast.stmt)):
                            ast.copy_location(x, loop)
                    out.extend(between)
                    out.append(new)
                    i = j + 1
                    n += 1
                    done = True
        if not done:
            out.append(s)
            i += 1
    # recurse into compound statements
    for s in out:
        for fld in ("body", "orelse", "finalbody"):
            sub = getattr(s, fld, None)
            if isinstance(sub, list) and sub and isinstance(sub[0], ast.stmt) and not isinstance(s, (ast.FunctionDef, ast.AsyncFunctionDef, ast.ClassDef)):
                new, k = _rewrite_block(sub)
                setattr(s, fld, new)
                n += k
        for h in getattr(s, "handlers", []) or []:
            new, k = _rewrite_block(h.body)
            h.body = new
            n += k
    return out, n


_cache: Dict[int, tuple] = {}  # id(node) -> (node kept alive so the id cannot be reused, body)


def comps_for_loops_body(fnode) -> List[ast.stmt]:
    """Body of the function with its pure collect-loops rewritten as comprehensions (cached per node)."""
    key = id(fnode)
    if key not in _cache or _cache[key][0] is not fnode:
        body = copy.deepcopy(list(fnode.body))
        new, n = _rewrite_block(body)
        _cache[key] = (fnode, new if n else list(fnode.body))
    return _cache[key][1]
