"""Resolver: light-weight type inference and callee resolution for the package.

Types are sets of tags: a package class name ('StateMachine'), a stdlib container tag
('<deque>', '<Lock>', '<dict>', '<list>', '<set>', '<str>', '<local>'), 'type:<Class>' for a
class object, 'ref:<T>' for a weakref to T.  The empty set means "unknown".

Callee resolution returns a `Resolution` naming how the target was found:
  typed    - receiver class known -> method found through the MRO (+ overrides in subclasses)
  by_name  - receiver unknown -> every method of that name in the package (over-approximation)
  stdlib   - operation on a stdlib object (deque.popleft, Lock.acquire, ...) or stdlib function
  builtin  - Python builtin
  slot     - call through a value that holds a user/derived callable (callback slot)
  unknown  - none of the above
"""

from __future__ import annotations

import ast
import builtins
import re
from dataclasses import dataclass, field
from typing import Dict, List, Optional, Set

from .loader import ClassInfo, FuncInfo, ModuleInfo, Program

STD_CTORS = {
    "deque": "<deque>", "Lock": "<Lock>", "RLock": "<RLock>", "dict": "<dict>", "defaultdict": "<dict>",
    "set": "<set>", "list": "<list>", "tuple": "<tuple>", "str": "<str>", "frozenset": "<set>",
    "local": "<local>", "OrderedDict": "<dict>", "Semaphore": "<Semaphore>", "BoundedSemaphore": "<Semaphore>",
    "Condition": "<Condition>", "Event": None,
}
ANNOT_TAGS = {
    "deque": "<deque>", "Deque": "<deque>", "Dict": "<dict>", "dict": "<dict>", "List": "<list>",
    "list": "<list>", "Set": "<set>", "set": "<set>", "str": "<str>", "Tuple": "<tuple>", "tuple": "<tuple>",
}


@dataclass
class Resolution:
    how: str
    targets: List[FuncInfo] = field(default_factory=list)
    tags: List[str] = field(default_factory=list)

    def names(self) -> List[str]:
        return [t.qualname for t in self.targets] + self.tags

    def has(self, qualname: str) -> bool:
        return any(t.qualname == qualname for t in self.targets)

    def __iter__(self):
        return iter(self.targets)

    def __len__(self):
        return len(self.targets)

    def __bool__(self):
        return bool(self.targets or self.tags)

    def __getitem__(self, i):
        return self.targets[i]


_CONTAINER_METHODS = {"append", "add", "extend", "update", "insert", "remove", "discard", "pop", "clear", "setdefault", "sort", "get",
                      "items", "keys", "values", "copy", "index", "count"}


class Resolver:
    def __init__(self, program: Program):
        self._rebound = {}
        self.p = program
        self._attr_cache: Dict[tuple, Set[str]] = {}
        self._ret_cache: Dict[str, Set[str]] = {}
        self._busy: Set[tuple] = set()
        self.stats = {"typed": 0, "by_name": 0, "stdlib": 0, "builtin": 0, "slot": 0, "unknown": 0}

    def _looks_local_container(self, recv: ast.AST, fn, events) -> bool:
        """The receiver is itself the result of a builtin-container operation, or a local bound to a display / builtin
        constructor in this function (and not a parameter or attribute, which could be a package object)."""
        if isinstance(recv, ast.Call) and isinstance(recv.func, ast.Attribute) and recv.func.attr in _CONTAINER_METHODS:
            return True
        if isinstance(recv, ast.Subscript):
            return self._looks_local_container(recv.value, fn, events)
        if isinstance(recv, ast.Name) and fn is not None and not isinstance(fn.node, ast.Lambda):
            if recv.id.startswith("$l"):
                return True
            for n in _own_nodes(fn.node):
                tgt = n.targets[0] if isinstance(n, ast.Assign) and len(n.targets) == 1 else (n.target if isinstance(n, ast.AnnAssign) else None)
                val = getattr(n, "value", None)
                if isinstance(tgt, ast.Name) and tgt.id == recv.id and val is not None:
                    if isinstance(val, (ast.List, ast.Dict, ast.Set, ast.ListComp, ast.DictComp, ast.SetComp)):
                        return True
                    if isinstance(val, ast.Call) and isinstance(val.func, ast.Name) and val.func.id in ("list", "dict", "set", "deque", "defaultdict", "sorted"):
                        return True
        return False

    # ------------------------------------------------------------------ annotations
    def annot_types(self, ann, mod: ModuleInfo) -> Set[str]:
        if ann is None:
            return set()
        txt = ann.value if isinstance(ann, ast.Constant) and isinstance(ann.value, str) else ast.unparse(ann)
        txt = txt.strip("'\"")
        out: Set[str] = set()
        head = re.match(r"\s*([A-Za-z_][A-Za-z_0-9\.]*)", txt)
        if head:
            h = head.group(1).split(".")[-1]
            if h in ANNOT_TAGS:
                tag = ANNOT_TAGS[h]
                inner = re.findall(r"[A-Za-z_][A-Za-z_0-9]*", txt[head.end():])
                elem = [i for i in inner if i in self.p.classes]
                if elem:
                    # Dict[K, V] -> value type is the last class named; List[V] -> V
                    return {f"{tag[:-1]}:{elem[-1]}>"}
                return {tag}
        for ident in re.findall(r"[A-Za-z_][A-Za-z_0-9]*", txt):
            if ident in self.p.classes:
                out.add(ident)
        return out

    # ------------------------------------------------------------------ name lookup
    def lookup_global(self, name: str, mod: ModuleInfo, depth=0):
        """-> ('class', ClassInfo) | ('func', FuncInfo) | ('value', ast, ModuleInfo) | ('ext', module, name) | None"""
        if name in mod.classes:
            return ("class", mod.classes[name])
        if name in mod.functions and "." not in name:
            return ("func", mod.functions[name])
        if name in mod.assigns:
            return ("value", mod.assigns[name], mod)
        if name in mod.imports:
            src, nm = mod.imports[name]
            if src in self.p.modules and nm is not None and depth < 4:
                r = self.lookup_global(nm, self.p.modules[src], depth + 1)
                if r is not None:
                    return r
                # `from . import registry`
            full = f"{src}.{nm}" if nm else src
            if full in self.p.modules:
                return ("module", self.p.modules[full])
            if src in self.p.modules and nm is None:
                return ("module", self.p.modules[src])
            return ("ext", src, nm)
        if hasattr(builtins, name):
            return ("builtin", name)
        return None

    # ------------------------------------------------------------------ typing
    def typeof(self, t: ast.AST, fn: Optional[FuncInfo], events=(), depth=0) -> Set[str]:
        if t is None or depth > 12:
            return set()
        if isinstance(t, ast.Name):
            return self._typeof_name(t.id, fn, events, depth)
        if isinstance(t, ast.Attribute):
            base = self.typeof(t.value, fn, events, depth + 1)
            out: Set[str] = set()
            for b in base:
                out |= self.attr_type(b, t.attr, depth + 1)
            if not base and isinstance(t.value, ast.Name):
                g = self.lookup_global(t.value.id, fn.module) if fn else None
                if g and g[0] == "module":
                    r = self.lookup_global(t.attr, g[1])
                    if r and r[0] == "class":
                        return {"type:" + r[1].name}
            return out
        if isinstance(t, ast.Call):
            return self._typeof_call(t, fn, events, depth)
        if isinstance(t, ast.Subscript):
            base = self.typeof(t.value, fn, events, depth + 1)
            out = set()
            for b in base:
                c = self.p.classes.get(b)
                gi = self.p.lookup_method(c, "__getitem__") if c is not None else None
                if gi is not None:
                    out |= self.ret_type(gi, depth + 1)  # obj[key] is obj.__getitem__(key)
            return out or self.elem_type(base, depth + 1)
        if isinstance(t, ast.Await):
            return self.typeof(t.value, fn, events, depth + 1)
        if isinstance(t, ast.Constant):
            return {"<str>"} if isinstance(t.value, str) else set()
        if isinstance(t, ast.JoinedStr):
            return {"<str>"}
        if isinstance(t, (ast.List, ast.ListComp)):
            return {"<list>"}
        if isinstance(t, (ast.Dict, ast.DictComp)):
            return {"<dict>"}
        if isinstance(t, (ast.Set, ast.SetComp)):
            return {"<set>"}
        if isinstance(t, ast.Tuple):
            return {"<tuple>"}
        if isinstance(t, ast.IfExp):
            return self.typeof(t.body, fn, events, depth + 1) | self.typeof(t.orelse, fn, events, depth + 1)
        if isinstance(t, ast.BoolOp):
            out = set()
            for v in t.values:
                out |= self.typeof(v, fn, events, depth + 1)
            return out
        return set()

    def iter_elem_types(self, it: ast.AST, fn: Optional[FuncInfo], events, depth=0) -> Set[str]:
        """Types of the elements obtained by iterating the expression `it` (containers, __iter__, generator functions)."""
        out = self.elem_type(self.typeof(it, fn, events, depth + 1), depth + 1)
        if not out and isinstance(it, ast.Call) and fn is not None and depth < 10:
            res = self._resolve(it, fn, events)
            for t in res.targets:
                key = ("gen", t.key)
                if key in self._busy:
                    continue
                self._busy.add(key)
                try:
                    for n in _own_nodes(t.node):
                        if isinstance(n, ast.Yield) and n.value is not None:
                            out |= self.typeof(n.value, t, (), depth + 1)
                        elif isinstance(n, ast.YieldFrom):
                            out |= self.iter_elem_types(n.value, t, (), depth + 1)
                finally:
                    self._busy.discard(key)
        return out

    def elem_type(self, tags: Set[str], depth=0) -> Set[str]:
        """Type of the elements obtained by iterating / indexing a value of the given types."""
        out: Set[str] = set()
        if depth > 12:
            return out
        for b in tags:
            if b.startswith("<") and ":" in b:
                out.add(b[1:-1].split(":", 1)[1])
                continue
            c = self.p.classes.get(b)
            if c is None:
                continue
            it = self.p.lookup_method(c, "__iter__") or self.p.lookup_method(c, "__getitem__")
            if it is None:
                continue
            key = ("elem", it.key)
            if key in self._busy:
                continue
            self._busy.add(key)
            try:
                for n in _own_nodes(it.node):
                    if isinstance(n, ast.Return) and n.value is not None:
                        v = n.value
                        if isinstance(v, ast.Call) and isinstance(v.func, ast.Name) and v.func.id == "iter" and v.args:
                            v = v.args[0]
                            while isinstance(v, ast.Call) and isinstance(v.func, ast.Name) and v.func.id in ("tuple", "list", "sorted", "reversed") \
                                    and len(v.args) == 1:
                                v = v.args[0]  # a snapshot of the collection has the collection's elements
                            if isinstance(v, ast.Call) and isinstance(v.func, ast.Attribute) and v.func.attr == "values":
                                v = v.func.value
                            out |= self.elem_type(self.typeof(v, it, (), depth + 1), depth + 1)
                        elif isinstance(v, ast.GeneratorExp):
                            out |= self.elem_type(self.typeof(v.generators[0].iter, it, (), depth + 1), depth + 1)
                        elif isinstance(v, ast.Subscript):
                            out |= self.elem_type(self.typeof(v.value, it, (), depth + 1), depth + 1)
            finally:
                self._busy.discard(key)
        return out

    def _typeof_name(self, name: str, fn: Optional[FuncInfo], events, depth) -> Set[str]:
        if name.startswith("$"):
            if name.startswith("$c") and name[2:].isdigit():
                i = int(name[2:])
                if i < len(events) and events[i].kind == "call":
                    return self._typeof_call(events[i].term, events[i].fn, events, depth + 1)
                return set()
            if name.startswith("$p") and name[2:].isdigit():
                i = int(name[2:])
                if i < len(events) and events[i].kind == "prop":
                    return self.ret_type(events[i].x["callee"], depth + 1)
                return set()
            if name.startswith("$l") and name[2:].isdigit():
                i = int(name[2:])
                if i < len(events) and events[i].kind == "alloc":
                    return self.typeof(events[i].term, events[i].fn, events, depth + 1)
                return set()
            if name.startswith("$new:"):
                return {name[5:].split("@")[0]}
            if name.startswith("$type:"):
                return {"type:" + name[6:]}
            return set()
        f = fn
        while f is not None:
            if name == "self" and f.cls is not None and (f.params[:1] == ["self"] or f.parent is not None):
                if f.params[:1] == ["self"] or f.parent is not None:
                    return {f.cls.name}
            if name == "cls" and f.cls is not None and f.params[:1] == ["cls"]:
                return {"type:" + f.cls.name}
            a = f.node.args
            for arg in a.posonlyargs + a.args + a.kwonlyargs:
                if arg.arg == name:
                    if arg.annotation is not None:
                        return self.annot_types(arg.annotation, f.module)
                    return set()
            # flow-insensitive local assignments
            key = ("local", f.key, name)
            if key not in self._busy:
                self._busy.add(key)
                try:
                    out: Set[str] = set()
                    found = False
                    for n in ast.walk(f.node):
                        if isinstance(n, ast.Assign):
                            for tg in n.targets:
                                if isinstance(tg, ast.Name) and tg.id == name:
                                    found = True
                                    out |= self.typeof(n.value, f, events, depth + 1)
                        elif isinstance(n, ast.AnnAssign) and isinstance(n.target, ast.Name) and n.target.id == name:
                            found = True
                            out |= self.annot_types(n.annotation, f.module)
                        elif isinstance(n, ast.NamedExpr) and isinstance(n.target, ast.Name) and n.target.id == name:
                            found = True
                            out |= self.typeof(n.value, f, events, depth + 1)
                        elif isinstance(n, (ast.For, ast.AsyncFor)) and isinstance(n.target, ast.Name) and n.target.id == name:
                            found = True
                            out |= self.iter_elem_types(n.iter, f, events, depth + 1)
                        elif isinstance(n, ast.comprehension) and isinstance(n.target, ast.Name) and n.target.id == name:
                            found = True
                            out |= self.iter_elem_types(n.iter, f, events, depth + 1)
                    if found:
                        return out
                finally:
                    self._busy.discard(key)
            f = f.parent
        if fn is not None:
            g = self.lookup_global(name, fn.module)
            if g:
                if g[0] == "class":
                    return {"type:" + g[1].name}
                if g[0] == "value":
                    owner = FuncInfo(g[2], "<module>", g[2].tree, None, None)
                    key = ("glob", g[2].rel, name)
                    if key in self._busy:
                        return set()
                    self._busy.add(key)
                    try:
                        return self._typeof_module_value(g[1], g[2], depth)
                    finally:
                        self._busy.discard(key)
        return set()

    def _typeof_module_value(self, value, mod: ModuleInfo, depth) -> Set[str]:
        if isinstance(value, ast.Call):
            f = value.func
            nm = f.id if isinstance(f, ast.Name) else (f.attr if isinstance(f, ast.Attribute) else None)
            if nm in STD_CTORS and STD_CTORS[nm]:
                g = self.lookup_global(nm, mod) if isinstance(f, ast.Name) else None
                if g is None or g[0] in ("ext", "builtin"):
                    return {STD_CTORS[nm]}
            if nm in self.p.classes:
                return {nm}
        if isinstance(value, ast.Dict):
            return {"<dict>"}
        if isinstance(value, ast.Set):
            return {"<set>"}
        if isinstance(value, ast.List):
            return {"<list>"}
        return set()

    def _typeof_call(self, t: ast.Call, fn: Optional[FuncInfo], events, depth) -> Set[str]:
        f = t.func
        if isinstance(f, ast.Name):
            nm = f.id
            if nm == "proxy" and t.args:
                return self.typeof(t.args[0], fn, events, depth + 1)
            if nm == "ref" and t.args:
                return {"ref:" + x for x in self.typeof(t.args[0], fn, events, depth + 1)}
            if nm == "cls" and fn is not None and fn.cls is not None:
                return {fn.cls.name}
            if nm.startswith("$"):
                inner = self._typeof_name(nm, fn, events, depth + 1)
                return {x[4:] for x in inner if x.startswith("ref:")} | {x[5:] for x in inner if x.startswith("type:")}
            g = self.lookup_global(nm, fn.module) if fn is not None else None
            if g is None:
                return set()
            if g[0] == "class":
                return {g[1].name}
            if g[0] == "func":
                return self.ret_type(g[1], depth + 1)
            if g[0] in ("ext", "builtin"):
                tag = STD_CTORS.get(nm)
                if nm in ("tuple", "list", "set", "frozenset", "sorted", "reversed", "deque", "iter") and len(t.args) == 1 and depth < 10:
                    # a copy / snapshot / iterator of a typed collection keeps its element type: <list:Elem>
                    base = (tag or "<list>")[1:-1]
                    elems = self.iter_elem_types(t.args[0], fn, events, depth + 1)
                    if elems:
                        return {f"<{base}:{e}>" for e in elems}
                return {tag} if tag else set()
            return set()
        if isinstance(f, ast.Attribute):
            if isinstance(f.value, ast.Call) and isinstance(f.value.func, ast.Name) and f.value.func.id == "super":
                m = self._super_method(fn, f.attr)
                return self.ret_type(m, depth + 1) if m else set()
            base = self.typeof(f.value, fn, events, depth + 1)
            out: Set[str] = set()
            for b in base:
                if b.startswith("type:"):
                    c = self.p.classes.get(b[5:])
                    m = self.p.lookup_method(c, f.attr) if c else None
                    if m is not None:
                        out |= self.ret_type(m, depth + 1)
                    continue
                c = self.p.classes.get(b)
                if c is not None:
                    m = self.p.lookup_method(c, f.attr)
                    if m is not None and not m.is_property:
                        out |= self.ret_type(m, depth + 1)
                    elif m is None:
                        # attribute holding something callable: ref() objects, classes
                        at = self.attr_type(b, f.attr, depth + 1)
                        out |= {x[4:] for x in at if x.startswith("ref:")}
                        out |= {x[5:] for x in at if x.startswith("type:")}
                if b.startswith("<dict") and f.attr == "copy":
                    out.add(b)
                if b.startswith("<dict:") and f.attr in ("get", "pop", "setdefault"):
                    out.add(b[1:-1].split(":", 1)[1])
                if b.startswith("<") and ":" in b and f.attr in ("values",):
                    out.add("<list:" + b[1:-1].split(":", 1)[1] + ">")
                if b.startswith(("<deque:", "<list:")) and f.attr in ("pop", "popleft"):
                    out.add(b[1:-1].split(":", 1)[1])
            if not base:
                # module attribute call e.g. threading.local(), asyncio.gather()
                nm = f.attr
                if isinstance(f.value, ast.Name) and fn is not None:
                    g = self.lookup_global(f.value.id, fn.module)
                    if g and g[0] == "ext" and STD_CTORS.get(nm):
                        return {STD_CTORS[nm]}
                    if g and g[0] == "module":
                        r = self.lookup_global(nm, g[1])
                        if r and r[0] == "func":
                            return self.ret_type(r[1], depth + 1)
                        if r and r[0] == "class":
                            return {r[1].name}
            return out
        return set()

    def _super_method(self, fn: Optional[FuncInfo], name: str) -> Optional[FuncInfo]:
        f = fn
        while f is not None and f.cls is None:
            f = f.parent
        if f is None or f.cls is None:
            return None
        mro = self.p.mro(f.cls)
        for c in mro[1:]:
            m = c.method(name)
            if m is not None:
                return m
        return None

    def ret_type(self, fn: FuncInfo, depth=0) -> Set[str]:
        if fn.key in self._ret_cache:
            return self._ret_cache[fn.key]
        key = ("ret", fn.key)
        if key in self._busy or depth > 12:
            return set()
        self._busy.add(key)
        try:
            out: Set[str] = set()
            node = fn.node
            if getattr(node, "returns", None) is not None:
                out = self.annot_types(node.returns, fn.module)
            if not out:
                for n in _own_nodes(node):
                    if isinstance(n, ast.Return) and n.value is not None:
                        out |= self.typeof(n.value, fn, (), depth + 1)
            self._ret_cache[fn.key] = out
            return out
        finally:
            self._busy.discard(key)

    def attr_type(self, tag: str, attr: str, depth=0) -> Set[str]:
        if tag.startswith("type:"):
            cname = tag[5:]
        else:
            cname = tag
        c = self.p.classes.get(cname)
        if c is None:
            return set()
        key = (cname, attr)
        if key in self._attr_cache:
            return self._attr_cache[key]
        if key in self._busy or depth > 12:
            return set()
        self._busy.add(key)
        try:
            out: Set[str] = set()
            classes = self.p.mro(c)
            for k in classes:
                if attr in k.class_annots:
                    out |= self.annot_types(k.class_annots[attr], k.module)
                m = k.method(attr)
                if m is not None and m.is_property:
                    out |= self.ret_type(m, depth + 1)
                    break
                if attr in k.class_assigns and not out:
                    v = k.class_assigns[attr]
                    out |= self.typeof(v, FuncInfo(k.module, f"{k.name}.<body>", k.node, k, None), (), depth + 1)
            if not out or True:
                # instance assignments `self.attr = value` in any method of the class chain and,
                # for classes built by a metaclass of the package, `cls.attr = value` in the metaclass
                metas = []
                for k in classes:
                    for kw in getattr(k.node, "keywords", []) or []:
                        if kw.arg == "metaclass":
                            mname = ast.unparse(kw.value).split(".")[-1]
                            if mname in self.p.classes:
                                metas.extend(self.p.mro(self.p.classes[mname]))
                for k in classes + self.p.subclasses(c) + metas:
                    for ms in k.methods.values():
                        for m in ms:
                            recv = m.params[0] if m.params else None
                            if recv is None:
                                continue
                            for n in _own_nodes(m.node):
                                tgt, val, ann = None, None, None
                                if isinstance(n, ast.Assign):
                                    for t in n.targets:
                                        if _is_self_attr(t, recv, attr):
                                            tgt, val = t, n.value
                                elif isinstance(n, ast.AnnAssign) and _is_self_attr(n.target, recv, attr):
                                    tgt, val, ann = n.target, n.value, n.annotation
                                if tgt is None:
                                    continue
                                got = self.annot_types(ann, m.module) if ann is not None else set()
                                if not got and val is not None:
                                    got = self.typeof(val, m, (), depth + 1)
                                out |= got
            self._attr_cache[key] = out
            return out
        finally:
            self._busy.discard(key)

    def constant_tuple(self, name: str, fn: FuncInfo):
        """Module-level `NAME = (<constants>, ...)` (immutable, hence a true constant) -> its literal."""
        f = fn
        while f is not None:
            a = f.node.args if not isinstance(f.node, ast.Lambda) else None
            if a is not None and name in [x.arg for x in a.posonlyargs + a.args + a.kwonlyargs]:
                return None
            f = f.parent
        g = self.lookup_global(name, fn.module)
        if not (g and g[0] == "value"):
            return None
        v, mod = g[1], g[2]
        # never rebound: no `global NAME` anywhere in the defining module
        key = (mod.rel, name)
        if key not in self._rebound:
            self._rebound[key] = any(isinstance(n, ast.Global) and name in n.names for f in mod.all_functions for n in ast.walk(f.node))
        if self._rebound[key]:
            return None

        def const(e, depth=0):
            if isinstance(e, ast.Constant):
                return True
            if isinstance(e, ast.Tuple) and depth < 3:
                return all(const(x, depth + 1) or isinstance(x, ast.Name) or (isinstance(x, ast.Attribute) and isinstance(x.value, ast.Name))
                           for x in e.elts)
            return False

        if isinstance(v, ast.Tuple) and const(v):
            if all(isinstance(e, ast.Constant) for e in v.elts) or mod is fn.module:
                return v  # (tuples naming functions/classes are only meaningful inside their own module)
            return None
        if isinstance(v, ast.Constant) and isinstance(v.value, (str, int, float, bytes, bool, type(None))):
            return v
        return None

    def property_getter(self, t: ast.Attribute, st) -> Optional[FuncInfo]:
        """The getter when `t` (a substituted Attribute term) reads a property of a package class."""
        if not any(t.attr in c.methods for c in self.p.classes.values()):
            return None
        for b in self.typeof(t.value, st.fn, st.events):
            c = self.p.classes.get(b)
            if c is None:
                continue
            m = self.p.lookup_method(c, t.attr)
            if m is not None and m.is_property:
                return m
            for sc in self.p.subclasses(c):
                o = sc.method(t.attr)
                if o is not None and o.is_property:
                    return o
        return None

    # ------------------------------------------------------------------ calls
    def resolve_call(self, term: ast.Call, st) -> Resolution:
        fn = st.fn
        events = st.events
        r = self._resolve(term, fn, events)
        self.stats[r.how] = self.stats.get(r.how, 0) + 1
        return r

    def resolve_in(self, call: ast.Call, fn: FuncInfo) -> Resolution:
        """Flow-insensitive resolution of a raw call node inside `fn` (for the call graph)."""
        return self._resolve(call, fn, ())

    def _ctor_targets(self, c: ClassInfo) -> List[FuncInfo]:
        out = []
        for nm in ("__new__", "__init__", "__post_init__"):
            m = self.p.lookup_method(c, nm)
            if m is not None:
                out.append(m)
        return out

    def _resolve(self, term: ast.Call, fn: FuncInfo, events) -> Resolution:
        f = term.func
        if isinstance(f, ast.Name):
            nm = f.id
            if nm.startswith("$def:"):
                q = nm[5:]
                t = fn.module.functions.get(q)
                if t is None:
                    for m in self.p.modules.values():
                        if q in m.functions:
                            t = m.functions[q]
                            break
                return Resolution("typed", [t]) if t else Resolution("unknown", tags=[nm])
            if nm.startswith("$"):
                ty = self._typeof_name(nm, fn, events, 0)
                if any(x.startswith("ref:") for x in ty):
                    return Resolution("stdlib", tags=["ref.__call__"])
                return Resolution("slot", tags=[f"value:{nm}"])
            # parameter / local of an enclosing function => a callable value
            ff = fn
            while ff is not None:
                a = ff.node.args
                allp = [x.arg for x in a.posonlyargs + a.args + a.kwonlyargs]
                if nm in allp:
                    if nm == "cls" and ff.cls is not None:
                        return Resolution("typed", self._ctor_targets(ff.cls), tags=[f"ctor:{ff.cls.name}"])
                    return Resolution("slot", tags=[f"param:{ff.qualname}.{nm}"])
                if any(isinstance(n, (ast.FunctionDef, ast.AsyncFunctionDef)) and n.name == nm
                       for n in _own_nodes(ff.node)):
                    q = f"{ff.qualname}.{nm}"
                    t = ff.module.functions.get(q)
                    if t is not None:
                        return Resolution("typed", [t])
                if _assigned_locally(ff.node, nm):
                    tys = self._typeof_name(nm, ff, events, 0)
                    calls = [self.p.lookup_method(self.p.classes[t], "__call__") for t in tys if t in self.p.classes]
                    calls = [c for c in calls if c is not None]
                    if calls:
                        return Resolution("typed", calls)
                    return Resolution("slot", tags=[f"local:{ff.qualname}.{nm}"])
                ff = ff.parent
            g = self.lookup_global(nm, fn.module)
            if g is None:
                return Resolution("unknown", tags=[nm])
            if g[0] == "class":
                return Resolution("typed", self._ctor_targets(g[1]), tags=[f"ctor:{g[1].name}"])
            if g[0] == "func":
                return Resolution("typed", [g[1]])
            if g[0] == "builtin":
                return Resolution("builtin", tags=[nm])
            if g[0] == "ext":
                return Resolution("stdlib", tags=[f"{g[1]}.{g[2]}"])
            if g[0] == "value":
                return Resolution("slot", tags=[f"global:{nm}"])
            return Resolution("unknown", tags=[nm])
        if isinstance(f, ast.Attribute):
            m = f.attr
            if isinstance(f.value, ast.Call) and isinstance(f.value.func, ast.Name) and f.value.func.id == "super":
                t = self._super_method(fn, m)
                if t is not None:
                    return Resolution("typed", [t])
                return Resolution("builtin", tags=[f"super.{m}"])
            base = self.typeof(f.value, fn, events)
            targets: List[FuncInfo] = []
            tags: List[str] = []
            for b in sorted(base):
                if b.startswith("<"):
                    tags.append(f"{b[1:-1].split(':')[0]}.{m}")
                    continue
                if b.startswith("ref:"):
                    tags.append(f"ref.{m}")
                    continue
                cname = b[5:] if b.startswith("type:") else b
                c = self.p.classes.get(cname)
                if c is None:
                    continue
                t = self.p.lookup_method(c, m)
                if t is not None:
                    if t not in targets:
                        targets.append(t)
                    for sc in self.p.subclasses(c):
                        o = sc.method(m)
                        if o is not None and o not in targets:
                            targets.append(o)
                else:
                    found = False
                    for sc in self.p.subclasses(c):
                        o = sc.method(m)
                        if o is not None and o not in targets:
                            targets.append(o)
                            found = True
                    if not found:
                        at = self.attr_type(b, m)
                        if any(x.startswith("type:") for x in at):
                            for x in at:
                                if x.startswith("type:") and x[5:] in self.p.classes:
                                    targets.extend(self._ctor_targets(self.p.classes[x[5:]]))
                        elif any(x.startswith("ref:") for x in at):
                            tags.append("ref.__call__")
                        else:
                            tags.append(f"attr:{cname}.{m}")
            if targets and not tags:
                return Resolution("typed", targets)
            if targets or tags:
                if all(t.startswith("attr:") for t in tags) and not targets:
                    return Resolution("slot", tags=tags)
                if not targets and all(not t.startswith("attr:") for t in tags):
                    return Resolution("stdlib", tags=tags)
                return Resolution("typed" if targets else "slot", targets, tags)
            # module-qualified call
            if isinstance(f.value, ast.Name):
                g = self.lookup_global(f.value.id, fn.module) if not f.value.id.startswith("$") else None
                if g and g[0] == "ext":
                    return Resolution("stdlib", tags=[f"{g[1] if g[2] is None else g[1] + '.' + g[2]}.{m}"])
                if g and g[0] == "module":
                    r = self.lookup_global(m, g[1])
                    if r and r[0] == "func":
                        return Resolution("typed", [r[1]])
                    if r and r[0] == "class":
                        return Resolution("typed", self._ctor_targets(r[1]), tags=[f"ctor:{r[1].name}"])
            # unknown receiver: class-hierarchy-by-name over-approximation - except for the method names of the builtin
            # containers, where an untyped receiver is overwhelmingly a list/dict/set built locally (`d.setdefault(k, []).append(x)`)
            cands = [mm for c in self.p.classes.values() for mm in c.methods.get(m, []) if not mm.is_setter]
            if cands and m in _CONTAINER_METHODS and self._looks_local_container(f.value, fn, events):
                return Resolution("stdlib", tags=[f"container.{m}"])
            if cands:
                return Resolution("by_name", cands)
            return Resolution("unknown", tags=[f"?.{m}"])
        if isinstance(f, ast.Call):
            return Resolution("slot", tags=["call-result"])
        return Resolution("unknown", tags=[type(f).__name__])

    # ------------------------------------------------------------------ call graph
    def call_sites(self, fn: FuncInfo):
        """All raw call nodes lexically inside fn (excluding nested defs), with resolution."""
        out = []
        for n in _own_nodes(fn.node):
            if isinstance(n, ast.Call):
                out.append((n, self.resolve_in(n, fn)))
        return out

    def callers_of(self, pred) -> List[tuple]:
        """[(caller FuncInfo, call node, Resolution)] for every call whose resolution has a
        target satisfying pred."""
        out = []
        for fn in self.p.all_functions():
            for n, r in self.call_sites(fn):
                if any(pred(t) for t in r.targets):
                    out.append((fn, n, r))
        return out

    def property_reads(self, fn: FuncInfo):
        """Attribute loads inside fn that resolve to a property of a package class."""
        out = []
        for n in _own_nodes(fn.node):
            if isinstance(n, ast.Attribute) and isinstance(n.ctx, ast.Load):
                for b in self.typeof(n.value, fn, ()):
                    c = self.p.classes.get(b)
                    if c is None:
                        continue
                    m = self.p.lookup_method(c, n.attr)
                    if m is not None and m.is_property:
                        out.append((n, m))
        return out


def _own_nodes(fnode: ast.AST):
    """Nodes of a function body excluding nested function/class bodies (lambdas included)."""
    stack = list(ast.iter_child_nodes(fnode))
    while stack:
        n = stack.pop()
        yield n
        if isinstance(n, (ast.FunctionDef, ast.AsyncFunctionDef, ast.ClassDef)):
            continue
        stack.extend(ast.iter_child_nodes(n))


def own_nodes(fnode):
    return _own_nodes(fnode)


def _is_self_attr(t, recv: str, attr: str) -> bool:
    return (isinstance(t, ast.Attribute) and t.attr == attr and isinstance(t.value, ast.Name)
            and t.value.id == recv)


def _assigned_locally(fnode, name: str) -> bool:
    for n in _own_nodes(fnode):
        if isinstance(n, ast.Name) and isinstance(n.ctx, ast.Store) and n.id == name:
            return True
    return False
