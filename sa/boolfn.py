"""Abstract evaluation of small predicates over named atoms (finite truth tables).

A predicate such as `not s.final and not s.transitions` is a boolean function of the atoms
FINAL and HAS_TRANSITIONS.  Instead of matching its text, the expression is interpreted over every
valuation of its atoms (and over a small length domain for `len(x) <op> n`) and the resulting truth
table is compared with the specified one.  Any syntactic rewrite that is equal as a boolean
function gives the same table; sub-expressions that are not atoms make the predicate
*unrecognised* (reported as such, never as a pass or a violation).
"""

from __future__ import annotations

import ast
import itertools
import operator
from typing import Callable, Dict, List, Optional, Tuple

OPS = {ast.Eq: operator.eq, ast.NotEq: operator.ne, ast.Lt: operator.lt, ast.LtE: operator.le,
       ast.Gt: operator.gt, ast.GtE: operator.ge}


class Unrecognised(Exception):
    pass


def evaluate(expr: ast.AST, atom_of: Callable[[ast.AST], Optional[str]], val: Dict[str, object]):
    """Value of expr under `val` (atom name -> bool or int for length atoms)."""
    a = atom_of(expr)
    if a is not None:
        v = val[a]
        return v
    if isinstance(expr, ast.Constant):
        return expr.value
    if isinstance(expr, ast.UnaryOp) and isinstance(expr.op, ast.Not):
        return not evaluate(expr.operand, atom_of, val)
    if isinstance(expr, ast.BoolOp):
        vals = [evaluate(v, atom_of, val) for v in expr.values]
        if isinstance(expr.op, ast.And):
            r = True
            for v in vals:
                r = v
                if not v:
                    break
            return r
        r = False
        for v in vals:
            r = v
            if v:
                break
        return r
    if isinstance(expr, ast.Compare) and len(expr.ops) == 1 and type(expr.ops[0]) in OPS:
        l = evaluate(expr.left, atom_of, val)
        r = evaluate(expr.comparators[0], atom_of, val)
        return OPS[type(expr.ops[0])](l, r)
    if isinstance(expr, ast.Compare) and len(expr.ops) == 1 and isinstance(expr.ops[0], (ast.Is, ast.IsNot)):
        l = evaluate(expr.left, atom_of, val)
        r = evaluate(expr.comparators[0], atom_of, val)
        same = l is r or (l in (True, False, None) and r in (True, False, None) and l == r and type(l) is type(r))
        return same if isinstance(expr.ops[0], ast.Is) else not same
    if isinstance(expr, ast.Call) and isinstance(expr.func, ast.Name) and expr.func.id == "bool" and len(expr.args) == 1:
        return bool(evaluate(expr.args[0], atom_of, val))
    if isinstance(expr, ast.Call) and isinstance(expr.func, ast.Name) and expr.func.id == "len" and len(expr.args) == 1:
        inner = atom_of(expr.args[0])
        if inner is not None and isinstance(val[inner], int) and not isinstance(val[inner], bool):
            return val[inner]
        if inner is not None:
            # truthiness atom used under len(): 0 or 1+ elements
            return 1 if val[inner] else 0
        raise Unrecognised(ast.unparse(expr))
    if isinstance(expr, ast.IfExp):
        return evaluate(expr.body if evaluate(expr.test, atom_of, val) else expr.orelse, atom_of, val)
    raise Unrecognised(ast.unparse(expr))


def table(expr: ast.AST, atom_of, domains: Dict[str, List[object]]) -> Dict[Tuple, bool]:
    names = sorted(domains)
    out = {}
    for combo in itertools.product(*[domains[n] for n in names]):
        val = dict(zip(names, combo))
        out[combo] = bool(evaluate(expr, atom_of, val))
    return out


def spec_table(fn: Callable[..., bool], domains: Dict[str, List[object]]) -> Dict[Tuple, bool]:
    names = sorted(domains)
    out = {}
    for combo in itertools.product(*[domains[n] for n in names]):
        out[combo] = bool(fn(**dict(zip(names, combo))))
    return out


def conj(exprs: List[ast.AST]) -> ast.AST:
    if not exprs:
        return ast.Constant(value=True)
    if len(exprs) == 1:
        return exprs[0]
    return ast.BoolOp(op=ast.And(), values=list(exprs))
