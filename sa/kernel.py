"""Anchors of the event-processing kernel, discovered by role from the source, and helpers that
classify path events (group calls, state write, view updates, queue/lock operations)."""

from __future__ import annotations

import ast
from dataclasses import dataclass
from typing import Dict, List, Optional, Tuple

from .loader import AnalysisError, ClassInfo, FuncInfo, Program
from .paths import Enumerator, Ev, Path, N, show, attr_chain
from .resolve import Resolver, own_nodes

REGISTRY_MODES = {
    "call": ("collect", False),
    "async_call": ("collect", True),
    "all": ("guard", False),
    "async_all": ("guard", True),
}


def expand(t: ast.AST, events) -> ast.AST:
    """Replace call/property placeholders by the term that produced them (for derives-from
    queries).  `$c12` -> the call term, `$p7` -> the attribute term."""

    class X(ast.NodeTransformer):
        def __init__(self):
            self.depth = 0

        def visit_Name(self, n):
            nm = n.id
            if len(nm) > 2 and nm[0] == "$" and nm[1] in "cpl" and nm[2:].isdigit():
                i = int(nm[2:])
                if i < len(events) and events[i].kind in ("call", "prop", "alloc") and self.depth < 8:
                    self.depth += 1
                    try:
                        return self.visit(_copy(events[i].term))
                    finally:
                        self.depth -= 1
            if len(nm) > 2 and nm[:2] == "$w" and nm[2:].isdigit():
                i = int(nm[2:])
                if i < len(events) and events[i].kind == "await" and self.depth < 8:
                    self.depth += 1
                    try:
                        return ast.Await(value=self.visit(_copy(events[i].term)))
                    finally:
                        self.depth -= 1
            return n

    return X().visit(_copy(t))


def _copy(t):
    import copy

    return copy.deepcopy(t)


def expand1(t: ast.AST, events) -> ast.AST:
    """Expand call/property placeholders one level only (their arguments stay placeholders)."""

    class X(ast.NodeTransformer):
        def visit_Name(self, n):
            nm = n.id
            if len(nm) > 2 and nm[0] == "$" and nm[1] in "cp" and nm[2:].isdigit():
                i = int(nm[2:])
                if i < len(events) and events[i].kind in ("call", "prop"):
                    return _copy(events[i].term)
            return n

    return X().visit(_copy(t))


def placeholder_closure(t: ast.AST, events) -> set:
    """All placeholders the term depends on, transitively through call arguments / receivers."""
    seen = set()
    todo = [t]
    while todo:
        cur = todo.pop()
        for n in ast.walk(cur):
            if isinstance(n, ast.Name) and n.id.startswith("$") and n.id not in seen:
                seen.add(n.id)
                nm = n.id
                if len(nm) > 2 and nm[1] in "cpw" and nm[2:].isdigit():
                    i = int(nm[2:])
                    if i < len(events) and events[i].term is not None:
                        todo.append(events[i].term)
    return seen


def result_of(call_ev: Ev, path) -> ast.AST:
    """Term standing for the value of a call event: the callee's returned term when the call
    was inlined, its `$cN` placeholder otherwise."""
    evs = path.events
    if call_ev.idx + 1 < len(evs) and evs[call_ev.idx + 1].kind == "enter":
        depth = evs[call_ev.idx + 1].depth
        for e in evs[call_ev.idx + 2:]:
            if e.kind == "leave" and e.depth == depth:
                return e.term if e.term is not None else ast.Constant(value=None)
    return N(f"$c{call_ev.idx}")


def xshow(t, events) -> str:
    return show(expand(t, events))


@dataclass
class GroupCall:
    ev: Ev
    group: str  # VALIDATOR, COND, BEFORE, EXIT, ON, ENTER, AFTER or '?'
    owner: str  # expanded owner term text, e.g. 'transition', 'transition.source'
    grouper: str  # attribute name: validators, cond, before, exit, on, enter, after
    mode: str  # collect | guard
    is_async: bool
    awaited: bool
    method: str

    def sym(self) -> str:
        return f"{self.group}({self.owner})"


class Kernel:
    """Role-based anchors.  Anything missing is an AnalysisError (exit 2), never a pass."""

    def __init__(self, program: Program, resolver: Resolver):
        self.p = program
        self.r = resolver
        self.base = program.cls("BaseEngine")
        self.engines: List[ClassInfo] = [c for c in program.subclasses(self.base)]
        if len(self.engines) < 2:
            raise AnalysisError(f"anchor lost: expected >= 2 engines derived from BaseEngine, found {len(self.engines)}")
        self.lock_attr, self.lock_ctor = self._attr_assigned_from(("Lock", "RLock", "Semaphore", "BoundedSemaphore", "Condition"))
        try:
            self.queue_attr, self.queue_ctor = self._attr_assigned_from(("deque", "list", "Queue", "SimpleQueue", "LifoQueue"))
        except AnalysisError:
            # not one of the known containers: the queue is whatever put() adds its argument to (its constructor's name is
            # kept, so the rules about the queue itself can say what they do not recognise; other properties are unaffected)
            self.queue_attr, self.queue_ctor = self._queue_from_put()
        self.sentinel_attr, _ = self._attr_assigned_from(("object",))
        self.initial_transition_name = self._find_initial_transition()
        self.registry = program.cls("CallbacksRegistry")
        self.executor = program.cls("CallbacksExecutor")
        self.wrapper = program.cls("CallbackWrapper")
        self.sm = program.cls("StateMachine")
        self.groupers = self._read_groupers()

    # ------------------------------------------------------------------ discovery
    def _find_initial_transition(self) -> str:
        """Name of the BaseEngine method that builds the initial pseudo-transition (`Transition(State(), <initial state>, ...)`)."""
        for ms in self.base.methods.values():
            for m in ms:
                for n in own_nodes(m.node):
                    if isinstance(n, ast.Call) and isinstance(n.func, ast.Name) and n.func.id == "Transition" and n.args \
                            and isinstance(n.args[0], ast.Call) and isinstance(n.args[0].func, ast.Name) and n.args[0].func.id == "State":
                        return m.name
        raise AnalysisError("anchor lost: the BaseEngine method that builds the initial pseudo-transition")

    def _queue_from_put(self) -> Tuple[str, str]:
        put = self.base.method("put")
        if put is None or len(put.params) < 2:
            raise AnalysisError("anchor lost: BaseEngine.put")
        attr = None
        for n in own_nodes(put.node):
            if isinstance(n, ast.Call) and isinstance(n.func, ast.Attribute) and isinstance(n.func.value, ast.Attribute) \
                    and isinstance(n.func.value.value, ast.Name) and n.func.value.value.id == "self" \
                    and any(isinstance(a, ast.Name) and a.id == put.params[1] for a in n.args):
                attr = n.func.value.attr
        if attr is None:
            raise AnalysisError("anchor lost: the queue BaseEngine.put adds the trigger to")
        init = self.base.method("__init__")
        ctor = "?"
        for n in own_nodes(init.node) if init is not None else []:
            tgt = n.targets[0] if isinstance(n, ast.Assign) and len(n.targets) == 1 else (n.target if isinstance(n, ast.AnnAssign) else None)
            val = getattr(n, "value", None)
            if isinstance(tgt, ast.Attribute) and tgt.attr == attr and isinstance(val, ast.Call):
                f = val.func
                ctor = f.id if isinstance(f, ast.Name) else (f.attr if isinstance(f, ast.Attribute) else "?")
        return attr, ctor

    def _attr_assigned_from(self, ctor_names) -> Tuple[str, str]:
        init = self.base.method("__init__")
        if init is None:
            raise AnalysisError("anchor lost: BaseEngine.__init__")
        for n in own_nodes(init.node):
            tgt, val = None, None
            if isinstance(n, ast.Assign) and len(n.targets) == 1:
                tgt, val = n.targets[0], n.value
            elif isinstance(n, ast.AnnAssign):
                tgt, val = n.target, n.value
            if tgt is None or not isinstance(val, ast.Call):
                continue
            f = val.func
            nm = f.id if isinstance(f, ast.Name) else (f.attr if isinstance(f, ast.Attribute) else None)
            if isinstance(f, ast.Name) and nm in init.module.imports:
                src, orig = init.module.imports[nm]
                if orig:
                    nm = orig  # `from threading import RLock as Lock` is an RLock
            if nm in ctor_names and isinstance(tgt, ast.Attribute) and isinstance(tgt.value, ast.Name) and tgt.value.id == "self":
                return tgt.attr, nm
        raise AnalysisError(f"anchor lost: no attribute of BaseEngine assigned from {ctor_names}")

    def _read_groupers(self) -> Dict[Tuple[str, str], str]:
        """(class, attribute) -> CallbackGroup member, read from the constructors (helpers inlined):
        `self.validators = self._specs.grouper(CallbackGroup.VALIDATOR)...`"""
        import json
        import os

        known = set(json.load(open(os.path.join(os.path.dirname(os.path.abspath(__file__)), "known_functions.json")))["functions"])
        out: Dict[Tuple[str, str], str] = {}
        for cname in ("Transition", "State"):
            c = self.p.cls(cname)
            init = c.method("__init__")
            if init is None:
                raise AnalysisError(f"anchor lost: {cname}.__init__")
            e = Enumerator(self.p, self.r, inline=lambda callee, depth, node: callee.key not in known and depth <= 5, max_depth=5,
                           exc_edges="none", unroll=1)
            for p in e.paths(init):
                if p.kind == "raise":
                    continue
                for ev in p.events:
                    if ev.kind == "store" and ev.x.get("attr") and show(ev.term.value) == "self":
                        v = expand(ev.x["value"], p.events)
                        for sub in ast.walk(v):
                            if (isinstance(sub, ast.Call) and isinstance(sub.func, ast.Attribute)
                                    and sub.func.attr == "grouper" and sub.args):
                                a = sub.args[0]
                                if isinstance(a, ast.Attribute) and isinstance(a.value, ast.Name) and a.value.id == "CallbackGroup":
                                    out.setdefault((cname, ev.x["attr"]), a.attr)
        need = {("Transition", "validators"), ("Transition", "cond"), ("Transition", "before"),
                ("Transition", "on"), ("Transition", "after"), ("State", "enter"), ("State", "exit")}
        if not need <= set(out):
            raise AnalysisError(f"anchor lost: grouper attributes {sorted(need - set(out))} not found in constructors")
        return out

    def engine_fn(self, engine: ClassInfo, name: str) -> FuncInfo:
        f = self.p.lookup_method(engine, name)
        if f is None:
            raise AnalysisError(f"anchor lost: {engine.name}.{name}")
        return f

    # ------------------------------------------------------------------ classification
    def group_call(self, ev: Ev, events) -> Optional[GroupCall]:
        if ev.kind != "call":
            return None
        res = ev.x.get("callee")
        if res is None or not res.targets:
            return None
        t = [x for x in res.targets if x.cls is self.registry and x.name in REGISTRY_MODES]
        if not t:
            return None
        method = t[0].name
        mode, is_async = REGISTRY_MODES[method]
        args = ev.term.args
        key = None
        if args and not isinstance(args[0], ast.Starred):
            key = args[0]
        else:
            for kw in ev.term.keywords:
                if kw.arg == "key":
                    key = kw.value
        group, owner, grouper = "?", "?", "?"
        if key is not None:
            k = expand(key, events)
            if isinstance(k, ast.Attribute) and k.attr == "key" and isinstance(k.value, ast.Attribute):
                grouper = k.value.attr
                owner_t = k.value.value
                owner = show(owner_t)
                types = self.r.typeof(owner_t, ev.fn, events)
                cands = {g for (c, a), g in self.groupers.items() if a == grouper and (c in types or not types)}
                if len(cands) == 1:
                    group = cands.pop()
                elif not cands:
                    cands2 = {g for (c, a), g in self.groupers.items() if a == grouper}
                    if len(cands2) == 1:
                        group = cands2.pop()
        return GroupCall(ev, group, owner, grouper, mode, is_async, bool(ev.x.get("awaited")), method)

    def is_sm_term(self, t: ast.AST, ev: Ev, events) -> bool:
        return "StateMachine" in self.r.typeof(t, ev.fn, events)

    def state_write(self, ev: Ev, events) -> Optional[ast.AST]:
        """Value term when `ev` writes the machine's current state."""
        if ev.kind == "store" and ev.x.get("attr") in ("current_state", "current_state_value"):
            if self.is_sm_term(ev.term.value, ev, events):
                return ev.x["value"]
        if ev.kind == "call" and isinstance(ev.term.func, ast.Name) and ev.term.func.id == "setattr":
            a = ev.term.args
            if len(a) == 3:
                tgt = expand(a[0], events)
                fld = expand(a[1], events)
                if isinstance(fld, ast.Attribute) and fld.attr == "state_field":
                    return a[2]
                if isinstance(tgt, ast.Attribute) and tgt.attr == "model":
                    return a[2]
        return None

    def view_update(self, ev: Ev, events) -> Optional[Tuple[str, ast.AST]]:
        if ev.kind != "store":
            return None
        if ev.x.get("attr") == "state" and "EventData" in self.r.typeof(ev.term.value, ev.fn, events):
            return ("event_data.state", ev.x["value"])
        if ev.x.get("subscript"):
            sl = ev.term.slice
            if isinstance(sl, ast.Constant) and sl.value == "state":
                base = expand(ev.term.value, events)
                if isinstance(base, ast.Attribute) and base.attr == "extended_kwargs":
                    return ("kwargs['state']", ev.x["value"])
        return None

    def self_attr_op(self, ev: Ev, attr: str) -> Optional[str]:
        """Method name when ev is `self.<attr>.<m>(...)`."""
        if ev.kind != "call":
            return None
        f = ev.term.func
        if isinstance(f, ast.Attribute) and isinstance(f.value, ast.Attribute) and f.value.attr == attr:
            if isinstance(f.value.value, ast.Name) and f.value.value.id == "self":
                return f.attr
        return None

    def is_self_attr(self, t: ast.AST, attr: str) -> bool:
        return (isinstance(t, ast.Attribute) and t.attr == attr and isinstance(t.value, ast.Name)
                and t.value.id == "self")

    def calls_method(self, ev: Ev, name: str) -> bool:
        if ev.kind != "call":
            return False
        res = ev.x.get("callee")
        return bool(res and any(t.name == name for t in res.targets))


def initial_test(term: ast.AST) -> Optional[bool]:
    """Does the branch condition `term` test for the engine's initial-activation trigger?
    -> True when the condition being true means "this is the initial trigger", False when it means the opposite,
    None when it is some other test.  Recognised: comparison of the event with the literal '__initial__' (by name), and an
    identity comparison with the trigger the engine remembers (`<trigger> is self._initial_trigger`)."""
    if not (isinstance(term, ast.Compare) and len(term.ops) == 1):
        return None
    op = term.ops[0]
    sides = [term.left, term.comparators[0]]
    by_name = any(isinstance(c, ast.Constant) and c.value == "__initial__" for c in sides)
    by_identity = any(isinstance(c, ast.Attribute) and isinstance(c.value, ast.Name) and c.value.id == "self" and "initial" in c.attr
                      for c in sides)
    if by_name and isinstance(op, (ast.Eq, ast.NotEq)):
        return isinstance(op, ast.Eq)
    if by_identity and isinstance(op, (ast.Is, ast.IsNot, ast.Eq, ast.NotEq)):
        return isinstance(op, (ast.Is, ast.Eq))
    return None


def through_self_attr(term: ast.AST, p, upto: int) -> ast.AST:
    """`self.<attr>` read on a path after `self.<attr> = v` was stored on it denotes v (last store before `upto`)."""
    if isinstance(term, ast.Attribute) and isinstance(term.value, ast.Name) and term.value.id == "self":
        last = None
        for e in p.events[:upto]:
            if e.kind == "store" and e.x.get("attr") == term.attr and show(e.term.value) == "self":
                last = e
        if last is not None:
            return last.x["value"]
    return term
