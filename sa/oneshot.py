"""One-shot iterators consumed more than once.

A generator (a generator expression, a call of a generator function of the package, `map`/`filter`/`zip`/... ; not `iter()`, whose stateful use is deliberate) can
be walked once.  Code that walks it twice - two consumers in a row, a consumer inside a loop that runs more often than the
generator is created, a membership test per element of another collection, a callee that iterates its parameter twice -
silently sees nothing the second time.  Tests with one element, one listener or one final state do not notice.

This is a syntactic multiplicity analysis per function (no paths needed):

  mult(name, body) in {0, 1, MANY}

* exhaustive consumers: `for x in v`, `x in v`, `*v`, `yield from v`, `list/set/tuple/sorted/any/all/sum/min/max/dict/frozenset/
  enumerate/zip/map/filter/chain(v)`, `.extend(v)`, `.update(v)`, `.join(v)`, a comprehension's first `for ... in v`;
* a consumer inside a loop / inside the element, condition or inner clauses of a comprehension (with `v` bound outside) = MANY;
* `if/else` branches are exclusive (max), sequences add up (1 + 1 = MANY);
* `f(v)` with `f` a function of the package resolved to one target = multiplicity of the corresponding parameter in `f`;
* `next(v)`, `return v`, storing `v` away are not exhaustive consumers here (partial consumption is an idiom of its own).

Findings are (function, node, what); the caller decides which property they concern.
"""

from __future__ import annotations

import ast
from typing import Dict, List, Optional, Tuple

MANY = 2
_CONSUMERS = {"list", "set", "tuple", "sorted", "any", "all", "sum", "min", "max", "dict", "frozenset", "enumerate", "zip", "map", "filter",
              "chain", "deque", "Counter", "OrderedDict", "reversed", "len"}
_METHOD_CONSUMERS = {"extend", "update", "join", "from_iterable", "extendleft", "union", "intersection", "difference", "issuperset", "issubset",
                     "isdisjoint", "fromkeys"}
_ONE_SHOT_BUILTINS = {"map", "filter", "zip", "reversed", "enumerate", "chain", "islice", "starmap", "takewhile", "dropwhile", "groupby"}


def _is_generator_fn(fn) -> bool:
    if isinstance(fn.node, ast.Lambda):
        return False
    stack = list(ast.iter_child_nodes(fn.node))
    while stack:
        n = stack.pop()
        if isinstance(n, (ast.Yield, ast.YieldFrom)):
            return True
        if isinstance(n, (ast.FunctionDef, ast.AsyncFunctionDef, ast.Lambda, ast.ClassDef)):
            continue
        stack.extend(ast.iter_child_nodes(n))
    return False


class OneShot:
    def __init__(self, ctx):
        self.ctx = ctx
        self._param_mult: Dict[Tuple[str, str], int] = {}
        self._busy = set()
        self._gen_fns = {f.key for f in ctx.p.all_functions() if _is_generator_fn(f)}

    # ------------------------------------------------------------------ what is one-shot
    def one_shot_expr(self, e: ast.AST, fn) -> Optional[str]:
        if isinstance(e, ast.GeneratorExp):
            return "a generator expression"
        if isinstance(e, ast.Call):
            name = e.func.attr if isinstance(e.func, ast.Attribute) else (e.func.id if isinstance(e.func, ast.Name) else None)
            if name in _ONE_SHOT_BUILTINS and isinstance(e.func, (ast.Name, ast.Attribute)):
                if isinstance(e.func, ast.Name) or ast.unparse(e.func).startswith(("itertools.", "chain.")):
                    return f"{name}(...)"
            try:
                r = self.ctx.r.resolve_in(e, fn)
            except Exception:
                return None
            if r.how == "typed" and r.targets and all(t.key in self._gen_fns for t in r.targets):
                return f"the generator {r.targets[0].qualname}(...)"
        return None

    # ------------------------------------------------------------------ multiplicity of a name in a function body
    def mult_in(self, name: str, fn, stmts: List[ast.stmt], bound_outside_loops: bool = True) -> Tuple[int, List[ast.AST]]:
        sites: List[ast.AST] = []
        m = self._stmts(name, fn, stmts, sites, in_loop=False)
        return min(m, MANY), sites

    def _stmts(self, name, fn, stmts, sites, in_loop) -> int:
        total = 0
        for st in stmts:
            total += self._stmt(name, fn, st, sites, in_loop)
            if self._rebinds(name, st):
                break  # rebound: later uses concern another value
        return min(total, MANY)

    @staticmethod
    def _rebinds(name, st) -> bool:
        if isinstance(st, ast.Assign):
            return any(isinstance(t, ast.Name) and t.id == name for t in st.targets)
        if isinstance(st, (ast.AnnAssign, ast.AugAssign)):
            return isinstance(st.target, ast.Name) and st.target.id == name
        return False

    def _stmt(self, name, fn, st, sites, in_loop) -> int:
        if isinstance(st, (ast.FunctionDef, ast.AsyncFunctionDef, ast.ClassDef)):
            return 0
        if isinstance(st, ast.If):
            return min(self._expr(name, fn, st.test, sites, in_loop) +
                       max(self._stmts(name, fn, st.body, sites, in_loop), self._stmts(name, fn, st.orelse, sites, in_loop)), MANY)
        if isinstance(st, (ast.For, ast.AsyncFor)):
            m = 0
            if isinstance(st.iter, ast.Name) and st.iter.id == name:
                sites.append(st.iter)
                m += MANY if in_loop else 1
            else:
                m += self._expr(name, fn, st.iter, sites, in_loop)
            body = self._stmts(name, fn, st.body, sites, True)
            m += MANY if body else 0
            m += self._stmts(name, fn, st.orelse, sites, in_loop)
            return min(m, MANY)
        if isinstance(st, ast.While):
            m = self._expr(name, fn, st.test, sites, True)
            body = self._stmts(name, fn, st.body, sites, True)
            m = MANY if (m or body) else 0
            return min(m + self._stmts(name, fn, st.orelse, sites, in_loop), MANY)
        if isinstance(st, ast.Try):
            m = self._stmts(name, fn, st.body, sites, in_loop)
            h = max([self._stmts(name, fn, x.body, sites, in_loop) for x in st.handlers] or [0])
            return min(m + h + self._stmts(name, fn, st.orelse, sites, in_loop) + self._stmts(name, fn, st.finalbody, sites, in_loop), MANY)
        if isinstance(st, (ast.With, ast.AsyncWith)):
            m = sum(self._expr(name, fn, i.context_expr, sites, in_loop) for i in st.items)
            return min(m + self._stmts(name, fn, st.body, sites, in_loop), MANY)
        m = 0
        for child in ast.iter_child_nodes(st):
            if isinstance(child, ast.expr):
                m += self._expr(name, fn, child, sites, in_loop)
        return min(m, MANY)

    def _is(self, e, name) -> bool:
        return isinstance(e, ast.Name) and e.id == name and isinstance(e.ctx, ast.Load)

    def _expr(self, name, fn, e, sites, in_loop) -> int:
        """Exhaustive consumptions of `name` inside expression e."""
        if e is None:
            return 0
        unit = MANY if in_loop else 1
        if isinstance(e, (ast.Lambda,)):
            return 0
        if isinstance(e, (ast.ListComp, ast.SetComp, ast.GeneratorExp, ast.DictComp)):
            m = 0
            gens = e.generators
            for gi, g in enumerate(gens):
                if self._is(g.iter, name):
                    sites.append(g.iter)
                    m += unit if gi == 0 else MANY
                else:
                    m += self._expr(name, fn, g.iter, sites, in_loop or gi > 0)
                for c in g.ifs:
                    m += self._expr(name, fn, c, sites, True)
            parts = [e.key, e.value] if isinstance(e, ast.DictComp) else [e.elt]
            for p_ in parts:
                m += self._expr(name, fn, p_, sites, True)
            return min(m, MANY)
        if isinstance(e, ast.Compare):
            m = self._expr(name, fn, e.left, sites, in_loop)
            for op, c in zip(e.ops, e.comparators):
                if isinstance(op, (ast.In, ast.NotIn)) and self._is(c, name):
                    sites.append(c)
                    m += unit
                else:
                    m += self._expr(name, fn, c, sites, in_loop)
            return min(m, MANY)
        if isinstance(e, ast.Starred) and self._is(e.value, name):
            sites.append(e.value)
            return unit
        if isinstance(e, ast.YieldFrom) and self._is(e.value, name):
            sites.append(e.value)
            return unit
        if isinstance(e, ast.Call):
            m = self._expr(name, fn, e.func, sites, in_loop) if not isinstance(e.func, ast.Name) else 0
            fname = e.func.id if isinstance(e.func, ast.Name) else (e.func.attr if isinstance(e.func, ast.Attribute) else None)
            for i, a in enumerate(e.args):
                if self._is(a, name):
                    k = self._arg_mult(e, i, None, fn, fname)
                    if k:
                        sites.append(a)
                        m += MANY if (k >= MANY or in_loop) else 1
                else:
                    m += self._expr(name, fn, a, sites, in_loop)
            for kw in e.keywords:
                if self._is(kw.value, name):
                    k = self._arg_mult(e, None, kw.arg, fn, fname)
                    if k:
                        sites.append(kw.value)
                        m += MANY if (k >= MANY or in_loop) else 1
                else:
                    m += self._expr(name, fn, kw.value, sites, in_loop)
            return min(m, MANY)
        if isinstance(e, (ast.BoolOp,)):
            return min(sum(self._expr(name, fn, v, sites, in_loop) for v in e.values), MANY)
        if isinstance(e, ast.IfExp):
            return min(self._expr(name, fn, e.test, sites, in_loop) +
                       max(self._expr(name, fn, e.body, sites, in_loop), self._expr(name, fn, e.orelse, sites, in_loop)), MANY)
        m = 0
        for child in ast.iter_child_nodes(e):
            if isinstance(child, ast.expr):
                m += self._expr(name, fn, child, sites, in_loop)
        return min(m, MANY)

    def _arg_mult(self, call: ast.Call, pos: Optional[int], kw: Optional[str], fn, fname) -> int:
        """How often the callee walks that argument: 0 (does not / unknown), 1, MANY."""
        if isinstance(call.func, ast.Name) and fname in _CONSUMERS:
            return 1
        if isinstance(call.func, ast.Attribute) and fname in _METHOD_CONSUMERS:
            return 1
        if fname in ("next", "iter", "isinstance", "id", "type", "print", "repr", "str", "bool"):
            return 0
        try:
            r = self.ctx.r.resolve_in(call, fn)
        except Exception:
            return 0
        if r.how not in ("typed", "by_name") or not r.targets or r.tags and not all(t.startswith("ctor:") for t in r.tags):
            return 0
        return max(self._arg_mult_in(callee, call, pos, kw) for callee in r.targets)

    def _arg_mult_in(self, callee, call: ast.Call, pos: Optional[int], kw: Optional[str]) -> int:
        if isinstance(callee.node, ast.Lambda):
            return 0
        a = callee.node.args
        names = [x.arg for x in a.posonlyargs + a.args]
        is_method = callee.cls is not None and callee.parent is None and "staticmethod" not in callee.decorators
        if is_method and (isinstance(call.func, ast.Attribute) or callee.name == "__init__"):
            names = names[1:]
        pname = None
        if pos is not None:
            if pos < len(names):
                pname = names[pos]
        elif kw is not None and (kw in names or kw in [x.arg for x in a.kwonlyargs]):
            pname = kw
        if pname is None:
            return 0
        return self.param_mult(callee, pname)

    def param_mult(self, callee, pname: str) -> int:
        key = (callee.key, pname)
        if key in self._param_mult:
            return self._param_mult[key]
        if key in self._busy:
            return 0
        self._busy.add(key)
        try:
            m, _ = self.mult_in(pname, callee, callee.node.body)
        finally:
            self._busy.discard(key)
        self._param_mult[key] = m
        return m

    # ------------------------------------------------------------------ findings
    def findings(self) -> List[Tuple[object, ast.AST, str]]:
        out = []
        for fn in self.ctx.p.all_functions():
            if isinstance(fn.node, ast.Lambda):
                continue
            out.extend(self._fn_findings(fn))
        return out

    def _own_stmts(self, fn):
        return fn.node.body

    def _fn_findings(self, fn):
        out = []
        # (1) locals bound to a one-shot value
        for blk, idx, st, loop_depth in _walk_blocks(fn.node.body, 0):
            if isinstance(st, ast.Assign) and len(st.targets) == 1 and isinstance(st.targets[0], ast.Name):
                what = self.one_shot_expr(st.value, fn)
                if what is None:
                    continue
                name = st.targets[0].id
                rest = blk[idx + 1:]
                sites: List[ast.AST] = []
                m = self._stmts(name, fn, rest, sites, in_loop=False)
                if m >= MANY and sites:
                    out.append((fn, sites[-1], f"`{name}` is {what}, a one-shot iterator, and is walked more than once"))
        # (2) one-shot arguments handed to a callee that walks its parameter more than once
        for nd in ast.walk(fn.node):
            if isinstance(nd, ast.Call):
                fname = nd.func.id if isinstance(nd.func, ast.Name) else (nd.func.attr if isinstance(nd.func, ast.Attribute) else None)
                for i, a in enumerate(nd.args):
                    what = self.one_shot_expr(a, fn)
                    if what and self._arg_mult(nd, i, None, fn, fname) >= MANY:
                        out.append((fn, nd, f"{what} is passed to `{ast.unparse(nd.func)}`, which walks that argument more than once"))
                for kw in nd.keywords:
                    what = self.one_shot_expr(kw.value, fn) if kw.arg else None
                    if what and self._arg_mult(nd, None, kw.arg, fn, fname) >= MANY:
                        out.append((fn, nd, f"{what} is passed as `{kw.arg}=` to `{ast.unparse(nd.func)}`, which walks that argument more than once"))
        return out


def _walk_blocks(stmts, depth):
    """(block, index, statement, loop depth) for every statement of a function body (not nested defs)."""
    for i, st in enumerate(stmts):
        yield stmts, i, st, depth
        if isinstance(st, (ast.FunctionDef, ast.AsyncFunctionDef, ast.ClassDef)):
            continue
        for fld in ("body", "orelse", "finalbody"):
            sub = getattr(st, fld, None)
            if isinstance(sub, list) and sub and isinstance(sub[0], ast.stmt):
                yield from _walk_blocks(sub, depth + (1 if isinstance(st, (ast.For, ast.AsyncFor, ast.While)) and fld == "body" else 0))
        for h in getattr(st, "handlers", []) or []:
            yield from _walk_blocks(h.body, depth)
