"""C16 - Machines are isolated from other instances, classes and definitions."""

from __future__ import annotations

import ast
from typing import Dict, List, Set, Tuple

from ..context import Ctx
from ..kernel import expand, expand1, xshow
from ..loader import AnalysisError, FuncInfo, norm_stmt
from ..paths import show
from ..resolve import own_nodes
from . import c07, c12
from .c03 import callgraph

EXPLANATION = (
    "Shared-mutable-state inventory: every module-level, closure-level and class-level mutable object of the package is "
    "listed, and the set of those that are written after import must equal a triaged table (signature memo, the class registry "
    "which is a name-lookup service by contract, the per-thread loop holder); constant tables must never be written; the memo "
    "key must be identity-bearing; per-class containers are created fresh by the metaclass and per-instance ones by the "
    "constructor; what a subclass registers must not be the base class's own mutable State object; and code reachable from "
    "instance-time entry points must not store into definition objects (State, Transition, spec lists, Events) except two "
    "triaged idempotent memo writes. Interleavings of definitions/instantiations are not executed."
)
EXPLANATION += (
    " " + 'The inventory follows module-level mutables that escape by reference into attributes or locals (written through the alias), memoising decorators whose result depends on the state of an argument object or is a mutable container, and class-level synchronisation objects.'
)
ASSUMPTIONS = ["definition objects are only reachable through the class (states, transitions, specs)"]
TRUSTED = ["/verif/sa resolver (receiver types) and call graph"]

MUTABLE_CTORS = {"dict", "list", "set", "defaultdict", "deque", "OrderedDict", "local", "Counter", "WeakValueDictionary", "WeakKeyDictionary"}
SYNC_CTORS = {"Lock", "RLock", "Condition", "Semaphore", "BoundedSemaphore", "Event", "Barrier", "Queue", "LifoQueue", "SimpleQueue"}
MUTATING_METHODS = {"append", "add", "update", "extend", "insert", "pop", "remove", "clear", "setdefault", "popitem", "discard", "appendleft", "popleft", "sort", "reverse"}

# objects that are written after import, with the reason they are acceptable
WRITTEN_OK = {
    "statemachine/signature.py::signature_cache.cache": "memo of signature adapters; isolation depends on the key (C16.cachekey)",
    "statemachine/registry.py::_REGISTRY": "class registry: a name -> class lookup service by contract (MachineMixin), written at class definition",
    "statemachine/registry.py::_initialized": "one-shot module discovery flag of the registry",
    "statemachine/utils.py::_cached_loop": "threading.local holder of the per-thread fallback event loop",
}

DEFINITION_CLASSES = {"State", "AnyState", "Transition", "TransitionList", "CallbackSpec", "CallbackSpecList", "SpecListGrouper", "Events", "States"}
DEFWRITE_OK = {
    ("Listeners.build", "names_not_found"): "records which names were not found, used only for the error message of the same instantiation",
    ("CallbackSpecList.grouper", "_groupers"): "lazily created grouper memo, idempotent (same key -> same grouper)",
}


def _is_mutable_value(v: ast.AST) -> bool:
    if isinstance(v, (ast.Dict, ast.List, ast.Set, ast.ListComp, ast.DictComp, ast.SetComp)):
        return True
    if isinstance(v, ast.Call):
        nm = v.func.id if isinstance(v.func, ast.Name) else (v.func.attr if isinstance(v.func, ast.Attribute) else None)
        return nm in MUTABLE_CTORS
    return False


def _writes_to(name: str, fnode: ast.AST) -> List[ast.AST]:
    out = []
    for n in ast.walk(fnode):
        if isinstance(n, ast.Subscript) and isinstance(n.ctx, (ast.Store, ast.Del)) and isinstance(n.value, ast.Name) and n.value.id == name:
            out.append(n)
        elif isinstance(n, ast.Attribute) and isinstance(n.ctx, (ast.Store, ast.Del)) and isinstance(n.value, ast.Name) and n.value.id == name:
            out.append(n)
        elif isinstance(n, ast.Call) and isinstance(n.func, ast.Attribute) and n.func.attr in MUTATING_METHODS and isinstance(n.func.value, ast.Name) \
                and n.func.value.id == name:
            out.append(n)
        elif isinstance(n, ast.AugAssign) and isinstance(n.target, ast.Name) and n.target.id == name:
            out.append(n)
        elif isinstance(n, ast.Global) and name in n.names:
            out.append(n)
    return out


def rule_inventory(ctx: Ctx, rule: str = "C16.inventory", writers_reachable_from=None):
    """`writers_reachable_from`: when another property shares the rule, only the objects written from code reachable from these entry
    points concern it (e.g. the restore path of a clone)."""
    rep = ctx.rep
    only_reach = None
    if writers_reachable_from is not None:
        only_reach = callgraph(ctx).reachable([f for f in writers_reachable_from if f is not None])
    written: Dict[str, List[Tuple[FuncInfo, ast.AST]]] = {}
    inventory: List[str] = []
    # module-level objects
    for mod in ctx.p.modules.values():
        for name, val in mod.assigns.items():
            mutable = _is_mutable_value(val)
            key = f"{mod.rel}::{name}"
            if not mutable and not any(isinstance(n, ast.Global) and name in n.names for f in mod.all_functions for n in ast.walk(f.node)):
                continue
            inventory.append(key)
            for fn in ctx.p.all_functions():
                local_mod = fn.module is mod
                imported = name in fn.module.imports and fn.module.imports[name][0] == mod.name
                if not (local_mod or imported):
                    continue
                # a local of the same name shadows the global unless declared global
                is_local = any(isinstance(n, ast.Name) and isinstance(n.ctx, ast.Store) and n.id == name for n in own_nodes(fn.node)) and \
                    not any(isinstance(n, ast.Global) and name in n.names for n in own_nodes(fn.node))
                if is_local or name in fn.params:
                    continue
                ws = [w for w in _writes_to(name, fn.node) if not isinstance(w, ast.Global)]
                if any(isinstance(n, ast.Global) and name in n.names for n in own_nodes(fn.node)):
                    ws += [n for n in own_nodes(fn.node) if isinstance(n, ast.Name) and isinstance(n.ctx, ast.Store) and n.id == name]
                for w in ws:
                    written.setdefault(key, []).append((fn, w))
    # module-level mutables that escape by reference (`obj.attr = NAME`, `local = NAME`) and are mutated through the alias
    for mod in ctx.p.modules.values():
        for name, val in mod.assigns.items():
            key = f"{mod.rel}::{name}"
            if key not in inventory or not _is_mutable_value(val):
                continue
            for fn in ctx.p.all_functions():
                if not (fn.module is mod or (name in fn.module.imports and fn.module.imports[name][0] == mod.name)):
                    continue
                for n in own_nodes(fn.node):
                    tgt = None
                    if isinstance(n, ast.Assign) and len(n.targets) == 1 and isinstance(n.value, ast.Name) and n.value.id == name:
                        tgt = n.targets[0]
                    elif isinstance(n, ast.AnnAssign) and isinstance(n.value, ast.Name) and n.value.id == name:
                        tgt = n.target
                    if tgt is None:
                        continue
                    if isinstance(tgt, ast.Name):
                        for w in _writes_to(tgt.id, fn.node):
                            written.setdefault(key, []).append((fn, w))
                    elif isinstance(tgt, ast.Attribute):
                        # the attribute now *is* the shared object: any mutation through that attribute name writes it
                        for f2 in ctx.p.all_functions():
                            for m in ast.walk(f2.node):
                                if isinstance(m, ast.Call) and isinstance(m.func, ast.Attribute) and m.func.attr in MUTATING_METHODS and \
                                        isinstance(m.func.value, ast.Attribute) and m.func.value.attr == tgt.attr:
                                    written.setdefault(key, []).append((f2, m))
                                if isinstance(m, ast.Subscript) and isinstance(m.ctx, (ast.Store, ast.Del)) and isinstance(m.value, ast.Attribute) \
                                        and m.value.attr == tgt.attr:
                                    written.setdefault(key, []).append((f2, m))
    # memoising decorators: the memo is a process-wide mutable keyed by the arguments
    for fn in ctx.p.all_functions():
        if isinstance(fn.node, ast.Lambda):
            continue
        for d in fn.node.decorator_list:
            dn = show(d.func) if isinstance(d, ast.Call) else show(d)
            if dn.split(".")[-1] in ("lru_cache", "cache"):
                key = f"{fn.module.rel}::{fn.qualname}@{dn.split('.')[-1]}"
                inventory.append(key)
                # a memo is harmless for a pure function of values; it is shared state when the result depends on the
                # (mutable) state of an argument object, or is itself a mutable container handed to every caller
                params = set(fn.params)
                reads = [n for n in own_nodes(fn.node) if
                         (isinstance(n, ast.Attribute) and isinstance(n.value, ast.Name) and n.value.id in params and isinstance(n.ctx, ast.Load)) or
                         (isinstance(n, ast.Call) and isinstance(n.func, ast.Name) and n.func.id in ("dir", "getattr", "vars", "hasattr", "id", "type", "iter", "len")
                          and any(isinstance(a, ast.Name) and a.id in params for a in n.args))]
                rets = [n for n in own_nodes(fn.node) if isinstance(n, ast.Return) and n.value is not None and _is_mutable_value(n.value)]
                if reads or rets:
                    written.setdefault(key, []).append((fn, (reads + rets)[0]))
    # closure-level objects (a mutable created in an outer function and captured by an inner one)
    for fn in ctx.p.all_functions():
        inner = [f for f in fn.module.all_functions if f.parent is fn]
        if not inner:
            continue
        for n in own_nodes(fn.node):
            if isinstance(n, ast.Assign) and len(n.targets) == 1 and isinstance(n.targets[0], ast.Name) and _is_mutable_value(n.value):
                name = n.targets[0].id
                users = [f for f in inner if any(isinstance(x, ast.Name) and x.id == name for x in ast.walk(f.node))]
                # also aliases such as `cache_get = cache.get` are reads; writes are what matters
                if not users:
                    continue
                key = f"{fn.module.rel}::{fn.qualname}.{name}"
                inventory.append(key)
                for f in users:
                    for w in _writes_to(name, f.node):
                        written.setdefault(key, []).append((f, w))
    # class-level mutable attributes
    for c in ctx.p.classes.values():
        for name, val in c.class_assigns.items():
            if _is_mutable_value(val):
                key = f"{c.module.rel}::{c.name}.{name}"
                inventory.append(key)
                hits = []
                for fn in ctx.p.all_functions():
                    for n in ast.walk(fn.node):
                        if isinstance(n, ast.Attribute) and n.attr == name:
                            par_call = None
                        if isinstance(n, ast.Call) and isinstance(n.func, ast.Attribute) and n.func.attr in MUTATING_METHODS and \
                                isinstance(n.func.value, ast.Attribute) and n.func.value.attr == name:
                            hits.append((fn, n))
                        if isinstance(n, ast.Subscript) and isinstance(n.ctx, (ast.Store, ast.Del)) and isinstance(n.value, ast.Attribute) and n.value.attr == name:
                            hits.append((fn, n))
                if hits:
                    # an instance attribute of the same name assigned in __init__ shadows the class attribute
                    shadowed = any(isinstance(s_, ast.Attribute) and s_.attr == name and isinstance(s_.ctx, ast.Store) for m in c.methods.get("__init__", [])
                                   for s_ in ast.walk(m.node))
                    if not shadowed:
                        written.setdefault(key, []).extend(hits)
    # class-level synchronisation / per-object sentinels: one object shared by every instance of the class
    for c in ctx.p.classes.values():
        for name, val in c.class_assigns.items():
            if isinstance(val, ast.Call):
                nm = val.func.id if isinstance(val.func, ast.Name) else (val.func.attr if isinstance(val.func, ast.Attribute) else None)
                if nm in SYNC_CTORS:
                    key = f"{c.module.rel}::{c.name}.{name}"
                    inventory.append(key)
                    shadowed = any(isinstance(s_, ast.Attribute) and s_.attr == name and isinstance(s_.ctx, ast.Store) for m in c.methods.get("__init__", [])
                                   for s_ in ast.walk(m.node))
                    users = [(fn, n) for fn in ctx.p.all_functions() for n in ast.walk(fn.node)
                             if isinstance(n, ast.Attribute) and n.attr == name and isinstance(n.ctx, ast.Load)]
                    if users and not shadowed:
                        written.setdefault(key, []).extend(users[:3])
    rep.floor(rule, "shared mutable objects inventoried", len(inventory), 6)
    rep.extra["shared_mutable_inventory"] = sorted(inventory)
    for key in sorted(inventory):
        ws = written.get(key, [])
        if not ws:
            rep.ok(rule, key, f"`{key.split('::')[1]}` is a constant table: never written after import")
        elif key in WRITTEN_OK:
            rep.ok(rule, key, f"`{key.split('::')[1]}` is written after import - triaged: {WRITTEN_OK[key]}",
                   writers=sorted({f.qualname for f, _ in ws}))
        elif only_reach is not None and not any(f_ in only_reach for f_, _ in ws):
            continue
        else:
            f, w = next(((f_, w_) for f_, w_ in ws if only_reach is None or f_ in only_reach), ws[0])
            rep.violation(rule, f.loc(w), f"process-wide mutable `{key.split('::')[1]}` is written from `{f.qualname}`: "
                          "state shared by every machine of the process", key, norm_stmt(_stmt(f, w)), writers=sorted({x.qualname for x, _ in ws}))
    for key in WRITTEN_OK:
        if key not in inventory:
            rep.count("triaged_objects_absent", 1)
    if only_reach is not None:
        return
    # the private fallback loop is per *thread*: a thread-local holder.  A context variable is copied into worker threads
    # (asyncio.to_thread, copy_context().run), a plain global is shared by all of them: two machines driven from two such
    # workers would then run their coroutines on one loop ("This event loop is already running").
    um = ctx.p.by_rel.get("statemachine/utils.py")
    holders = []
    if um is not None:
        for nm, val in um.assigns.items():
            if "loop" in nm.lower():
                holders.append((nm, val))
    rfs = ctx.p.find_fn("run_async_from_sync")
    for nm, val in holders:
        used = rfs is not None and any(isinstance(n, ast.Name) and n.id == nm for n in ast.walk(rfs.node))
        if not used:
            continue
        ctor = show(val.func) if isinstance(val, ast.Call) else show(val)
        rep.check(ctor in ("threading.local", "local"), rule, f"{um.rel} {nm}", "the holder of the private fallback event loop is "
                  "thread-local (one loop per thread, never inherited by or shared with another thread)", f"{um.rel}::{nm}", f"{nm} = {show(val)}")


def _stmt(fn: FuncInfo, node: ast.AST) -> ast.AST:
    best = node
    for st in ast.walk(fn.node):
        if isinstance(st, ast.stmt) and not isinstance(st, (ast.FunctionDef, ast.AsyncFunctionDef, ast.ClassDef, ast.If, ast.For, ast.While, ast.Try, ast.With)):
            if any(x is node for x in ast.walk(st)):
                best = st
    return best


def rule_cachekey(ctx: Ctx):
    c07.rule_cachekey(ctx, rule="C16.cachekey")


def rule_fresh(ctx: Ctx):
    rep = ctx.rep
    init = ctx.fn("StateMachineMetaclass.__init__")
    want = {"states": "States()", "states_map": "{}", "_events": "{}", "_protected_attrs": "set()", "_events_to_update": "{}"}
    got = {}
    for p in ctx.paths(init, inline=None, exc_edges="none"):
        for e in p.of("store"):
            if show(e.term.value) == init.params[0]:
                got.setdefault(e.x["attr"], xshow(e.x["value"], p.events))
        break
    for a, v in want.items():
        rep.check(got.get(a) == v, "C16.fresh", init.loc(), f"every class gets its own fresh `{a}` (not the base class's)", init.key, f"cls.{a} = {got.get(a)}")
    st = ctx.p.cls("States").method("__init__")
    # path-based: when no mapping is given (None-test), what is stored is a dict created in this call; otherwise the argument
    prm = st.params[1] if len(st.params) > 1 else "states"
    seen_fresh = seen_given = False
    bad = []
    for p in ctx.paths(st, inline=None, exc_edges="none"):
        evs = p.events
        stores = [e for e in p.of("store") if e.x.get("attr") == "_states" and show(e.term.value) == "self"]
        if not stores:
            continue
        v = stores[-1].x["value"]
        vt = xshow(v, evs)
        none_fact = None
        for b in p.of("branch"):
            t_, pol_ = b.term, b.x["taken"]
            while isinstance(t_, ast.UnaryOp) and isinstance(t_.op, ast.Not):
                t_, pol_ = t_.operand, not pol_
            if isinstance(t_, ast.Compare) and len(t_.ops) == 1 and show(t_.left) == prm and isinstance(t_.comparators[0], ast.Constant) \
                    and t_.comparators[0].value is None and isinstance(t_.ops[0], (ast.Is, ast.IsNot)):
                none_fact = pol_ if isinstance(t_.ops[0], ast.Is) else not pol_
            elif show(t_) == prm:
                bad.append("the given mapping is tested for truthiness (an empty dict given by the caller would be replaced)")
        if isinstance(v, ast.IfExp):
            ok = show(v.test) in (f"{prm} is not None", f"{prm} is None") and {show(v.body), show(v.orelse)} == {prm, "{}"}
            seen_fresh = seen_given = ok
            if not ok:
                bad.append(f"self._states = {vt}")
        elif none_fact is True:
            seen_fresh = seen_fresh or vt in ("{}", "dict()")
            if vt not in ("{}", "dict()"):
                bad.append(f"without argument: self._states = {vt}")
        elif none_fact is False:
            seen_given = seen_given or vt == prm
            if vt != prm:
                bad.append(f"with a mapping: self._states = {vt}")
        else:
            bad.append(f"self._states = {vt} without a None-test of the argument")
    rep.check(seen_fresh and seen_given and not bad, "C16.fresh", st.loc(), "States() without argument owns a fresh dict (no shared default)",
              st.key, "; ".join(sorted(set(bad))) or "fresh dict when None, the given mapping otherwise")
    for f in ctx.p.all_functions():
        a = f.node.args if not isinstance(f.node, ast.Lambda) else None
        if a is None:
            continue
        for d in list(a.defaults) + [x for x in a.kw_defaults if x is not None]:
            if _is_mutable_value(d):
                rep.violation("C16.fresh", f.loc(d), f"mutable default argument `{show(d)}` is shared by every call of {f.qualname}", f.key, show(d))
    rep.ok("C16.fresh", "package", "no function has a mutable default argument", functions=len(ctx.p.all_functions()))
    c12.rule_own(ctx, rule="C16.fresh")


COPYING = {"deepcopy", "copy", "copy.deepcopy", "copy.copy", "State", "clone", "_copy"}


def rule_inherit(ctx: Ctx):
    rep = ctx.rep
    fn = ctx.fn("StateMachineMetaclass.add_inherited")
    n = 0
    for p in ctx.paths(fn, inline=None, exc_edges="none", unroll=1):
        evs = p.events
        for e in p.calls():
            if show(e.term.func) in (f"{fn.params[0]}.add_state",) and len(e.term.args) >= 2:
                n += 1
                v = expand1(e.term.args[1], evs)
                its = [i for i in evs[: e.idx] if i.kind == "iter"]
                is_elem = any(show(e.term.args[1]) == show(i.x["elem"]) for i in its)
                copied = isinstance(v, ast.Call) and (show(v.func) in COPYING or show(v.func).split(".")[-1] in COPYING)
                if is_elem and not copied:
                    rep.violation("C16.inherit", e.loc(), "a subclass registers the base class's own State objects: transitions declared in the subclass "
                                  "are appended to the base class's states and become visible to the base class and its other subclasses",
                                  fn.key, norm_stmt(e.node), registered=xshow(e.term.args[1], evs))
                else:
                    rep.check(copied, "C16.inherit", e.loc(), "inherited states are copies owned by the subclass", fn.key, norm_stmt(e.node))
        for e in p.calls():
            if show(e.term.func) == f"{fn.params[0]}.add_event":
                v = expand(e.term.keywords[0].value if e.term.keywords else e.term.args[0], evs)
                rep.check(isinstance(v, ast.Call) and show(v.func) == "Event", "C16.inherit", e.loc(), "inherited events are re-created for the subclass", fn.key,
                          norm_stmt(e.node))
    rep.floor("C16.inherit", "state registrations in add_inherited", n, 1)


def rule_defwrite(ctx: Ctx, rule: str = "C16.defwrite", only: "Optional[Set[str]]" = None):
    """`only`: restrict the first part (writes on definition objects) to these definition classes and skip the class-attribute part
    (used when another property shares the rule for the definition objects it depends on)."""
    rep = ctx.rep
    g = callgraph(ctx)
    roots = [ctx.fn(k) for k in ("StateMachine.__init__", "StateMachine.__setstate__", "StateMachine.send", "Event.__call__", "StateMachine.add_listener",
                                 "StateMachine.activate_initial_state", "StateMachine.bind_events_to", "StateMachine.__getstate__")]
    for nm in ("current_state", "current_state_value", "allowed_events", "events", "_graph", "_repr_svg_", "_repr_html_"):
        f = ctx.p.find_fn(f"StateMachine.{nm}")
        if f is not None:
            roots.append(f)
    # rendering a diagram (of an instance or of the class) must not touch the definitions either
    for c_ in ctx.p.classes.values():
        if c_.module.rel.endswith("contrib/diagram.py"):
            roots.extend(m for ms in c_.methods.values() for m in ms)
    # special methods introduced after the analysed baseline are called implicitly (dir(), len(), ==, iteration, copy ...): the call graph
    # has no edge for that, so each one is an entry point of its own when its class is used at instance time
    for f in ctx.p.all_functions():
        if f.cls is not None and f.parent is None and f.name.startswith("__") and f.name.endswith("__") and ctx.is_new(f) \
                and f.cls.name != "StateMachineMetaclass" and f.name not in ("__init__", "__new__", "__post_init__", "__init_subclass__", "__set_name__"):
            roots.append(f)
    # reachability that does not descend into constructors of definition classes: what they build is a
    # fresh object (e.g. the initial pseudo-transition), not a shared definition
    reach = set()
    todo = list(roots)
    while todo:
        f = todo.pop()
        if f in reach:
            continue
        reach.add(f)
        for t, how, _node in g.edges.get(f, []):
            if how not in ("typed", "by_name", "prop", "closure") or t in reach:
                continue
            if t.cls is not None and t.cls.name in DEFINITION_CLASSES and t.name in ("__init__", "__new__", "__post_init__"):
                continue
            todo.append(t)
    rep.floor(rule, "functions reachable from instance-time entry points", len(reach), 50)
    n_w = 0
    for fn in sorted(reach, key=lambda f: f.key):
        ctor_of_def = fn.cls is not None and fn.cls.name in DEFINITION_CLASSES and fn.name in ("__init__", "__new__", "__post_init__")
        # locals that name (a container of) a definition object by reference: `ts = state.transitions.transitions`
        def_alias = {}
        for n in own_nodes(fn.node):
            if isinstance(n, ast.Assign) and len(n.targets) == 1 and isinstance(n.targets[0], ast.Name) and isinstance(n.value, ast.Attribute):
                chain = n.value
                owners = set()
                while isinstance(chain, ast.Attribute):
                    owners |= ctx.r.typeof(chain.value, fn, ()) & DEFINITION_CLASSES
                    chain = chain.value
                if owners:
                    def_alias[n.targets[0].id] = (owners, show(n.value))
        for n in own_nodes(fn.node):
            tgt = None
            if isinstance(n, ast.Attribute) and isinstance(n.ctx, (ast.Store, ast.Del)):
                tgt, attr = n.value, n.attr
            elif isinstance(n, ast.Subscript) and isinstance(n.ctx, (ast.Store, ast.Del)):
                tgt, attr = n.value, "[...]"
            elif isinstance(n, ast.Call) and isinstance(n.func, ast.Attribute) and n.func.attr in MUTATING_METHODS:
                tgt, attr = n.func.value, n.func.attr
            if tgt is None:
                continue
            types = ctx.r.typeof(tgt, fn, ())
            # attribute chains: `x.items.append` mutates x
            owner_types = set(types)
            if isinstance(tgt, ast.Attribute):
                owner_types |= ctx.r.typeof(tgt.value, fn, ())
            hit = owner_types & (DEFINITION_CLASSES if only is None else only)
            if not hit and isinstance(tgt, ast.Name) and tgt.id in def_alias and isinstance(n, ast.Call):
                hit = def_alias[tgt.id][0] & (DEFINITION_CLASSES if only is None else only)  # mutation through a local alias of the definition's own container
            if not hit:
                continue
            recv = show(tgt) if not (isinstance(tgt, ast.Name) and tgt.id in def_alias) else def_alias[tgt.id][1]
            if recv == "self" or recv.startswith("self."):
                # methods of definition classes mutating themselves: allowed only in constructors of fresh objects,
                # or in methods that are not reachable on an *existing* definition (checked through the caller)
                if ctor_of_def:
                    continue
            n_w += 1
            owner_fn = fn.qualname
            if ctx.is_new(fn) and fn.cls is not None:
                # a helper introduced later: triage by the class it lives in (e.g. Listeners.<helper> still records names_not_found)
                owner_fn = next((k_[0] for k_ in DEFWRITE_OK if k_[0].split(".")[0] == fn.cls.name and k_[1] == attr), fn.qualname)
            key = (owner_fn, attr if attr not in ("[...]",) else (tgt.attr if isinstance(tgt, ast.Attribute) else attr))
            key2 = (owner_fn, tgt.attr if isinstance(tgt, ast.Attribute) else attr)
            if key in DEFWRITE_OK or key2 in DEFWRITE_OK:
                rep.ok(rule, fn.loc(n), f"{fn.qualname} writes `{recv}.{attr}` - triaged: {DEFWRITE_OK.get(key) or DEFWRITE_OK.get(key2)}")
                continue
            fresh = _fresh_receiver(ctx, fn, tgt)
            if fresh:
                rep.ok(rule, fn.loc(n), f"{fn.qualname} writes `{recv}.{attr}` on an object it has just created ({fresh})")
                continue
            rep.violation(rule, fn.loc(n), f"instance-time code `{fn.qualname}` writes `{recv}.{attr}` on a definition object "
                          f"({', '.join(sorted(hit))}) shared by every instance of the class", fn.key, norm_stmt(_stmt(fn, n)))
    rep.count("definition_object_writes_examined", n_w)
    if only is not None:
        return
    # instance-time code must not write class-level attributes (shared by every instance of the class)
    n_cls = 0
    for fn in sorted(reach, key=lambda f: f.key):
        if fn.cls is None or fn.cls.name in ("StateMachineMetaclass",) or "classmethod" in fn.decorators:
            continue
        aliases = set()
        for n in own_nodes(fn.node):
            if isinstance(n, ast.Assign) and len(n.targets) == 1 and isinstance(n.targets[0], ast.Name) and \
                    show(n.value) in ("type(self)", "self.__class__"):
                aliases.add(n.targets[0].id)
        for n in own_nodes(fn.node):
            if isinstance(n, ast.Attribute) and isinstance(n.ctx, (ast.Store, ast.Del)):
                recv = show(n.value)
                if recv in ("type(self)", "self.__class__") or recv in aliases:
                    n_cls += 1
                    rep.violation(rule, fn.loc(n), f"instance-time code `{fn.qualname}` writes the class attribute `{n.attr}`: what the first "
                                  "instance computes is reused by every later instance of the class", fn.key, norm_stmt(_stmt(fn, n)))
            if isinstance(n, ast.Call) and isinstance(n.func, ast.Name) and n.func.id == "setattr" and n.args and \
                    (show(n.args[0]) in ("type(self)", "self.__class__") or show(n.args[0]) in aliases):
                rep.violation(rule, fn.loc(n), f"instance-time code `{fn.qualname}` sets an attribute on the class", fn.key, norm_stmt(n))
    if not n_cls:
        rep.ok(rule, "package", "no instance-time function writes a class-level attribute", functions=len(reach))


def _fresh_receiver(ctx: Ctx, fn: FuncInfo, tgt: ast.AST):
    """The receiver is a local bound to a constructor call in the same function, or `self` of a
    method only ever invoked on such fresh objects from instance-time code."""
    root = tgt
    while isinstance(root, (ast.Attribute, ast.Subscript)):
        root = root.value
    if isinstance(root, ast.Name):
        for n in own_nodes(fn.node):
            if isinstance(n, ast.Assign) and any(isinstance(t, ast.Name) and t.id == root.id for t in n.targets) and isinstance(n.value, ast.Call):
                f = show(n.value.func)
                if f.split(".")[-1] in DEFINITION_CLASSES or f in ("deepcopy", "copy.deepcopy"):
                    return f"{root.id} = {f}(...)"
        if root.id == "self" and fn.cls is not None and fn.cls.name in DEFINITION_CLASSES:
            g = callgraph(ctx)
            callers = g.callers(fn)
            if callers and all(_caller_passes_fresh(ctx, c, node, fn) for c, node, how in callers):
                return "every instance-time caller invokes it on a freshly built object"
    return None


def _caller_passes_fresh(ctx: Ctx, caller: FuncInfo, node: ast.AST, callee: FuncInfo) -> bool:
    if caller.cls is not None and caller.cls.name in DEFINITION_CLASSES and caller.name in ("__init__", "__new__"):
        return True
    if caller.cls is not None and caller.cls.name in ("StateMachineMetaclass",) or caller.name in ("_setup", "add_transitions", "_add_callback"):
        return True  # class-definition time
    if isinstance(node, ast.Call) and isinstance(node.func, ast.Attribute):
        recv = node.func.value
        root = recv
        while isinstance(root, (ast.Attribute, ast.Subscript, ast.Call)):
            root = root.value if not isinstance(root, ast.Call) else root.func
        if isinstance(root, ast.Name):
            for n in own_nodes(caller.node):
                if isinstance(n, ast.Assign) and any(isinstance(t, ast.Name) and t.id == root.id for t in n.targets) and isinstance(n.value, ast.Call):
                    f = show(n.value.func)
                    if f.split(".")[-1] in DEFINITION_CLASSES or f in ("deepcopy", "copy.deepcopy"):
                        return True
    return False


def rule_own_arguments(ctx: Ctx):
    """C16.args: the machine/model/event/source/target a callback receives are those of the machine that runs it; reserved
    names forwarded from another machine's callback (`other.start(**kwargs)`) never replace them."""
    from . import c07

    c07.rule_reserved(ctx, rule="C16.args")
    c07.rule_layer(ctx, rule="C16.args")


def rule_no_process_wide_memo(ctx: Ctx):
    """C16.inventory: a memoising decorator is applied once, when the module is imported: what it remembers is shared by
    every machine, class and definition of the process.  No function of the package gains one."""
    from ..wrappers import check_fresh

    fns = [f for f in ctx.p.all_functions() if getattr(f.node, "decorator_list", None)]
    check_fresh(ctx, "C16.inventory", fns, "behaviour depends only on the instance's own definition, model, listeners and history")


def rule_no_hidden_instance_state(ctx: Ctx, rule: str = "C16.fresh"):
    """Nothing is slipped into an object's `__dict__` behind its class's back: `__getstate__` hands `self.__dict__.copy()` to
    copy/pickle, so an object stored there under a computed key - and tied to the instance it is stored on (built with
    that instance as an argument, like a BoundEvent) - travels into every shallow copy, which then drives the original.
    The only whole-dict write of the package is `__setstate__` restoring its own saved state."""
    rep = ctx.rep
    n = 0
    for fn in ctx.p.all_functions():
        if isinstance(fn.node, ast.Lambda):
            continue
        for node in own_nodes(fn.node):
            recv = key = val = None
            if isinstance(node, ast.Assign) and len(node.targets) == 1 and isinstance(node.targets[0], ast.Subscript):
                t = node.targets[0]
                if isinstance(t.value, ast.Attribute) and t.value.attr == "__dict__":
                    recv, key, val = t.value.value, t.slice, node.value
                elif isinstance(t.value, ast.Call) and show(t.value.func) == "vars" and t.value.args:
                    recv, key, val = t.value.args[0], t.slice, node.value
            elif isinstance(node, ast.Call) and isinstance(node.func, ast.Attribute) and node.func.attr in ("update", "setdefault", "__setitem__") \
                    and isinstance(node.func.value, ast.Attribute) and node.func.value.attr == "__dict__":
                recv, key, val = node.func.value.value, None, (node.args[-1] if node.args else None)
                if fn.name == "__setstate__" and show(recv) == fn.params[0] and node.func.attr == "update":
                    rep.ok(rule, fn.loc(node), f"{fn.qualname} restores its own saved state")
                    n += 1
                    continue
            if recv is None:
                continue
            n += 1
            # what is stored: follow a local back to its assignment in this function
            v = val
            if isinstance(v, ast.Name):
                for m in own_nodes(fn.node):
                    if isinstance(m, ast.Assign) and any(isinstance(t_, ast.Name) and t_.id == v.id for t_ in m.targets):
                        v = m.value
            rtxt = show(recv)
            tied = v is not None and any(isinstance(c, ast.Call) and any(show(a) == rtxt for a in list(c.args) + [k.value for k in c.keywords])
                                         for c in ast.walk(v))
            if tied:
                rep.violation(rule, fn.loc(node), f"{fn.qualname} stores an object built around `{rtxt}` into `{rtxt}.__dict__`"
                              f"{'' if key is None else ' under a computed key'}: __getstate__ copies the dict as is, so a shallow copy of the "
                              "instance keeps an object that drives the original", fn.key, norm_stmt(node))
            else:
                rep.unrecognised(rule, fn.loc(node), f"{fn.qualname} writes `{rtxt}.__dict__` directly")
    rep.ok(rule, "package", "no object tied to an instance is stored into that instance's __dict__ behind __getstate__'s back", sites=n)


def rule_declarations_all_or_nothing(ctx: Ctx):
    """C16.defwrite: `a.to(x, y, ...)` builds all its transitions before it attaches any to the (possibly inherited, shared)
    source state: a declaration rejected half-way leaves nothing behind on a state other classes use."""
    from . import c15

    c15.rule_tofrom(ctx, rule="C16.defwrite")


def rule_bound_events_carry_no_definition(ctx: Ctx):
    """C16.defwrite: what an instance hands out (`sm.<event>`) holds no reference to the class-level transitions: the
    declaration helpers (`.after(f)`, `.cond(f)` ...) called through an instance's event have nothing to write to."""
    from . import c13

    c13.rule_bind(ctx, rule="C16.defwrite")


def rule_from_all_or_nothing(ctx: Ctx):
    """C16.defwrite: `b.from_(x, y, ...)` must not attach a transition to an origin (possibly a state inherited from, and shared
    with, another class) before every transition of the call was built: the constructor of a later one may reject the declaration
    (`internal=True` with a second origin), and what was attached before stays on the shared state."""
    rep = ctx.rep
    fr = ctx.fn("_FromState.__call__")
    early = None
    n = 0
    for p in ctx.paths(fr, inline=None, exc_edges="none", unroll=2):
        evs = p.events
        ctors = [e for e in evs if e.kind == "call" and show(e.term.func) == "Transition"]
        regs = [e for e in evs if e.kind == "call" and isinstance(e.term.func, ast.Attribute) and e.term.func.attr == "add_transitions"
                and xshow(e.term.func.value, evs).endswith(".transitions")]
        if len(ctors) >= 2:
            n += 1
            if any(r.idx < ctors[-1].idx for r in regs):
                early = next(r for r in regs if r.idx < ctors[-1].idx)
    built_first = any(isinstance(c, (ast.GeneratorExp, ast.ListComp)) and isinstance(c.elt, ast.Call) and show(c.elt.func) == "Transition"
                      for c in own_nodes(fr.node))
    if not built_first:
        rep.floor("C16.defwrite", "paths of from_() building two transitions", n, 1)
    else:
        # the comprehension that builds the transitions is complete before the loop that attaches them starts
        cpos = min(c.lineno for c in own_nodes(fr.node) if isinstance(c, (ast.GeneratorExp, ast.ListComp)))
        regs_before = [x for x in own_nodes(fr.node) if isinstance(x, ast.Call) and isinstance(x.func, ast.Attribute) and x.func.attr == "add_transitions"
                       and x.lineno < cpos]
        if regs_before:
            early = type("E", (), {"loc": lambda self_: fr.loc(regs_before[0])})()
        lazy = [c for c in own_nodes(fr.node) if isinstance(c, ast.GeneratorExp) and isinstance(c.elt, ast.Call) and show(c.elt.func) == "Transition"]
        for c in lazy:
            # a generator expression is only built when consumed: it must be consumed by the list constructor right there
            par = next((x for x in own_nodes(fr.node) if isinstance(x, ast.Call) and c in x.args), None)
            rep.check(par is not None and show(par.func) in ("TransitionList", "list", "tuple"), "C16.defwrite", fr.loc(c),
                      "the transitions are built eagerly (the generator is consumed by the list constructor) before any is attached", fr.key, show(c)[:120])
    if early is not None:
        rep.violation("C16.defwrite", early.loc(), "from_() attaches a transition to its origin state before the next one is built: when a later "
                      "constructor rejects the declaration, the earlier transitions stay on states shared with other classes",
                      fr.key, "attach before the last Transition(...) of the call")
    else:
        rep.ok("C16.defwrite", fr.loc(), "from_() builds every transition before it attaches any")


RULES = [rule_inventory, rule_cachekey, rule_fresh, rule_inherit, rule_defwrite, rule_own_arguments, rule_no_process_wide_memo, rule_no_hidden_instance_state, rule_declarations_all_or_nothing, rule_bound_events_carry_no_definition, rule_from_all_or_nothing]
