"""C12 - Listeners and the model are first-class callback providers, attached once."""

from __future__ import annotations

import ast
from typing import List

from ..context import Ctx
from ..kernel import expand, expand1, xshow
from ..loader import AnalysisError, FuncInfo, norm_stmt
from ..paths import show
from ..resolve import own_nodes
from . import c02
from .c03 import callgraph

EXPLANATION = (
    "Provider parity is decided on the resolution code: (allproviders) the name search visits every provider and yields for "
    "each one that has the name, multi-provider guard names are folded with the conjunction combinator, and resolve() registers "
    "every builder it is given; (same-path) constructor listeners, the model and late listeners all go through "
    "_add_listener -> Listeners.resolve over every state and transition, late ones restricted to name references; (dedup) "
    "executor keys contain id(provider) and the seen-test dominates insertion; (own) registry, listener table and "
    "instance-state cache are fresh per instance, never class-level; (engine) wherever wrappers can be added to the registry, "
    "the sync/async decision is re-established before an engine is (or stays) chosen. Argument-injection parity is C07's."
)
EXPLANATION += (
    " " + "A provider's attribute set is dir() of the attached object itself, computed at attach time (not per class, not cached)."
)
ASSUMPTIONS = ["id(obj) is unique among live objects (language guarantee)"]
TRUSTED = ["/verif/sa path enumerator, resolver and call graph"]


def rule_allproviders(ctx: Ctx, rule: str = "C12.allproviders"):
    rep = ctx.rep
    fn = ctx.fn("Listeners.search_name")
    name = fn.params[1]
    n = 0
    for p in ctx.paths(fn, inline=None, exc_edges="none", unroll=2):
        evs = p.events
        its = [e for e in evs if e.kind == "iter" and e.x.get("loop") == "for"]
        if its:
            rep.check(show(its[0].term) == "self.items", rule, its[0].loc(), "the name search ranges over all providers", fn.key, norm_stmt(its[0].node))
        has = 0
        for i, it in enumerate(its):
            end = its[i + 1].idx if i + 1 < len(its) else len(evs)
            seg = evs[it.idx: end]
            elem = show(it.x["elem"])
            member = [b for b in seg if b.kind == "branch" and isinstance(b.term, ast.Compare) and isinstance(b.term.ops[0], ast.In)
                      and show(b.term.left) == name and show(b.term.comparators[0]) == f"{elem}.all_attrs"]
            ys = [y for y in seg if y.kind == "yield"]
            if member and member[0].x["taken"]:
                has += 1
                n += 1
                rep.check(len(ys) == 1, rule, it.loc(), "every provider that has the name yields one builder (no early exit after the first)",
                          fn.key, f"{len(ys)} yields for a provider that has the name")
                if ys:
                    y = expand1(ys[0].term, evs)
                    key_ok = isinstance(y, ast.Tuple) and xshow(y.elts[0], evs) == f"{xshow(it.x['elem'], evs)}.build_key({name})"
                    rep.check(key_ok, rule, ys[0].loc(), "the builder is keyed by (name, provider)", fn.key, norm_stmt(ys[0].node))
            elif member:
                rep.check(not ys, rule, it.loc(), "a provider without the name yields nothing", fn.key, "yield for a provider lacking the name")
        ys_all = [y for y in evs if y.kind == "yield"]
        if ys_all:
            exhausted_after = any(e.kind == "exhaust" and e.idx > ys_all[-1].idx for e in evs)
            rep.check(exhausted_after, rule, ys_all[-1].loc(),
                      "after yielding one provider's builder the search goes on with the remaining providers", fn.key,
                      "the search ends right after a yield (later providers are never consulted)")
        if len(its) == 2 and has == 2:
            ys = [y for y in evs if y.kind == "yield"]
            rep.check(len(ys) == 2 and p.kind != "return" or len(ys) == 2, rule, fn.loc(), "two providers with the name => two builders", fn.key,
                      f"{len(ys)} builders for two providers")
    rep.floor(rule, "provider iterations that have the name", n, 3)
    tk = ctx.fn("Listeners._take_callback")
    n_many = 0
    for p in ctx.paths(tk, inline=None, exc_edges="none", unroll=2, loops_for_comps=True):
        evs = p.events
        its = [e for e in evs if e.kind == "iter" and e.x.get("loop") == "for" and xshow(e.term, evs).startswith("self.search_name(")]
        apps = [e for e in p.calls() if isinstance(e.term.func, ast.Attribute) and e.term.func.attr == "append"]
        rep.check(len(apps) == len(its), rule, tk.loc(), "every provider's callable of a guard name is collected", tk.key,
                  f"{len(apps)} collected for {len(its)} providers")
        if p.kind != "return":
            continue
        # keep only paths whose length/truthiness tests agree with the number of providers iterated
        from ..shapes import consistent_lengths

        lst = next((f"$l{e.idx}" for e in evs if e.kind == "alloc" and isinstance(e.term, ast.List)), None)
        want = [len(its)] if len(its) < 2 else [2, 3]
        if lst is not None and not (set(consistent_lengths(p, lst)) & set(want)):
            continue
        v = expand1(p.value, evs)
        if len(its) >= 2:
            n_many += 1
            from ..shapes import fold_of

            fo = fold_of(p.value, evs)
            ok = fo is not None and fo[0] == "custom_and" and fo[1] == lst and (fo[2] == -1 or fo[2] >= 2)
            rep.check(ok, rule, tk.loc(), "a guard name provided by several objects must hold on all of them (conjunction)", tk.key,
                      f"return {show(v)}")
        elif len(its) == 0:
            rep.check(show(v) == "allways_true" and any(show(e.term.func) == tk.params[2] for e in p.calls()), rule, tk.loc(),
                      "a name nobody provides is reported (and never silently true: nothing is registered for it, see C08.when)", tk.key, f"return {show(v)}")
    rep.floor(rule, "multi-provider paths of _take_callback", n_many, 1)
    rs = ctx.fn("Listeners.resolve")
    n_add = 0
    for p in ctx.paths(rs, inline=None, exc_edges="none", unroll=2):
        evs = p.events
        for e in p.calls():
            if isinstance(e.term.func, ast.Attribute) and e.term.func.attr == "add" and len(e.term.args) == 3:
                n_add += 1
                inner = [i for i in evs[: e.idx] if i.kind == "iter" and i.x.get("loop") == "for"]
                ok = len(inner) >= 2 and xshow(inner[-1].term, evs).startswith("self.build(")
                recv = xshow(e.term.func.value, evs)
                ok = ok and recv.startswith("registry[specs.grouper(") and recv.endswith(".group).key]")
                rep.check(ok, rule, e.loc(), "every builder produced for a spec is added to the executor of that spec's group", rs.key,
                          norm_stmt(e.node), executor=recv)
        brk = [n_ for n_ in own_nodes(rs.node) if isinstance(n_, (ast.Break, ast.Return))]
        rep.check(not brk, rule, rs.loc(), "resolve() never stops early", rs.key, f"{len(brk)} break/return statements")
    rep.floor(rule, "executor.add sites on paths of resolve()", n_add, 2)


def rule_filter(ctx: Ctx, rule: str = "C12.allproviders"):
    """Which specs resolve() skips, decided as a truth table over (reference allowed, is_convention, name found):
    every path of one loop iteration fixes some of these atoms and either reaches the builders or not."""
    import itertools

    rep = ctx.rep
    rs = ctx.fn("Listeners.resolve")
    allowed = rs.params[3]
    rows = []
    wrong_found = set()
    for p in ctx.paths(rs, inline=None, exc_edges="none", unroll=1):
        evs = p.events
        its = [e for e in evs if e.kind == "iter" and e.x.get("loop") == "for"]
        if not its:
            continue
        spec = show(its[0].x["elem"])
        found_name = None
        for e in p.of("bind"):
            if xshow(e.term, evs) == f"{rs.params[1]}.conventional_specs & self.all_attrs":
                found_name = show(e.term)
        val = {}
        other = []
        compound = []

        def atom_of(x, spec=spec):
            if isinstance(x, ast.Compare) and len(x.ops) == 1 and isinstance(x.ops[0], (ast.In, ast.NotIn)):
                l, r = show(x.left), show(x.comparators[0])
                if l == f"{spec}.reference" and r == allowed:
                    return "ALLOWED" if isinstance(x.ops[0], ast.In) else None
                if l == f"{spec}.func" and isinstance(x.ops[0], ast.In):
                    return "FOUND"
            if show(x) == f"{spec}.is_convention":
                return "CONVENTION"
            return None

        for b in [x for x in evs if x.kind == "branch" and x.idx > its[0].idx]:
            t = expand1(b.term, evs)
            txt = show(t)
            if isinstance(t, (ast.BoolOp, ast.UnaryOp)) or (isinstance(t, ast.Compare) and isinstance(t.ops[0], ast.NotIn)):
                # a compound condition (e.g. the value of a helper predicate): kept whole, evaluated per valuation below
                from .. import boolfn as _bf

                class _NI(ast.NodeTransformer):
                    def visit_Compare(self, n_):
                        if len(n_.ops) == 1 and isinstance(n_.ops[0], ast.NotIn):
                            return ast.UnaryOp(op=ast.Not(), operand=ast.Compare(left=n_.left, ops=[ast.In()], comparators=n_.comparators))
                        return n_

                t2 = _NI().visit(__import__("copy").deepcopy(t))
                try:
                    _bf.evaluate(t2, atom_of, {"ALLOWED": True, "CONVENTION": True, "FOUND": True})
                    for c_ in ast.walk(t2):
                        if isinstance(c_, ast.Compare) and show(c_.left) == f"{spec}.func":
                            rdef = xshow(c_.comparators[0], evs)
                            if rdef != f"{rs.params[1]}.conventional_specs & self.all_attrs":
                                wrong_found.add(rdef)
                    compound.append((t2, b.x["taken"], atom_of))
                    continue
                except _bf.Unrecognised:
                    pass
            if isinstance(t, ast.Compare) and len(t.ops) == 1 and isinstance(t.ops[0], ast.In):
                l, r = show(t.left), show(t.comparators[0])
                if l == f"{spec}.reference" and r == allowed:
                    val["ALLOWED"] = b.x["taken"]
                    continue
                if l == f"{spec}.func":
                    val["FOUND"] = b.x["taken"]
                    rdef = xshow(t.comparators[0], evs)
                    if rdef != f"{rs.params[1]}.conventional_specs & self.all_attrs":
                        wrong_found.add(rdef)
                    continue
            if txt == f"{spec}.is_convention":
                val["CONVENTION"] = b.x["taken"]
                continue
            if "self.build(" in xshow(b.term, evs) or b.idx > next((c.idx for c in evs if c.kind == "call" and show(c.term.func) == "self.build"), 10 ** 9):
                continue
            other.append(txt)
        reached = any(c.kind == "call" and show(c.term.func) == "self.build" and c.idx > its[0].idx for c in evs)
        rows.append((val, reached, other, compound))
    if not rows:
        raise AnalysisError("anchor lost: spec loop of Listeners.resolve")
    for w in sorted(wrong_found):
        rep.violation(rule, rs.loc(), "a convention name counts as 'found' by looking at something other than the attribute names of ALL providers",
                      rs.key, f"found set is `{w}`")
    unknown = sorted({o for _, _, os_, _c in rows for o in os_})
    if unknown:
        rep.unrecognised(rule, rs.loc(), f"resolve() conditions the registration on `{unknown[0]}`")
    bad = []
    for combo in itertools.product([True, False], repeat=3):
        full = dict(zip(("ALLOWED", "CONVENTION", "FOUND"), combo))
        want = full["ALLOWED"] and (not full["CONVENTION"] or full["FOUND"])
        from .. import boolfn as _bf

        outcomes = {reached for val, reached, _, comp_ in rows if all(full[k_] == v for k_, v in val.items())
                    and all(bool(_bf.evaluate(t_, af_, full)) == pol_ for t_, pol_, af_ in comp_)}
        if outcomes != {want}:
            bad.append(f"{full} -> registered={sorted(outcomes)} expected {want}")
    rep.check(not bad, rule, rs.loc(), "a spec is resolved exactly when its reference kind is allowed and, if it is a naming-convention spec, "
              "some provider defines that name", rs.key, "; ".join(bad[:3]) or "truth table agrees", rows=len(rows))
    found_ok = False
    for p in ctx.paths(rs, inline=None, exc_edges="none", unroll=0):
        for e in p.of("bind"):
            if xshow(e.term, p.events) == f"{rs.params[1]}.conventional_specs & self.all_attrs":
                found_ok = True
    rep.check(found_ok, rule, rs.loc(), "convention names count as found when any provider has an attribute of that name", rs.key,
              "found_convention_specs is not `specs.conventional_specs & self.all_attrs`")
    fl = ctx.fn("Listeners.from_listeners")
    for p in ctx.paths(fl, inline=None, exc_edges="none"):
        v = xshow(p.value, p.events) if p.kind == "return" else ""
        union = ("set().union(*(" in v or "set(chain.from_iterable(" in v.replace("itertools.", "") or "set().union(*[" in v) and ".all_attrs for " in v
        rep.check(union and v.startswith("cls(tuple("), rule, fl.loc(),
                  "the provider set knows the attribute names of all its providers", fl.key, f"return {v}")


def rule_samepath(ctx: Ctx, rule: str = "C12.same-path"):
    rep = ctx.rep
    g = callgraph(ctx)
    al = ctx.fn("StateMachine._add_listener")
    callers = {c.qualname for c in g.baseline_callers(al, ctx.is_new)}
    rep.check(callers == {"StateMachine._register_callbacks", "StateMachine.add_listener"}, rule, al.loc(),
              "constructor-time and late providers are attached through the same _add_listener", al.key, f"callers: {sorted(callers)}")
    for p in ctx.paths(al, inline=None, exc_edges="none", unroll=1):
        evs = p.events
        its = [e for e in evs if e.kind == "iter" and e.x.get("loop") == "for"]
        if its:
            rep.check(xshow(its[0].term, evs) == "iterate_states_and_transitions(self.states)", rule, its[0].loc(),
                      "providers are resolved against the specs of every state and every transition", al.key, norm_stmt(its[0].node))
        for i_, it_ in enumerate(its):
            if p.kind == "raise" or "elem" not in it_.x:
                continue
            end_ = its[i_ + 1].idx if i_ + 1 < len(its) else len(evs)
            seg = [e for e in evs[it_.idx:end_] if e.kind == "call" and isinstance(e.term.func, ast.Attribute) and e.term.func.attr == "resolve"]
            if not seg and any(e.kind == "branch" for e in evs[it_.idx:end_]):
                rep.violation(rule, its[0].loc(), "providers are resolved against the specs of *every* state and transition, whatever the path "
                              "they are attached through: this iteration skips one", al.key,
                              "; ".join(f"{xshow(b.term, evs)[:80]}={b.x['taken']}" for b in evs[it_.idx:end_] if b.kind == "branch")[:240])
        for e in p.calls():
            if isinstance(e.term.func, ast.Attribute) and e.term.func.attr == "resolve":
                kw = {k.arg: xshow(k.value, evs) for k in e.term.keywords}
                pos = [xshow(a, evs) for a in e.term.args]
                ok = pos and pos[0].endswith("._specs") and kw.get("registry") == "self._callbacks" and kw.get("allowed_references") == al.params[2]
                rep.check(bool(ok), rule, e.loc(), "resolution targets this instance's registry with the caller's reference policy", al.key, norm_stmt(e.node))
    it = ctx.fn("iterate_states_and_transitions")
    n_it = 0
    for p in ctx.paths(it, inline=None, exc_edges="none", unroll=1):
        evs = p.events
        if not any(e.kind == "iter" for e in evs):
            continue
        n_it += 1
        el = f"{it.params[0]}[$k0]"
        ys = [("from " if y.x.get("from") else "") + xshow(y.term, evs) for y in p.of("yield")]
        filtered = any(b.kind == "branch" for b in evs)
        rep.check(ys == [el, f"from {el}.transitions"] and not filtered, rule, it.loc(), "every state and each of its transitions is visited", it.key,
                  "; ".join(ys) + (" (conditional)" if filtered else ""))
    rep.floor(rule, "iterations of iterate_states_and_transitions analysed", n_it, 1)
    rc = ctx.fn("StateMachine._register_callbacks")
    for p in ctx.paths(rc, inline=None, exc_edges="none", unroll=1):
        evs = p.events
        adds = [e for e in p.calls() if isinstance(e.term.func, ast.Attribute) and e.term.func.attr == "_add_listener"]
        if not adds:
            rep.violation(rule, rc.loc(), "_register_callbacks does not attach providers", rc.key, "no _add_listener call")
            continue
        from ..shapes import seq_model

        arg1 = expand1(adds[0].term.args[0], evs)
        el = None
        if isinstance(arg1, ast.Call) and show(arg1.func) == "Listeners.from_listeners" and arg1.args:
            raw = arg1.args[0]
            el = seq_model(p, raw if not (isinstance(raw, ast.Name) and raw.id.startswith("$c")) else expand1(raw, evs), upto=adds[0].idx)
            if el is not None:
                el = [expand(x, evs) for x in el]
        ok = el is not None
        if ok:
            ok = len(el) == 3 and show(el[0]).startswith("Listener.from_obj(self, skip_attrs=self._protected_attrs") and \
                show(el[1]).startswith("Listener.from_obj(self.model, skip_attrs={self.state_field}") and isinstance(el[2], ast.Starred) and \
                "Listener.from_obj(" in show(el[2]) and show(el[2]).endswith(f"in {rc.params[1]})")
        rep.check(bool(ok), rule, adds[0].loc(), "providers are the machine, then the model, then every listener, each wrapped the same way",
                  rc.key, norm_stmt(adds[0].node))
        kw = {k.arg for k in adds[0].term.keywords}
        rep.check("allowed_references" not in kw and len(adds[0].term.args) == 1, rule, adds[0].loc(),
                  "constructor-time providers may satisfy every kind of reference", rc.key, norm_stmt(adds[0].node))
        break
    ad = ctx.fn("StateMachine.add_listener")
    for p in ctx.paths(ad, inline=None, exc_edges="none"):
        evs = p.events
        adds = [e for e in p.calls() if isinstance(e.term.func, ast.Attribute) and e.term.func.attr == "_add_listener"]
        ok = bool(adds)
        if ok:
            arg = expand(adds[0].term.args[0], evs)
            kw = {k.arg: show(k.value) for k in adds[0].term.keywords}
            ok = isinstance(arg, ast.Call) and show(arg.func) == "Listeners.from_listeners" and "Listener.from_obj(" in show(arg) and \
                show(arg).endswith(f"in {ad.node.args.vararg.arg}))") and kw.get("allowed_references") == "SPECS_SAFE"
        rep.check(bool(ok), rule, ad.loc(), "late listeners are wrapped the same way and restricted to name references", ad.key,
                  "; ".join(e.show() for e in adds))
    mod = ctx.p.module("statemachine/callbacks.py")
    rep.check(show(mod.assigns.get("SPECS_SAFE")) == "SpecReference.NAME", rule, f"{mod.rel} SPECS_SAFE", "SPECS_SAFE is the NAME reference kind",
              f"{mod.rel}::SPECS_SAFE", f"SPECS_SAFE = {show(mod.assigns.get('SPECS_SAFE'))}")


def rule_provider_attrs(ctx: Ctx, rule: str = "C12.dedup", attrs_rule: str = "C12.allproviders"):
    """What a provider record is made of: the object, everything dir() of it lists, and its id() as the key part."""
    rep = ctx.rep
    fo = ctx.fn("Listener.from_obj")
    n = 0
    for p in ctx.paths(fo, inline=None, exc_edges="none"):
        if p.kind != "return":
            continue
        v = expand(p.value, p.events)
        if isinstance(v, ast.Call) and show(v.func) == "cls":
            n += 1
            rid = show(v.args[2]) if len(v.args) > 2 else show(next((k.value for k in v.keywords if k.arg == "resolver_id"), None))
            rep.check(rid == f"str(id({fo.params[1]}))" and show(v.args[0]) == fo.params[1], rule, fo.loc(),
                      "the provider id in the key is id(obj): the same object attached twice gives the same keys, two objects never do", fo.key,
                      f"return {show(v)}")
            attrs = v.args[1] if len(v.args) > 1 else next((k.value for k in v.keywords if k.arg == "all_attrs"), None)
            atxt = show(attrs) if attrs is not None else ""
            obj = fo.params[1]
            dirs = [c_ for c_ in ast.walk(attrs) if isinstance(c_, ast.Call) and show(c_.func) == "dir"] if attrs is not None else []
            ok_a = bool(dirs) and all(len(c_.args) == 1 and show(c_.args[0]) == obj for c_ in dirs)
            rep.check(ok_a, attrs_rule, fo.loc(),
                      "a provider offers what `dir()` of the attached object itself lists at attach time (instance attributes, "
                      "`__dir__`/`__getattr__` delegators, handlers added to its class later) - not a per-class or cached view", fo.key,
                      f"all_attrs = {atxt}")
    rep.floor(rule, "constructing paths of Listener.from_obj", n, 1)


def rule_dedup(ctx: Ctx, rule: str = "C12.dedup", attrs_rule: str = "C12.allproviders"):
    rep = ctx.rep
    bk = ctx.fn("Listener.build_key")
    for p in ctx.paths(bk, inline=None, exc_edges="none"):
        v = p.value
        ok = p.kind == "return" and isinstance(v, ast.JoinedStr) and {show(x.value) for x in v.values if isinstance(x, ast.FormattedValue)} == {bk.params[1], "self.resolver_id"}
        rep.check(ok, rule, bk.loc(), "a builder key names the attribute and the provider", bk.key, f"return {show(v)}")
    rule_provider_attrs(ctx, rule, attrs_rule)
    # keys of callables that belong to no provider must identify the callable, not only its name
    sc = ctx.fn("Listeners._search_callable")
    n_k = 0
    for p in ctx.paths(sc, inline=None, exc_edges="none", unroll=1):
        for y in p.of("yield"):
            t = expand1(y.term, p.events)
            if isinstance(t, ast.Tuple) and isinstance(t.elts[0], ast.JoinedStr):
                parts = [show(x.value) for x in t.elts[0].values if isinstance(x, ast.FormattedValue)]
                n_k += 1
                ok = any(x.startswith("id(") or x.endswith(".func") or x.endswith("__code__") for x in parts)
                rep.check(ok, rule, y.loc(), "the key of a callable bound to no provider contains the callable's identity "
                          "(two lambdas or same-named functions in one group are different callbacks)", sc.key, norm_stmt(y.node), parts=parts)
    rep.floor(rule, "literal keys yielded by _search_callable", n_k, 1)
    # the key of a composed guard is built from its operands' keys (which carry the provider ids), never from names
    sp = ctx.p.module("statemachine/spec_parser.py")
    n_c = 0
    from ..shapes import closure_models

    def models_of(f, bindings=None, depth=0):
        out = []
        try:
            cms = closure_models(ctx, f, bindings=bindings)
        except AnalysisError:
            return out
        for m in cms:
            out.append((f, m))
            if m.obj.startswith("$def:") and depth < 2:
                out.extend(models_of(m.fn, m.bindings, depth + 1))  # a factory of factories (comparison operators)
        return out

    for f in sp.all_functions:
        if f.parent is not None or f.cls is not None or ctx.is_new(f) or isinstance(f.node, ast.Lambda):
            continue
        for owner, m in models_of(f):
            if "unique_key" not in m.attrs:
                continue
            val, e = m.attrs["unique_key"]
            n_c += 1
            v = expand(val, m.events)
            txt = show(v)
            scope_params = set(owner.params) | set(f.params)
            operand_keys = [f"getattr({a}, 'unique_key', '')" for a in scope_params]
            uses = any(k_ in txt for k_ in operand_keys) or (
                isinstance(v, ast.Call) and show(v.func) == "_unique_key" and len(v.args) >= 2 and all(isinstance(a, ast.Name) for a in v.args[:2]))
            const_only = f.qualname.startswith("build_constant")
            rep.check(uses or const_only, rule, e.loc(), "the de-duplication key of a composed guard is derived from its operands' keys "
                      "(provider identity is kept)", owner.key, norm_stmt(e.node), value=txt[:160])
    rep.floor(rule, "unique_key assignments in spec_parser builders", n_c, 5)
    # a provider's key must be the same whether it is attached alone or together with others
    tk = ctx.fn("Listeners._take_callback")
    for p in ctx.paths(tk, inline=None, exc_edges="none", unroll=2):
        its = [e for e in p.events if e.kind == "iter" and e.x.get("loop") == "for"]
        if len(its) >= 2 and p.kind == "return":
            v = expand1(p.value, p.events)
            if isinstance(v, ast.Call) and show(v.func) in ("reduce", "functools.reduce"):
                rep.violation(rule, tk.loc(), "a guard name with several providers is registered as ONE callable under a combined key, so attaching one "
                              "of those providers again later is not recognised as a duplicate (its guard is evaluated twice)", tk.key,
                              "return reduce(custom_and, callbacks)")
                break
    c02.rule_once(ctx, rule=rule)


def rule_own(ctx: Ctx, rule: str = "C12.own"):
    rep = ctx.rep
    sm = ctx.p.cls("StateMachine")
    per_instance = {"_callbacks": "CallbacksRegistry()", "_states_for_instance": "{}", "_listeners": "{}"}
    for nm in per_instance:
        rep.check(nm not in sm.class_assigns, rule, f"{sm.module.rel}:{sm.node.lineno} StateMachine",
                  f"`{nm}` is not a class-level object shared by all instances", f"{sm.module.rel}::StateMachine",
                  f"{nm} = {show(sm.class_assigns.get(nm))}")
    for mname in ("__init__", "__setstate__"):
        fn = ctx.fn(f"StateMachine.{mname}")
        got = {}
        order = []
        for p in ctx.paths(fn, inline=None, exc_edges="none"):
            if p.kind == "raise":
                continue
            for e in p.events:
                if e.kind == "store" and show(e.term.value) == "self" and e.x["attr"] in per_instance:
                    got[e.x["attr"]] = xshow(e.x["value"], p.events)
                    order.append((e.idx, e.x["attr"]))
                if e.kind == "call" and show(e.term.func) in ("self._register_callbacks", "self.add_listener", "self._add_listener"):
                    order.append((e.idx, "REGISTER"))
            break
        for nm, want in per_instance.items():
            rep.check(got.get(nm) == want, rule, fn.loc(), f"{mname} gives the instance its own fresh `{nm}`", fn.key, f"self.{nm} = {got.get(nm)}")
        first_reg = min([i for i, a in order if a == "REGISTER"], default=None)
        rep.check(first_reg is not None and all(i < first_reg for i, a in order if a != "REGISTER"), rule, fn.loc(),
                  f"{mname} creates the per-instance containers before any provider is attached", fn.key, f"order: {[a for _, a in sorted(order)]}")
    ri = ctx.fn("CallbacksRegistry.__init__")
    got = {show(t): show(n.value) for n in own_nodes(ri.node) if isinstance(n, (ast.Assign, ast.AnnAssign)) for t in (n.targets if isinstance(n, ast.Assign) else [n.target])}
    rep.check(got.get("self._registry") in ("defaultdict(CallbacksExecutor)", "{}", "dict()"), rule, ri.loc(), "a registry owns a fresh executor table",
              ri.key, str(got))
    ei = ctx.fn("CallbacksExecutor.__init__")
    got = {show(t): show(n.value) for n in own_nodes(ei.node) if isinstance(n, (ast.Assign, ast.AnnAssign)) for t in (n.targets if isinstance(n, ast.Assign) else [n.target])}
    rep.check(got.get("self.items") in ("deque()", "[]") and got.get("self.items_already_seen") == "set()", rule, ei.loc(),
              "an executor owns fresh item and seen containers", ei.key, str(got))
    for c in (ctx.p.cls("CallbacksRegistry"), ctx.p.cls("CallbacksExecutor")):
        muts = [k for k, v in c.class_assigns.items() if isinstance(v, (ast.Dict, ast.List, ast.Set, ast.Call))]
        rep.check(not muts, rule, f"{c.module.rel}:{c.node.lineno} {c.name}", f"{c.name} has no class-level mutable container", f"{c.module.rel}::{c.name}", str(muts))


def _sm_inline(callee: FuncInfo, depth: int, node) -> bool:
    return callee.cls is not None and callee.cls.name == "StateMachine" and callee.name in ("_register_callbacks", "add_listener", "_add_listener", "add_observer")


def rule_engine(ctx: Ctx, rule: str = "C12.engine", only=None):
    """Engine-selection invariant: after the last point where wrappers may have been added, the
    async/sync flag is recomputed before an engine is chosen; a public late-attach entry point must
    re-establish the choice itself."""
    rep = ctx.rep
    g = callgraph(ctx)
    al = ctx.fn("StateMachine._add_listener")
    entry = set()
    todo = [al]
    seen = set()
    while todo:
        f = todo.pop()
        for c, node, how in g.callers(f):
            if c in seen:
                continue
            seen.add(c)
            entry.add(c)
            if c.cls is not None and c.cls.name == "StateMachine":
                todo.append(c)
    tops = [f for f in entry if not [c for c, _, _ in g.callers(f) if c.cls is not None and c.cls.name == "StateMachine"] or f.name in ("add_listener",)]
    rep.floor(rule, "entry points that can add wrappers", len(tops), 3)
    if only is None:
        from .c05 import check_engine_choice

        check_engine_choice(ctx, rule)
    for fn in sorted(tops, key=lambda f: f.key):
        if fn.name == "add_observer" or (only is not None and fn.name not in only):
            continue
        n = 0
        for p in ctx.paths(fn, inline=_sm_inline, exc_edges="none", unroll=1):
            if p.kind == "raise":
                continue
            evs = p.events
            adds = [e for e in evs if e.kind == "call" and isinstance(e.term.func, ast.Attribute) and e.term.func.attr == "resolve"
                    and any(t.qualname == "Listeners.resolve" for t in (e.x["callee"].targets if e.x["callee"] else []))]
            if not adds:
                continue
            n += 1
            last = adds[-1].idx
            recomputes = [e for e in evs if e.kind == "call" and isinstance(e.term.func, ast.Attribute) and e.term.func.attr == "async_or_sync" and e.idx > last]
            chooses = [e for e in evs if e.kind == "call" and show(e.term.func) == "self._get_engine"]
            if chooses:
                ok = bool(recomputes) and recomputes[-1].idx < chooses[0].idx and all(a.idx < chooses[0].idx for a in adds)
                rep.check(ok, rule, fn.loc(), f"{fn.qualname}: the coroutine flag is recomputed after the last provider was attached and before the engine is chosen",
                          fn.key, "attach/recompute/choose order: " + " ; ".join(
                              x.show() for x in evs if x in adds[-1:] or x in recomputes or x in chooses))
            else:
                # engine already chosen (late attach on a live machine)
                reselect = [e for e in evs if e.kind == "store" and e.x.get("attr") == "_engine" and e.idx > last]
                rejects = False
                rep.check(bool(recomputes) and (bool(reselect) or rejects), rule, fn.loc(),
                          f"{fn.qualname}: attaching providers to a live machine re-establishes the sync/async engine choice", fn.key,
                          "late attach without re-selecting the engine")
        rep.floor(rule, f"attaching paths of {fn.qualname}", n, 1)


def rule_inspected_per_object(ctx: Ctx):
    """C12.own: a provider is inspected as the object it is: no memo in front of the listener inspection / callback search
    serves the record of another (equal, or same-named) object - callbacks of one listener never run for another."""
    from ..wrappers import check_fresh
    from .c07 import _resolution_pipeline

    check_fresh(ctx, "C12.own", _resolution_pipeline(ctx), "each provider's callbacks are resolved on that very object")


def rule_attach_from_callback(ctx: Ctx):
    """C12.same-path: `add_listener` may be called at any time, also from inside a callback of the machine: the callback group
    that is running keeps iterating its own snapshot."""
    from . import c02

    c02.rule_snapshot_iteration(ctx, "C12.same-path")


def rule_reattach_changes_nothing(ctx: Ctx):
    """C12.dedup: attaching a listener again changes nothing - neither its calls nor the pass its first attachment is recorded
    under (which a clone replays)."""
    from . import c17

    c17.rule_first_attachment(ctx, rule="C12.dedup")


RULES = [rule_allproviders, rule_filter, rule_samepath, rule_dedup, rule_own, rule_engine, rule_inspected_per_object, rule_attach_from_callback, rule_reattach_changes_nothing]
