"""C08 - Guards: cond/unless conjunction and Python-faithful boolean expressions."""

from __future__ import annotations

import ast
import warnings
from typing import Dict, List, Optional, Set

from ..context import Ctx
from ..kernel import expand, expand1, xshow
from ..loader import AnalysisError, norm_stmt
from ..paths import Path, show
from ..resolve import own_nodes
from . import c01
from .c03 import callgraph

EXPLANATION = (
    "The translation of guard expressions is decided structurally: (regex) the operator-spelling pattern is parsed with "
    "re._parser into its AST and must have one alternative per replacement key, a negative look-ahead for `=` after `!`, "
    "word boundaries around alphabetic operators, and replacement texts that are the Python keywords padded so tokens stay "
    "separate; (optable) the AST-operator table covers exactly Or/And/Not and the six comparisons, each entry applying the "
    "Python operator of the same kind, operands called left then right, once each, inside the closure, the right one only "
    "on the edge Python's short-circuit takes; (build) build_expression has a branch per grammar node, folds BoolOp values "
    "left to right, chains comparisons pairwise under conjunction and rejects anything else; (fast) the plain-name shortcut is "
    "guarded by a condition that implies a single non-keyword identifier; (when) parsing happens only at listener "
    "registration and failures become InvalidDefinition; (fresh) attribute operands are read inside the closure at every "
    "evaluation. cond/unless conjunction is C01.allof/C01.expected (re-checked here). Values are never evaluated."
    " Added after seeded batch 9: a guard name means call-or-read decided on the provider object's own attribute (per provider), and the class-level specs a guard is declared by are not written by instance-time code."
)
ASSUMPTIONS = ["CPython's ast.parse implements Python precedence/associativity (trusted: it *is* Python's parser)"]
TRUSTED = ["re._parser (sre_parse) regex AST", "/verif/sa path enumerator"]

SEMANTICS = {"!": "not", "^": "and", "v": "or"}


def _module(ctx: Ctx):
    return ctx.p.module("statemachine/spec_parser.py")


def rule_regex(ctx: Ctx):
    rep = ctx.rep
    mod = _module(ctx)
    repl = mod.assigns.get("replacements")
    pat = mod.assigns.get("pattern")
    if not isinstance(repl, ast.Dict) or pat is None:
        raise AnalysisError("anchor lost: replacements / pattern in spec_parser.py")
    table = {}
    for k, v in zip(repl.keys, repl.values):
        if not (isinstance(k, ast.Constant) and isinstance(v, ast.Constant)):
            rep.unrecognised("C08.regex", mod.rel, "non-literal entry in `replacements`")
        table[k.value] = v.value
    src = None
    if isinstance(pat, ast.Call) and show(pat.func) in ("re.compile", "compile") and pat.args and isinstance(pat.args[0], ast.Constant):
        src = pat.args[0].value
        flags = len(pat.args) > 1 or bool(pat.keywords)
    if src is None:
        rep.unrecognised("C08.regex", mod.rel, f"pattern is not re.compile(<literal>): {show(pat)}")
    with warnings.catch_warnings():
        warnings.simplefilter("ignore")
        import re._parser as sp  # type: ignore

        tree = sp.parse(src)
    where = f"{mod.rel}:{pat.lineno} pattern"
    alts = []
    data = list(tree)
    if len(data) == 1 and str(data[0][0]) == "BRANCH":
        alts = [list(a) for a in data[0][1][1]]
    else:
        alts = [data]

    def describe(alt):
        lits, la_neg, bounds = [], [], 0
        for op, av in alt:
            o = str(op)
            if o == "LITERAL":
                lits.append(chr(av))
            elif o == "ASSERT_NOT":
                direction, sub = av
                la_neg.append((direction, "".join(chr(x[1]) for x in sub if str(x[0]) == "LITERAL")))
            elif o == "AT" and str(av) in ("AT_BOUNDARY",):
                bounds += 1
            else:
                lits.append(f"<{o}>")
        return "".join(lits), la_neg, bounds

    seen = {}
    literal_skips = 0
    for alt in alts:
        # an alternative that is one capturing group matching a whole quoted string ('...' or "...") is the literal-skipper
        if len(alt) == 1 and str(alt[0][0]) == "SUBPATTERN":
            inner = list(alt[0][1][3])
            quoted = inner and str(inner[0][0]) == "BRANCH" and all(
                len(b) >= 2 and str(b[0][0]) == "LITERAL" and chr(b[0][1]) in "'\"" and str(b[-1][0]) == "LITERAL" and b[-1][1] == b[0][1]
                for b in (list(x) for x in inner[0][1][1]))
            if quoted:
                literal_skips += 1
                continue
        lit, la, bounds = describe(alt)
        seen[lit] = (la, bounds, alt)
    # string literals of the expression must survive the rewriting unchanged (`kind == 'a v b'`)
    first_is_skip = bool(alts) and len(alts[0]) == 1 and str(alts[0][0][0]) == "SUBPATTERN"
    rep.check(literal_skips == 1 and first_is_skip, "C08.regex", where,
              "quoted string literals are matched first, as a whole (operator spellings inside them are not rewritten)",
              f"{mod.rel}::pattern", f"pattern {src!r} has {literal_skips} literal-skipping alternative(s)", pattern=src)
    rep.check(set(seen) == set(table), "C08.regex", where, "the pattern has exactly one alternative per operator spelling in `replacements`",
              f"{mod.rel}::pattern", f"pattern alternatives {sorted(seen)} vs replacements {sorted(table)}", pattern=src)
    for key, text in table.items():
        if key not in seen:
            continue
        la, bounds, alt = seen[key]
        want = SEMANTICS.get(key)
        rep.check(want is not None and text.strip() == want, "C08.regex", where, f"`{key}` is rewritten to the Python keyword `{want}`",
                  f"{mod.rel}::replacements", f"replacements[{key!r}] = {text!r}")
        if want in ("and", "or"):
            rep.check(text.startswith(" ") and text.endswith(" "), "C08.regex", where,
                      f"the replacement of `{key}` is padded on both sides (tokens stay separated: `a^b` -> `a and b`)",
                      f"{mod.rel}::replacements", f"replacements[{key!r}] = {text!r}")
        if want == "not":
            rep.check(text.endswith(" "), "C08.regex", where, "the replacement of `!` is followed by a space (`!a` -> `not a`)",
                      f"{mod.rel}::replacements", f"replacements[{key!r}] = {text!r}")
        if key == "!":
            rep.check(any(d == 1 and s == "=" for d, s in la), "C08.regex", where,
                      "`!` is not rewritten when followed by `=` (the `!=` comparison survives)", f"{mod.rel}::pattern",
                      f"alternative for `!` in {src!r} has look-aheads {la}")
        if key.isalnum():
            first_b = str(alt[0][0]) == "AT" and str(alt[0][1]) == "AT_BOUNDARY"
            last_b = str(alt[-1][0]) == "AT" and str(alt[-1][1]) == "AT_BOUNDARY"
            rep.check(bounds >= 2 and first_b and last_b, "C08.regex", where,
                      f"the alphabetic operator `{key}` only matches as a whole word (names containing it are untouched)",
                      f"{mod.rel}::pattern", f"alternative for `{key}` in {src!r} has {bounds} word boundaries")
    ro = ctx.fn("replace_operators")
    ok = False
    for p in ctx.paths(ro, inline=None, exc_edges="none"):
        v = expand(p.value, p.events) if p.kind == "return" else None
        ok = isinstance(v, ast.Call) and show(v.func) == "pattern.sub" and len(v.args) == 2 and show(v.args[1]) == ro.params[0]
    rep.check(ok, "C08.regex", ro.loc(), "replace_operators substitutes every match of the pattern in the whole expression", ro.key, "return value")
    mf = next((f for f in mod.all_functions if f.parent is ro), None)
    if mf is not None:
        n_lit_paths = 0
        for p in ctx.paths(mf, inline=None, exc_edges="none"):
            v = xshow(p.value, p.events) if p.kind == "return" else ""
            lit_path = any(xshow(b.term, p.events) in ("match.group(1) is None", "match.group(1)", "match[1] is None", "match[1]")
                           and (b.x["taken"] is ("is None" not in xshow(b.term, p.events))) for b in p.of("branch"))
            if lit_path:
                n_lit_paths += 1
                rep.check(v in ("match.group(0)", "match[0]", "match.group(1)", "match[1]"), "C08.regex", mf.loc(),
                          "a matched string literal is returned unchanged", mf.key, f"return {v}")
            else:
                rep.check(v == "replacements[match.group(0)]" or v == "replacements[match[0]]", "C08.regex", mf.loc(),
                          "each match is replaced by the table entry of exactly the matched text", mf.key, f"return {v}")


        if literal_skips:
            rep.check(n_lit_paths > 0, "C08.regex", mf.loc(), "the substitution function returns a matched string literal unchanged "
                      "(it is not an entry of the replacement table)", mf.key, "no path for a matched literal")


AST_TO_OP = {"GtE": "ge", "Gt": "gt", "LtE": "le", "Lt": "lt", "Eq": "eq", "NotEq": "ne"}
OP_REPR = {"eq": "==", "ne": "!=", "gt": ">", "ge": ">=", "lt": "<", "le": "<="}
BOOL_COMBINATORS = {"Or": "custom_or", "And": "custom_and", "Not": "custom_not"}


def rule_optable(ctx: Ctx):
    from ..shapes import closure_models

    rep = ctx.rep
    mod = _module(ctx)
    om = mod.assigns.get("operator_mapping")
    if not isinstance(om, ast.Dict):
        raise AnalysisError("anchor lost: operator_mapping")
    where = f"{mod.rel}:{om.lineno} operator_mapping"
    got = {}
    for k, v in zip(om.keys, om.values):
        if not (isinstance(k, ast.Attribute) and show(k.value) == "ast"):
            rep.unrecognised("C08.optable", where, f"key {show(k)}")
        got[k.attr] = v
    want_keys = set(AST_TO_OP) | set(BOOL_COMBINATORS)
    rep.check(set(got) == want_keys, "C08.optable", where, "the operator table covers exactly or/and/not and the six comparisons",
              f"{mod.rel}::operator_mapping", f"keys {sorted(got)}", missing=sorted(want_keys - set(got)), extra=sorted(set(got) - want_keys))
    for k, v in got.items():
        if k in BOOL_COMBINATORS:
            rep.check(show(v) == BOOL_COMBINATORS[k], "C08.optable", where, f"ast.{k} is built by {BOOL_COMBINATORS[k]}",
                      f"{mod.rel}::operator_mapping", f"ast.{k}: {show(v)}")
        elif k in AST_TO_OP:
            ok = isinstance(v, ast.Call) and show(v.func) == "build_custom_operator" and len(v.args) == 1 and show(v.args[0]) == f"operator.{AST_TO_OP[k]}"
            rep.check(ok, "C08.optable", where, f"ast.{k} applies operator.{AST_TO_OP[k]}", f"{mod.rel}::operator_mapping", f"ast.{k}: {show(v)}")
    cr = mod.assigns.get("comparison_repr")
    if isinstance(cr, ast.Dict):
        for k, v in zip(cr.keys, cr.values):
            nm = show(k).split(".")[-1]
            rep.check(isinstance(v, ast.Constant) and OP_REPR.get(nm) == v.value, "C08.optable", f"{mod.rel}:{cr.lineno} comparison_repr",
                      f"operator.{nm} is displayed as `{OP_REPR.get(nm)}`", f"{mod.rel}::comparison_repr", f"{show(k)}: {show(v)}")
    # combinator bodies
    for comb, pyop in (("custom_or", "or"), ("custom_and", "and")):
        fn = ctx.fn(comb)
        a, b = fn.params[0], fn.params[1]
        cms = closure_models(ctx, fn)
        if not cms:
            raise AnalysisError(f"anchor lost: closure of {comb}")
        dec = cms[0].fn
        n = 0
        for p in cms[0].paths(ctx, inline=None, exc_edges="none"):
            n += 1
            calls = [e for e in p.calls() if isinstance(e.term.func, ast.Name) and e.term.func.id in (a, b)]
            order = [e.term.func.id for e in calls]
            argsok = all(show(e.term) == f"{e.term.func.id}(*args, **kwargs)" for e in calls)
            first = calls[0] if calls else None
            br = [x for x in p.of("branch") if first is not None and show(x.term) == f"$c{first.idx}"]
            if order == [a]:
                ok = br and br[0].x["taken"] is (pyop == "or") and show(p.value) == f"$c{first.idx}"
                rep.check(bool(ok) and argsok, "C08.optable", dec.loc(),
                          f"{comb}: the right operand is skipped exactly when Python's `{pyop}` short-circuits, and the left value is the result",
                          dec.key, f"path: {[e.show() for e in p.events if e.kind in ('call', 'branch', 'return')]}")
            elif order == [a, b]:
                ok = br and br[0].x["taken"] is (pyop == "and") and show(p.value) == f"$c{calls[1].idx}" and br[0].idx < calls[1].idx
                rep.check(bool(ok) and argsok, "C08.optable", dec.loc(),
                          f"{comb}: operands are called left then right, once each, the right one lazily; its value is the result", dec.key,
                          f"path: {[e.show() for e in p.events if e.kind in ('call', 'branch', 'return')]}")
            else:
                rep.violation("C08.optable", dec.loc(), f"{comb}: operands evaluated as {order} (not lazily left-to-right, once each)", dec.key,
                              f"path: {[e.show() for e in p.events if e.kind in ('call', 'branch', 'return')]}")
        rep.floor("C08.optable", f"paths of {comb}.decorated", n, 2)
    fn = ctx.fn("custom_not")
    cms = closure_models(ctx, fn)
    if not cms:
        raise AnalysisError("anchor lost: closure of custom_not")
    dec = cms[0].fn
    for p in cms[0].paths(ctx, inline=None, exc_edges="none"):
        v = expand(p.value, p.events) if p.kind == "return" else None
        ok = isinstance(v, ast.UnaryOp) and isinstance(v.op, ast.Not) and show(v.operand) == f"{fn.params[0]}(*args, **kwargs)"
        rep.check(ok, "C08.optable", dec.loc(), "custom_not negates the operand's value at every evaluation", dec.key, f"return {show(v)}")
    bco = ctx.fn("build_custom_operator")
    outer = closure_models(ctx, bco)
    cc = outer[0].fn if outer else None
    inner = closure_models(ctx, cc, bindings=outer[0].bindings) if cc is not None else []
    if not inner:
        raise AnalysisError("anchor lost: comparison combinator closure")
    dec = inner[0].fn
    for p in inner[0].paths(ctx, inline=None, exc_edges="none"):
        calls = p.calls()
        order = [show(e.term.func) for e in calls]
        l, r = cc.params[0], cc.params[1]
        opname = bco.params[0]
        ok = order[:3] == [l, r, opname] and show(calls[2].term) == f"{opname}($c{calls[0].idx}, $c{calls[1].idx})" and \
            all(show(e.term) == f"{show(e.term.func)}(*args, **kwargs)" for e in calls[:2])
        rep.check(ok, "C08.optable", dec.loc(), "a comparison evaluates left then right, once each, and applies its operator to (left, right)",
                  dec.key, "; ".join(e.show() for e in calls))


def rule_build(ctx: Ctx):
    rep = ctx.rep
    fn = ctx.fn("build_expression")
    node = fn.params[0]
    kinds = set()
    for n in own_nodes(fn.node):
        if isinstance(n, ast.Call) and show(n.func) == "isinstance" and len(n.args) == 2 and show(n.args[0]) == node:
            kinds.add(show(n.args[1]).replace("ast.", ""))
    need = {"BoolOp", "Compare", "UnaryOp", "Name", "Constant"}
    rep.check(need <= kinds, "C08.build", fn.loc(), "build_expression has a branch for every node kind of the guard grammar", fn.key,
              f"isinstance branches: {sorted(kinds)}", missing=sorted(need - kinds))
    paths = ctx.paths(fn, inline=None, exc_edges="none", unroll=2)

    def taken(p, kind):
        """The branch of the if-chain this path ends in (the last positive isinstance on the node)."""
        pos = [xshow(b.term, p.events) for b in p.events if b.kind == "branch" and b.x["taken"]
               and xshow(b.term, p.events).startswith(f"isinstance({node}, ast.")]
        if kind == "UnaryOp" and pos and pos[-1] == f"isinstance({node}, ast.UnaryOp)":
            return any(b.kind == "branch" and b.x["taken"] and xshow(b.term, p.events) == f"isinstance({node}.op, ast.Not)" for b in p.events)
        return bool(pos) and pos[-1] == f"isinstance({node}, ast.{kind})" and kind != "UnaryOp"

    n_bool = n_cmp = 0
    for p in paths:
        evs = p.events
        rec = [e for e in p.calls() if show(e.term.func) == "build_expression"]
        if taken(p, "BoolOp"):
            its = [e for e in evs if e.kind == "iter" and e.x.get("loop") == "for"]
            if p.kind != "return":
                continue
            n_bool += 1
            ok = bool(rec) and show(rec[0].term.args[0]) == f"{node}.values[0]"
            base = show(its[0].term) if its else None
            ok = ok and (not its or base == f"{node}.values[1:]")
            acc = f"$c{rec[0].idx}" if rec else "?"
            opfn = None
            for i, it in enumerate(its):
                r = rec[i + 1] if i + 1 < len(rec) else None
                ok = ok and r is not None and show(r.term.args[0]) == show(it.x["elem"])
                comb = next((e for e in p.calls() if r is not None and e.idx > r.idx and len(e.term.args) == 2 and
                             show(e.term.args[1]) == f"$c{r.idx}"), None)
                ok = ok and comb is not None and show(comb.term.args[0]) == acc
                if comb is not None:
                    acc = f"$c{comb.idx}"
                    opfn = xshow(comb.term.func, evs)
            ok = ok and show(p.value) == acc and (opfn is None or opfn == f"operator_mapping[type({node}.op)]")
            rep.check(bool(ok), "C08.build", fn.loc(), "BoolOp: values are combined left to right, accumulator first "
                      "(so evaluation order and short-circuit are Python's)", fn.key,
                      "BoolOp path: " + "; ".join(e.show() for e in p.calls()), iterations=len(its))
        elif taken(p, "Compare"):
            if p.kind != "return":
                continue
            its = [e for e in evs if e.kind == "iter" and e.x.get("loop") == "for"]
            n_cmp += 1
            ok = bool(rec) and show(rec[0].term.args[0]) == f"{node}.left"
            zipok = not its or xshow(its[0].term, evs) == f"zip({node}.ops, {node}.comparators)"
            prev = f"$c{rec[0].idx}" if rec else "?"
            exprs = []
            for i, it in enumerate(its):
                r = rec[i + 1] if i + 1 < len(rec) else None
                elem = show(it.x["elem"])
                ok = ok and r is not None and show(r.term.args[0]) == f"{elem}[1]"
                comb = next((e for e in p.calls() if r is not None and e.idx > r.idx and len(e.term.args) == 2 and
                             show(e.term.args[1]) == f"$c{r.idx}"), None)
                lk = expand1(comb.term.func, evs) if comb is not None else None
                if isinstance(lk, ast.Call) and show(lk.func) == "operator_mapping.get" and len(lk.args) == 1:
                    # guarded lookup: `fn = operator_mapping.get(type(op))`, refused when None
                    lk_txt = f"operator_mapping[{show(expand1(lk.args[0], evs))}]"
                else:
                    lk_txt = show(lk) if lk is not None else ""
                ok = ok and comb is not None and show(comb.term.args[0]) == prev and lk_txt == f"operator_mapping[type({elem}[0])]"
                if comb is not None:
                    exprs.append(f"$c{comb.idx}")
                if r is not None:
                    prev = f"$c{r.idx}"
            v = expand1(p.value, evs)
            okr = isinstance(v, ast.Call) and show(v.func) in ("reduce", "functools.reduce") and show(v.args[0]) == "custom_and"
            rep.check(bool(ok) and zipok and okr, "C08.build", fn.loc(),
                      "Compare: `a < b < c` becomes (a < b) and (b < c): each operator applied to (previous operand, next operand), "
                      "pairs joined by conjunction", fn.key, "Compare path: " + "; ".join(e.show() for e in p.calls()), iterations=len(its))
        elif taken(p, "UnaryOp"):
            if p.kind == "return":
                v = xshow(p.value, evs)
                rep.check(v == f"operator_mapping[type({node}.op)](build_expression({node}.operand, {fn.params[1]}, {fn.params[2]}))", "C08.build",
                          fn.loc(), "not: the negation combinator wraps the translated operand", fn.key, f"return {v}")
        elif taken(p, "Name"):
            if p.kind == "return":
                v = xshow(p.value, evs)
                rep.check(v == f"{fn.params[1]}({node}.id)", "C08.build", fn.loc(), "a name is resolved through the variable hook", fn.key, f"return {v}")
        elif taken(p, "Constant"):
            if p.kind == "return":
                v = xshow(p.value, evs)
                rep.check(v == f"build_constant({node}.value)", "C08.build", fn.loc(), "a literal becomes a constant closure of its value", fn.key, f"return {v}")
    rep.floor("C08.build", "BoolOp paths", n_bool, 2)
    rep.floor("C08.build", "Compare paths", n_cmp, 2)
    fall = [p for p in paths if p.kind == "raise" and not any(taken(p, k_) for k_ in need)]
    def _is_value_error(p_):
        t_ = expand(p_.value, p_.events) if p_.value is not None else None
        nm_ = show(t_.func) if isinstance(t_, ast.Call) else show(t_)
        c_ = ctx.p.classes.get(nm_)
        return "ValueError" in nm_ or (c_ is not None and any("ValueError" in b_ for k_ in ctx.p.mro(c_) for b_ in k_.bases))

    rep.check(bool(fall) and all(_is_value_error(p) for p in fall), "C08.build", fn.loc(),
              "any other node kind is rejected with an error instead of being mis-translated", fn.key, f"{len(fall)} fall-through paths")
    unot = [n for n in own_nodes(fn.node) if isinstance(n, ast.Call) and show(n.func) == "isinstance" and show(n.args[1]) == "ast.Not"]
    rep.check(bool(unot), "C08.build", fn.loc(), "only the `not` unary operator is accepted (no -, +, ~)", fn.key, "no isinstance(node.op, ast.Not)")
    from ..shapes import closure_models

    bc = ctx.fn("build_constant")
    cms = closure_models(ctx, bc)
    if not cms:
        raise AnalysisError("anchor lost: closure of build_constant")
    dec = cms[0].fn
    for p in cms[0].paths(ctx, inline=None, exc_edges="none"):
        rep.check(p.kind == "return" and show(p.value) == bc.params[0], "C08.build", dec.loc(), "a constant closure returns the literal's value", dec.key,
                  f"return {show(p.value)}")


def rule_fast(ctx: Ctx):
    rep = ctx.rep
    fn = ctx.fn("parse_boolean_expr")
    expr = fn.params[0]
    hook = fn.params[1]
    n = 0
    parsed = False
    for p in ctx.paths(fn, inline=None, exc_edges="none"):
        evs = p.events
        shortcut = p.kind == "return" and xshow(p.value, evs) == f"{hook}({expr})"
        if any(show(e.term.func) == "ast.parse" for e in p.calls()):
            parsed = True
            v = expand1(p.value, evs) if p.kind == "return" else None
            pc = next(e for e in p.calls() if show(e.term.func) == "ast.parse")
            ok = isinstance(v, ast.Call) and show(v.func) == "build_expression" and show(v.args[0]) == f"$c{pc.idx}.body" and \
                xshow(pc.term.args[0], evs) == f"replace_operators({expr})" and any(kw.arg == "mode" and show(kw.value) == "'eval'" for kw in pc.term.keywords)
            rep.check(ok, "C08.fast", fn.loc(), "the general path rewrites operator spellings, parses with Python's own parser and translates the tree",
                      fn.key, f"return {show(v)}")
            continue
        if not shortcut:
            continue
        n += 1
        facts = {xshow(b.term, evs): b.x["taken"] for b in p.of("branch")}
        ident = facts.get(f"{expr}.isidentifier()") is True
        nokw = any(k in (f"iskeyword({expr})", f"keyword.iskeyword({expr})") and v is False for k, v in facts.items())
        if ident and nokw:
            rep.ok("C08.fast", fn.loc(), "the plain-name shortcut is taken only for a non-keyword identifier", conditions=[f"{k}=={v}" for k, v in facts.items()])
        elif ident:
            rep.violation("C08.fast", fn.loc(), "the shortcut also takes keywords (`True`, `False`, `None`, `not`): a lone literal is looked up as a name and rejected",
                          fn.key, "shortcut guarded by isidentifier() only", conditions=[f"{k}=={v}" for k, v in facts.items()])
        else:
            absent = {k for k, v in facts.items() if v is False and k.endswith(f" in {expr}")}
            if absent or not facts:
                rep.violation("C08.fast", fn.loc(), "the plain-name shortcut is guarded by character tests that do not imply a single name "
                              "(`x>=1`, `p^q`, `(p)`, `True` would be looked up as names)", fn.key,
                              "shortcut guarded by: " + (", ".join(f"{k}=={v}" for k, v in facts.items()) or "nothing"))
            else:
                rep.unrecognised("C08.fast", fn.loc(), "shortcut guard " + ", ".join(f"{k}=={v}" for k, v in facts.items()))
    rep.check(parsed, "C08.fast", fn.loc(), "expressions that are not plain names reach the parser", fn.key, "no path calls ast.parse")
    empty = [p for p in ctx.paths(fn, inline=None, exc_edges="none") if p.kind == "raise" and "SyntaxError" in xshow(p.value, p.events)]
    rep.check(bool(empty), "C08.fast", fn.loc(), "an empty expression is a SyntaxError (converted to InvalidDefinition by the caller)", fn.key,
              "no SyntaxError path")


def rule_when(ctx: Ctx):
    rep, k = ctx.rep, ctx.k
    g = callgraph(ctx)
    pbe = ctx.fn("parse_boolean_expr")
    callers = g.callers(pbe)
    rep.floor("C08.when", "callers of parse_boolean_expr", len(callers), 1)
    for c, node, how in callers:
        ok_c = c.qualname == "Listeners.build" or (ctx.is_new(c) and g.only_reached_through(c, {"build"}, {"Listeners"})[0])
        rep.check(ok_c, "C08.when", c.loc(node), "expressions are parsed only while resolving listeners", c.key, norm_stmt(node))
    roots = [ctx.fn("Event.__call__")] + [k.engine_fn(e, nm) for e in k.engines for nm in ("processing_loop", "_trigger", "_activate")]
    reach = g.reachable(roots)
    rep.check(pbe not in reach and ctx.fn("Listeners.build") not in reach, "C08.when", pbe.loc(),
              "no parsing is reachable from event processing (errors surface at instantiation, never when an event arrives)",
              pbe.key, "parse_boolean_expr reachable from the event path")
    build = ctx.fn("Listeners.build")
    ok = False
    for p in ctx.paths(build, inline=None, exc_edges="try"):
        evs = p.events
        pc = next((e for e in p.calls() if show(e.term.func) == "parse_boolean_expr"), None)
        if pc is None or p.kind != "raise":
            continue
        thrown = pc.idx + 1 < len(evs) and evs[pc.idx + 1].kind == "throw"
        handled = [e for e in evs if e.kind == "handler" and e.idx > pc.idx and e.term is not None and "SyntaxError" in show(e.term)]
        r = next((e for e in evs if e.kind == "raise" and e.idx > pc.idx and not e.x.get("reraise")), None)
        if thrown and handled and r is not None and "InvalidDefinition" in xshow(r.term, evs) and r.x.get("cause"):
            ok = True
    rep.check(ok, "C08.when", build.loc(), "a SyntaxError of the expression becomes InvalidDefinition (chained to the original error)", build.key,
              "no `except SyntaxError: raise InvalidDefinition(...) from err` around the parser call")
    # ... and so does everything the translator itself refuses: what build_expression raises for a node kind or a comparison
    # operator outside the grammar is of a class the same handler catches (a bare KeyError/ValueError would reach the user as is)
    be = ctx.fn("build_expression")
    raised = set()
    for n_ in own_nodes(be.node):
        if isinstance(n_, ast.Raise) and n_.exc is not None:
            raised.add(show(n_.exc.func) if isinstance(n_.exc, ast.Call) else show(n_.exc))
    # `raise _helper(node)`: a helper that builds the exception stands for the classes it returns
    for r_ in sorted(raised):
        hf = ctx.p.find_fn(r_) if r_ not in ctx.p.classes else None
        if hf is not None and not isinstance(hf.node, ast.Lambda):
            rets = {show(x_.value.func) for x_ in own_nodes(hf.node) if isinstance(x_, ast.Return) and isinstance(x_.value, ast.Call)}
            if rets:
                raised.discard(r_)
                raised |= rets
    caught = set()
    for n_ in [x_ for c_fn, _n, _h in callers for x_ in own_nodes(c_fn.node)]:
        if isinstance(n_, ast.Try) and any(isinstance(c_, ast.Call) and show(c_.func) == "parse_boolean_expr" for b_ in n_.body for c_ in ast.walk(b_)):
            for h in n_.handlers:
                if h.type is None:
                    caught.add("*")
                elif isinstance(h.type, ast.Tuple):
                    caught |= {show(e_) for e_ in h.type.elts}
                else:
                    caught.add(show(h.type))

    def _covered(name):
        if "*" in caught or name in caught or "Exception" in caught:
            return True
        c = ctx.p.classes.get(name)
        return c is not None and any(b.split(".")[-1] in caught for k_ in ctx.p.mro(c) for b in [k_.name] + list(k_.bases))

    missing = sorted(r_ for r_ in raised if not _covered(r_))
    rep.check(bool(raised) and not missing, "C08.when", be.loc(), "what the translator raises for a construct outside the grammar is caught where the "
              "expression is parsed and reported as InvalidDefinition", be.key, f"raised: {sorted(raised)}; caught around the parser: {sorted(caught)}",
              not_caught=missing)
    subs = [n_ for n_ in own_nodes(be.node) if isinstance(n_, ast.Subscript) and isinstance(n_.ctx, ast.Load) and show(n_.value) == be.params[2]
            and "right_op" in show(n_.slice) or (isinstance(n_, ast.Subscript) and isinstance(n_.ctx, ast.Load) and show(n_.value) == be.params[2]
                                                  and isinstance(n_.slice, ast.Call) and show(n_.slice.func) == "type"
                                                  and not any(isinstance(b_, ast.Compare) for b_ in own_nodes(be.node) if False))]
    cmp_lookup = [n_ for n_ in own_nodes(be.node) if isinstance(n_, ast.Subscript) and isinstance(n_.ctx, ast.Load) and show(n_.value) == be.params[2]
                  and isinstance(n_.slice, ast.Call) and show(n_.slice.func) == "type" and show(n_.slice.args[0]) not in ("node.op",)]
    rep.check(not cmp_lookup, "C08.when", be.loc(), "a comparison operator outside the grammar (`in`, `is`) is refused by the translator's own error, "
              "not by a KeyError of the operator table", be.key, "; ".join(show(x) for x in cmp_lookup) or "table lookups are guarded")
    # unknown names: recorded, nothing yielded, check() raises
    from ..shapes import consistent_lengths

    tk = ctx.fn("Listeners._take_callback")
    rec = False
    handler_param = tk.params[2] if len(tk.params) > 2 else "names_not_found_handler"
    for p in ctx.paths(tk, inline=None, exc_edges="none", loops_for_comps=True):
        evs = p.events
        hs = [e for e in p.calls() if show(e.term.func) == handler_param]
        lst = next((f"$l{e.idx}" for e in evs if e.kind == "alloc" and isinstance(e.term, ast.List)), None)
        n_it = len([e for e in evs if e.kind == "iter" and e.x.get("loop") == "for"])
        want = [n_it] if n_it < 2 else [2, 3]
        if lst is not None and not (set(consistent_lengths(p, lst)) & set(want)):
            continue  # the length tests on this path contradict the number of providers found
        if hs:
            rec = True
            rep.check(n_it == 0, "C08.when", tk.loc(), "a name no provider has is reported through the not-found handler (and only such a name)", tk.key,
                      f"handler called on a path with {n_it} providers")
        elif n_it == 0 and p.kind == "return":
            rep.violation("C08.when", tk.loc(), "a name no provider has is silently accepted (not reported as missing)", tk.key,
                          f"return {xshow(p.value, evs)} without calling the not-found handler")
    rep.check(rec, "C08.when", tk.loc(), "names without provider are recorded", tk.key, "names_not_found_handler never called")
    n_y = 0
    for p in ctx.paths(build, inline=None, exc_edges="none"):
        evs = p.events
        parsed = next((e for e in p.calls() if show(e.term.func) == "parse_boolean_expr"), None)
        if parsed is None:
            continue  # not the boolean-expression branch
        ys = [e for e in p.of("yield") if not e.x.get("from") and e.idx > parsed.idx]
        if not ys:
            continue
        n_y += 1
        # the set that collects the names no provider has: a fresh set() created before parsing
        holders = [f"$c{e.idx}" for e in p.calls() if show(e.term.func) == "set" and not e.term.args and e.idx < parsed.idx]
        facts = {show(b.term): b.x["taken"] for b in p.of("branch")}
        ok = any(facts.get(h) is False for h in holders) and facts.get(f"$c{parsed.idx}") is True
        rep.check(ok, "C08.when", ys[0].loc(), "an expression is registered only when it was built and every name in it was found", build.key,
                  norm_stmt(ys[0].node), facts=[f"{xshow(ast.parse(k, mode='eval').body, evs) if not k.startswith('$') else k}=={v}" for k, v in facts.items()][-3:])
    rep.floor("C08.when", "yielding paths of Listeners.build for expressions", n_y, 1)
    chk = ctx.fn("CallbacksRegistry.check")
    raises = [p for p in ctx.paths(chk, inline=None, exc_edges="none") if p.kind == "raise"]
    rep.check(len(raises) >= 1 and all("AttrNotFound" in xshow(p.value, p.events) for p in raises), "C08.when", chk.loc(),
              "a non-convention spec with no resolved callback raises AttrNotFound (an InvalidDefinition)", chk.key, f"{len(raises)} raising paths")
    an = ctx.p.cls("AttrNotFound")
    rep.check("InvalidDefinition" in an.bases, "C08.when", f"{an.module.rel}:{an.node.lineno} AttrNotFound", "AttrNotFound is an InvalidDefinition",
              f"{an.module.rel}::AttrNotFound", f"class AttrNotFound({', '.join(an.bases)})")
    rc = ctx.fn("StateMachine._register_callbacks")
    n_chk = 0
    for p in ctx.paths(rc, inline=None, exc_edges="none", unroll=1):
        for e in p.calls():
            if xshow(e.term.func, p.events) in ("self._callbacks.check",):
                n_chk += 1
    rep.check(n_chk > 0, "C08.when", rc.loc(), "every spec list is checked when the machine is instantiated", rc.key, "no call of registry.check")
    init = ctx.fn("StateMachine.__init__")
    calls_rc = any(isinstance(n, ast.Call) and show(n.func) == "self._register_callbacks" for n in own_nodes(init.node))
    rep.check(calls_rc, "C08.when", init.loc(), "callbacks are resolved and checked in the constructor", init.key, "no _register_callbacks call")


def rule_fresh(ctx: Ctx):
    rep = ctx.rep
    am = ctx.fn("attr_method")
    inner = next((f for f in am.module.all_functions if f.parent is am), None)
    if inner is None:
        raise AnalysisError("anchor lost: closure of attr_method")
    attribute, obj = am.params[0], am.params[1]

    def reads(node):
        out = []
        for n in own_nodes(node):
            if isinstance(n, ast.Call):
                f = show(n.func)
                if f == "getattr" and len(n.args) >= 2 and show(n.args[0]) == obj:
                    out.append(n)
                elif f == "getter" and n.args and show(n.args[0]) == obj:
                    out.append(n)
                elif isinstance(n.func, ast.Call) and show(n.func.func) == "attrgetter" and n.args and show(n.args[0]) == obj:
                    out.append(n)
        return out

    outer_reads = reads(am.node)
    inner_reads = reads(inner.node)
    rep.check(not outer_reads, "C08.fresh", am.loc(), "the attribute is not read when the guard is built", am.key,
              "; ".join(norm_stmt(n) for n in outer_reads) or "-")
    rep.check(len(inner_reads) >= 1, "C08.fresh", inner.loc(), "the attribute is read inside the closure, i.e. at every evaluation", inner.key,
              "closure does not read the attribute")
    for p in ctx.paths(inner, inline=None, exc_edges="none"):
        v = xshow(p.value, p.events) if p.kind == "return" else ""
        rep.check(v in (f"getter({obj})", f"getattr({obj}, {attribute})"), "C08.fresh", inner.loc(), "the closure returns the current attribute value",
                  inner.key, f"return {v}")


def rule_identity(ctx: Ctx):
    """C08.identity: what makes two guard entries 'the same' must include everything that changes their
    meaning - the polarity (cond vs unless) and, for expressions, the structure of the expression."""
    rep = ctx.rep
    eq = ctx.fn("CallbackSpec.__eq__")
    from ..shapes import eq_implies

    ok_eq, src, _atoms = eq_implies(ctx, eq, ["expected_value"])
    rep.check(ok_eq, "C08.identity", eq.loc(),
              "a `cond` entry and an `unless` entry naming the same thing are different guards (polarity is part of the spec identity)",
              eq.key, f"return {src}")
    add = ctx.fn("CallbacksExecutor.add")
    n = 0
    for p in ctx.paths(add, inline=None, exc_edges="none"):
        for b in p.of("branch"):
            t = b.term
            if isinstance(t, ast.Compare) and isinstance(t.ops[0], ast.In) and "items_already_seen" in show(t.comparators[0]):
                n += 1
                key = xshow(t.left, p.events)
                rep.check("expected_value" in key and add.params[1] in key, "C08.identity", b.loc(),
                          "the executor's duplicate test distinguishes the guard polarity as well as the provider key", add.key,
                          f"seen-test on `{key}`")
    rep.floor("C08.identity", "duplicate tests in CallbacksExecutor.add", n, 1)
    uk = ctx.fn("_unique_key")
    for p in ctx.paths(uk, inline=None, exc_edges="none"):
        if p.kind != "return":
            continue
        v = expand(p.value, p.events)
        ok = False
        if isinstance(v, ast.JoinedStr) and v.values:
            first, last = v.values[0], v.values[-1]
            ok = isinstance(first, ast.Constant) and isinstance(first.value, str) and first.value.startswith(("(", "[")) and \
                isinstance(last, ast.Constant) and isinstance(last.value, str) and last.value.endswith((")", "]"))
        rep.check(ok, "C08.identity", uk.loc(), "the key of a binary sub-expression is bracketed, so differently nested expressions get different keys "
                  "(`a and (b or c)` vs `(a and b) or c`)", uk.key, f"return {show(v)}")
    bc = ctx.fn("build_constant")
    n_k = 0
    for p in ctx.paths(bc, inline=None, exc_edges="none"):
        for e in p.of("store"):
            if e.x.get("attr") == "unique_key":
                n_k += 1
                v = xshow(e.x["value"], p.events)
                prm = bc.params[0]
                ok = v in (f"repr({prm})", f"f'{{{prm}!r}}'") or (v.startswith("f'") and f"{{{prm}!r}}" in v)
                rep.check(ok, "C08.identity", e.loc(), "the key of a literal tells values of different types apart (`'1'` and `1`, `'None'` and "
                          "`None`): it is the literal's repr, not its str - otherwise two different guards of one transition get the same key "
                          "and the second is dropped as a duplicate", bc.key, f"unique_key = {v}")
    rep.floor("C08.identity", "key of a literal", n_k, 1)
    cn = ctx.fn("custom_not")
    for n_ in own_nodes(cn.node):
        if isinstance(n_, ast.Assign) and any(show(t).endswith(".unique_key") for t in n_.targets):
            v = n_.value
            ok = isinstance(v, ast.JoinedStr) and isinstance(v.values[0], ast.Constant) and "(" in v.values[0].value and \
                isinstance(v.values[-1], ast.Constant) and v.values[-1].value.endswith(")")
            rep.check(ok, "C08.identity", cn.loc(n_), "the key of a negation brackets its operand", cn.key, norm_stmt(n_))


def rule_conjunction(ctx: Ctx):
    from . import c15

    c01.rule_allof(ctx, rule="C08.conj")
    c01.rule_expected(ctx, rule="C08.conj")
    c15.rule_copy(ctx, rule="C08.conj")
    # under the async engine a guard's verdict is the awaited value, whatever kind of callable produced the awaitable
    from . import c05

    c05.rule_wrapper(ctx, rule="C08.conj")


def rule_evaluated_each_time(ctx: Ctx):
    """C08.fresh: a guard is evaluated at every evaluation, with current values: what the executor stores for a guard is the
    built callable itself, not a memo around it."""
    from . import c01

    c01.rule_stored_callable(ctx, rule="C08.fresh")
    # ... and decided for every instance from that instance's own providers: the class-level specs a guard is declared by are
    # not written by instance-time code (a "resolved" mark left by the first instance would exempt later ones from the check)
    from . import c16

    c16.rule_defwrite(ctx, rule="C08.fresh", only={"CallbackSpec", "CallbackSpecList", "SpecListGrouper"})


def rule_names_from_any_provider(ctx: Ctx):
    """C08.when: an expression is accepted when every name has a provider - machine, model and constructor listeners are one
    provider set, resolved together (an expression mixing names of two of them must not be rejected, nor lose a provider)."""
    from . import c12

    c12.rule_samepath(ctx, rule="C08.when")


def rule_name_means_call_or_read(ctx: Ctx):
    """C08.build: a name in a guard is the provider's callable called, or the provider's attribute/property read - decided on the
    provider object's own attribute (an injected predicate stored on the instance must be called, not read as an always-true object)."""
    from . import c07

    c07.rule_provider_kind(ctx, rule="C08.build")


def rule_operators_raise_like_python(ctx: Ctx):
    """C08.optable: an expression evaluates exactly as Python evaluates it - also when Python raises (`None > 3`, a failing operand):
    no combinator or comparator of the expression tree catches an exception and answers with a verdict of its own."""
    rep = ctx.rep
    mod = _module(ctx)
    n = 0
    for f in mod.all_functions:
        if isinstance(f.node, ast.Lambda):
            continue
        top = f
        while top.parent is not None:
            top = top.parent
        if top.name not in ("custom_not", "custom_and", "custom_or", "build_constant", "build_custom_operator") and f.name != "__call__":
            continue
        n += 1
        tries = [x for x in own_nodes(f.node) if isinstance(x, ast.Try) and x.handlers]
        with_suppress = [x for x in own_nodes(f.node) if isinstance(x, ast.With) and any("suppress" in show(i_.context_expr) for i_ in x.items)]
        rep.check(not tries and not with_suppress, "C08.optable", f.loc(), f"{f.qualname}: exceptions of the operands and of the comparison itself "
                  "propagate (Python would raise too)", f.key, norm_stmt((tries + with_suppress)[0]) if (tries or with_suppress) else "no handler")
    rep.floor("C08.optable", "combinator / comparator functions", n, 6)


RULES = [rule_regex, rule_optable, rule_build, rule_fast, rule_when, rule_fresh, rule_identity, rule_conjunction, rule_evaluated_each_time, rule_names_from_any_provider, rule_operators_raise_like_python, rule_name_means_call_or_read]
