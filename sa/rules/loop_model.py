"""Abstract traces of `processing_loop` (queue / lock / trigger alphabet with lock typestate)."""

from __future__ import annotations

import ast
from dataclasses import dataclass, field
from typing import Dict, List, Optional

from ..context import Ctx
from ..kernel import expand, xshow
from ..loader import ClassInfo, FuncInfo
from ..paths import Ev, Path, show


@dataclass
class LSym:
    kind: str  # RTC? ACQ ACQ? REL QTEST POP PUT CLEAR TRIG THROW HANDLER FINALLY AWAIT RET RAISE OTHERCALL QOP
    ev: Optional[Ev]
    info: dict = field(default_factory=dict)
    locked: Optional[bool] = None  # typestate *before* this symbol

    def __repr__(self):
        extra = ""
        if self.kind in ("ACQ?", "QTEST", "RTC?"):
            extra = f"={self.info.get('taken')}"
        elif self.kind in ("POP", "QOP", "ACQ"):
            extra = f"[{self.info.get('op', '')}]"
        elif self.kind in ("RET", "RAISE", "THROW"):
            extra = f"({self.info.get('value', '')})"
        return self.kind + extra


@dataclass
class LoopPath:
    path: Path
    syms: List[LSym]
    rtc: Optional[bool]
    final_locked: bool

    def names(self) -> List[str]:
        return [repr(s) for s in self.syms]

    def kinds(self) -> List[str]:
        return [s.kind for s in self.syms]


def _no_raise_ops(ev: Ev) -> bool:
    """Exceptional edges are generated for every call except the lock/queue primitives themselves
    (trusted base: they do not raise in the typestates the rules establish)."""
    if ev.kind == "call":
        res = ev.x.get("callee")
        if res is not None and res.how == "stdlib" and any(t.split(".")[0] in ("Lock", "RLock", "deque") for t in res.tags):
            return False
        if res is not None and res.how == "stdlib" and res.tags == ["collections.deque"] and not ev.term.args:
            return False  # creating an empty deque
    return True


def queue_truth(t: ast.AST, qattr: str) -> Optional[bool]:
    """If `t` is a test of the queue's non-emptiness return True (t true => non-empty),
    False when t true => empty, None when not a queue test."""
    txt = show(t)
    q = f"self.{qattr}"
    if txt == q:
        return True
    if txt in (f"len({q}) > 0", f"len({q}) != 0", f"len({q}) >= 1", f"bool({q})", f"len({q})"):
        return True
    if txt in (f"len({q}) == 0", f"not {q}", f"len({q}) < 1"):
        return False
    return None


def loop_paths(ctx: Ctx, engine: ClassInfo, exc_edges="try", base_exc=False) -> (FuncInfo, List[LoopPath]):
    k = ctx.k
    fn = k.engine_fn(engine, "processing_loop")
    paths = ctx.paths(fn, exc_edges=exc_edges, base_exc=base_exc, may_raise=_no_raise_ops)
    out: List[LoopPath] = []
    for p in paths:
        evs = p.events
        syms: List[LSym] = []
        locked = False
        rtc = None
        acq_ids: Dict[str, Ev] = {}
        for e in evs:
            s = None
            lop = k.self_attr_op(e, k.lock_attr)
            qop = k.self_attr_op(e, k.queue_attr)
            if lop == "acquire":
                a = e.term
                nonblocking = any(kw.arg == "blocking" and isinstance(kw.value, ast.Constant) and kw.value.value is False
                                  for kw in a.keywords) or (a.args and isinstance(a.args[0], ast.Constant) and a.args[0].value is False)
                s = LSym("ACQ", e, {"op": "nonblocking" if nonblocking else "blocking", "call": show(a)})
                acq_ids[f"$c{e.idx}"] = e
            elif lop in ("release", "__exit__"):
                s = LSym("REL", e)
            elif lop == "__enter__":
                s = LSym("ACQ", e, {"op": "blocking", "call": "with " + show(e.term.func.value)})
            elif lop is not None:
                s = LSym("LOCKOP", e, {"op": lop})
            elif qop in ("popleft", "pop"):
                s = LSym("POP", e, {"op": qop, "id": f"$c{e.idx}"})
            elif qop == "clear":
                s = LSym("CLEAR", e)
            elif qop is not None:
                s = LSym("QOP", e, {"op": qop})
            elif e.kind == "store" and k.is_self_attr(e.term, k.queue_attr):
                v = expand(e.x["value"], evs)
                fresh = isinstance(v, ast.Call) and show(v.func) in ("deque", "collections.deque") and not v.args
                s = LSym("CLEAR" if fresh else "QOP", e, {"op": "rebind", "value": show(v)})
            elif k.calls_method(e, "_trigger"):
                s = LSym("TRIG", e, {"arg": show(e.term.args[0]) if e.term.args else "", "id": f"$c{e.idx}",
                                     "awaited": e.x.get("awaited"), "in_try": e.x.get("try")})
            elif e.kind == "branch":
                t = e.term
                if isinstance(t, ast.Name) and t.id in acq_ids:
                    s = LSym("ACQ?", e, {"taken": e.x["taken"]})
                else:
                    tx = expand(t, evs)
                    qt = queue_truth(tx, k.queue_attr)
                    if qt is not None:
                        # the observation happens where the queue is read: at the branch itself for a
                        # direct truthiness test, at the len()/bool() call when its result was kept
                        read_idx = e.idx
                        for nm in [n.id for n in ast.walk(t) if isinstance(n, ast.Name) and n.id.startswith("$c") and n.id[2:].isdigit()]:
                            read_idx = min(read_idx, int(nm[2:]))
                        s = LSym("QTEST", e, {"taken": e.x["taken"] if qt else (not e.x["taken"]), "read_idx": read_idx})
                    elif show(tx) == "self._rtc":
                        s = LSym("RTC?", e, {"taken": e.x["taken"]})
                        rtc = e.x["taken"]
                    elif show(tx).startswith("self." + k.lock_attr):
                        s = LSym("LOCKOP", e, {"op": show(tx)})
            elif e.kind == "throw":
                src = evs[e.idx - 1] if e.idx > 0 else None
                s = LSym("THROW", e, {"value": e.x["cls"], "from": src.show() if src is not None else ""})
            elif e.kind == "handler":
                s = LSym("HANDLER", e, {"type": show(e.term) if e.term is not None else "bare", "exc": e.x.get("exc")})
            elif e.kind == "finally":
                s = LSym("FINALLY", e)
            elif e.kind == "await":
                s = LSym("AWAIT", e, {"what": show(e.term)})
            elif e.kind == "call" and e.x.get("awaited"):
                s = LSym("AWAIT", e, {"what": show(e.term)})
            elif e.kind == "raise":
                s = LSym("RAISE", e, {"value": show(e.term), "reraise": e.x.get("reraise")})
            elif e.kind == "call":
                res = e.x.get("callee")
                if ctx.is_new_call(e):
                    pass  # a helper introduced later: it is inlined, its body's operations are the symbols
                elif res is not None and res.how in ("typed", "by_name", "slot", "unknown"):
                    s = LSym("OTHERCALL", e, {"call": show(e.term)})
            if s is None:
                continue
            s.locked = locked
            syms.append(s)
            if s.kind == "ACQ?" and s.info["taken"]:
                locked = True
            elif s.kind == "ACQ" and s.info["op"] == "blocking":
                locked = True
            elif s.kind == "REL":
                locked = False
            if s.kind == "TRIG" and e.x.get("awaited"):
                a = LSym("AWAIT", e, {"what": show(e.term)})
                a.locked = locked
                syms.append(a)
        if p.kind == "return":
            r = LSym("RET", None, {"value": show(p.value)})
        elif p.kind == "raise":
            r = LSym("EXIT-RAISE", None, {"value": show(p.value), "cls": p.outcome[2]})
        else:
            r = LSym("RET", None, {"value": "None"})
        r.locked = locked
        syms.append(r)
        out.append(LoopPath(p, syms, rtc, locked))
    return fn, out
