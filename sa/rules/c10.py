"""C10 - The current state is exactly what the user's model stores."""

from __future__ import annotations

import ast
from typing import List, Optional, Set, Tuple

from ..context import Ctx
from ..kernel import expand, expand1, xshow
from ..loader import AnalysisError, FuncInfo, norm_stmt
from ..paths import Path, show
from ..resolve import own_nodes

EXPLANATION = (
    "Who may read and write the state, and how: the state is read only through getattr(model, state_field, None) in the "
    "`current_state_value` getter and written only through setattr(model, state_field, v) in its setter, where a membership "
    "test against states_map with `raise InvalidStateValue` dominates the write; the `current_state` pair maps through "
    "states_map on every access and stores `state.value`; no other attribute of the machine or of an engine is assigned "
    "outside the constructors (no cached copy of the state); values that may legitimately be falsy (the model object, "
    "start_value, the stored state value, State.value) are never used in a boolean context in the state-handling modules - "
    "only `is None` / `is not None` tests; `is_active` compares states, not names. Behaviour with exotic model descriptors "
    "is not decided."
    " Added after seeded batch 9: state values are only hashed and compared for equality in the accessors and in InvalidStateValue (no sorted/min/max/< over them), and add_state refuses a second state under a value already mapped (F40)."
)
ASSUMPTIONS = ["getattr/setattr on the user's model behave as attribute access (properties included)"]
TRUSTED = ["/verif/sa path enumerator and resolver"]

FALSY_MODULES = ("statemachine/statemachine.py", "statemachine/state.py", "statemachine/engines/", "statemachine/mixins.py",
                 "statemachine/model.py")
DIAGNOSTIC = {"__repr__", "__str__", "_repr_html_", "_repr_svg_"}


def _cg(ctx: Ctx):
    from .c03 import callgraph
    return callgraph(ctx)


def rule_access(ctx: Ctx):
    rep = ctx.rep
    getter = ctx.p.find_fn("StateMachine.current_state_value")
    setter = ctx.p.find_fn("StateMachine.current_state_value", setter=True)
    sgetter = ctx.p.find_fn("StateMachine.current_state")
    ssetter = ctx.p.find_fn("StateMachine.current_state", setter=True)
    if None in (getter, setter, sgetter, ssetter):
        raise AnalysisError("anchor lost: current_state / current_state_value properties")
    for f in (getter, setter, sgetter, ssetter):
        rep.note_fn(f)
    # `getattr(m, f, None)`, or the same thing spelled `try: getattr(m, f) / except AttributeError: None`
    plain, tried, other = [], [], []
    for p in ctx.paths(getter, inline=None, exc_edges="try"):
        if p.kind != "return":
            if p.kind != "raise" or not any(e.kind == "throw" for e in p.events):
                other.append(f"{p.kind}")
            continue
        v = xshow(p.value, p.events)
        hs = [e for e in p.events if e.kind == "handler"]
        if v == "getattr(self.model, self.state_field, None)" and not hs:
            plain.append(p)
        elif v == "getattr(self.model, self.state_field)" and not hs:
            tried.append(("value", p))
        elif v == "None" and hs and all(e.term is not None and show(e.term) == "AttributeError" for e in hs) \
                and any(e.kind == "call" and xshow(e.term, p.events) == "getattr(self.model, self.state_field)" for e in p.events):
            tried.append(("default", p))
        else:
            other.append(f"return {v}")
    ok_get = not other and ((plain and not tried) or (not plain and {k_ for k_, _ in tried} == {"value", "default"}))
    rep.check(bool(ok_get), "C10.access", getter.loc(), "the state value is read from the model's state field at every access (None when never assigned)",
              getter.key, "; ".join(other) or f"{len(plain)} plain / {len(tried)} try-form paths")
    n_w = 0
    for p in ctx.paths(setter, inline=None, exc_edges="none"):
        evs = p.events
        writes = [e for e in p.calls() if show(e.term.func) == "setattr"]
        facts = {}
        for b in p.of("branch"):
            t = b.term
            if isinstance(t, ast.Compare) and len(t.ops) == 1 and isinstance(t.ops[0], ast.In) and show(t.comparators[0]) == "self.states_map":
                facts[show(t.left)] = b.x["taken"]
        val = setter.params[1]
        if writes:
            n_w += 1
            w = writes[0]
            ok = show(w.term) == f"setattr(self.model, self.state_field, {val})" and facts.get(val) is True and \
                any(b.kind == "branch" and b.idx < w.idx for b in evs)
            rep.check(ok, "C10.access", w.loc(), "a value is stored in the model only after it was found in states_map", setter.key,
                      norm_stmt(w.node), membership=facts)
        if facts.get(val) is False:
            ok = p.kind == "raise" and xshow(p.value, evs).startswith("InvalidStateValue(") and not writes
            rep.check(ok, "C10.access", setter.loc(), "an unmapped value raises InvalidStateValue and is not stored", setter.key,
                      f"unmapped value path ends with {p.kind} {xshow(p.value, evs) if p.value is not None else ''}")
    rep.floor("C10.access", "writing paths of the value setter", n_w, 1)
    for p in ctx.paths(ssetter, inline=None, exc_edges="none"):
        st = [e for e in p.of("store") if e.x.get("attr") == "current_state_value"]
        rep.check(len(st) == 1 and show(st[0].x["value"]) == f"{ssetter.params[1]}.value", "C10.access", ssetter.loc(),
                  "assigning a state stores that state's `value`", ssetter.key, "; ".join(e.show() for e in st) or "no store")
    n_r = 0
    for p in ctx.paths(sgetter, inline=None, exc_edges="try"):
        if p.kind == "return":
            n_r += 1
            v = xshow(p.value, p.events)
            rep.check(v == "self.states_map[self.current_state_value].for_instance(machine=self, cache=self._states_for_instance)",
                      "C10.access", sgetter.loc(), "the current state is looked up in states_map from the stored value at every access",
                      sgetter.key, f"return {v}")
        elif p.kind == "raise" and any(e.kind == "handler" for e in p.events):
            v = xshow(p.value, p.events)
            rep.check(v.startswith("InvalidStateValue("), "C10.access", sgetter.loc(), "an unmapped stored value raises InvalidStateValue",
                      sgetter.key, f"raise {v}")
    rep.floor("C10.access", "returning paths of the current_state getter", n_r, 1)
    # no other reader/writer of the model's state field
    n_sites = 0
    for fn in ctx.p.all_functions():
        for n in own_nodes(fn.node):
            if isinstance(n, ast.Call) and isinstance(n.func, ast.Name) and n.func.id in ("getattr", "setattr", "delattr", "hasattr") and len(n.args) >= 2:
                if "state_field" in show(n.args[1]):
                    n_sites += 1
                    want = getter if n.func.id == "getattr" else setter
                    via_helper = fn is not want and ctx.is_new(fn) and bool(_cg(ctx).callers(fn)) and \
                        all(c is want for c, _, _ in _cg(ctx).callers(fn))
                    rep.check(fn is want or via_helper, "C10.access", fn.loc(n), f"the model's state field is touched by `{n.func.id}` only inside the "
                              f"current_state_value {'getter' if n.func.id == 'getattr' else 'setter'}", fn.key, norm_stmt(n))
    rep.floor("C10.access", "accesses of the model's state field", n_sites, 2)
    fi = ctx.fn("State.for_instance")
    for p in ctx.paths(fi, inline=None, exc_edges="none"):
        stored = None
        for e in p.of("store"):
            if e.x.get("subscript"):
                stored = e
                v = xshow(e.x["value"], p.events)
                rep.check(show(e.term) == "cache[self]" and v == "InstanceState(self, machine)", "C10.access", e.loc(),
                          "the cached view wraps this state for this machine", fi.key, norm_stmt(e.node))
        if p.kind == "return":
            v = xshow(p.value, p.events)
            just_stored = stored is not None and show(p.value) == show(stored.x["value"])
            rep.check(v == "cache[self]" or just_stored, "C10.access", fi.loc(),
                      "the per-instance view of a state is cached per state definition (the remembered one, or the one just created and remembered)",
                      fi.key, f"return {v}")


def rule_mapping(ctx: Ctx, rule: str = "C10.access"):
    """C10.access (plumbing): states are looked up by their `value`; the mixin hands the model over."""
    rep = ctx.rep
    fn = ctx.fn("StateMachineMetaclass.add_state")
    seen = False
    for p in ctx.paths(fn, inline=None, exc_edges="none", unroll=1):
        for e in p.of("store"):
            if e.x.get("subscript") and xshow(e.term.value, p.events).endswith(".states_map"):
                seen = True
                rep.check(xshow(e.term.slice, p.events) == f"{fn.params[2]}.value" and show(e.x["value"]) == fn.params[2], rule, e.loc(),
                          "states_map maps a state's *value* to that state", fn.key, norm_stmt(e.node))
        apps = [e for e in p.calls() if xshow(e.term.func, p.events).endswith(".states.append")]
        ids = [e for e in p.calls() if show(e.term.func) == f"{fn.params[2]}._set_id"]
        if apps and ids:
            rep.check(ids[0].idx < apps[0].idx and show(apps[0].term.args[0]) == fn.params[2], rule, apps[0].loc(),
                      "a state gets its id (and default value) before it is registered", fn.key, norm_stmt(apps[0].node))
        break
    if not seen:
        rep.violation(rule, fn.loc(), "add_state does not fill states_map", fn.key, "no states_map[...] store")
    # the map is keyed by value: a second state under a value already taken would replace the first (a transition into the
    # first would land in the second; a stored value would resume the wrong one), so it is refused at class definition
    refused = False
    for p in ctx.paths(fn, inline=None, exc_edges="none", unroll=1):
        if p.kind == "raise" and "InvalidDefinition" in xshow(p.value, p.events) and \
                any("states_map" in xshow(b.term, p.events) for b in p.of("branch") if b.term is not None) and \
                not any(e.kind == "store" and e.x.get("subscript") and xshow(e.term.value, p.events).endswith(".states_map") for e in p.events):
            refused = True
    rep.check(refused, rule, fn.loc(), "a state whose value is already mapped to another state is refused with InvalidDefinition (two states "
              "under one value: the later one would shadow the earlier in every lookup by value)", fn.key, "no collision test on states_map before the store")
    # states_map is the set of valid model contents: every key put into it, anywhere, is the `value` of the state it maps to
    n_w = 0
    for f in ctx.p.all_functions():
        if isinstance(f.node, ast.Lambda):
            continue
        for node in own_nodes(f.node):
            key = val = None
            if isinstance(node, ast.Subscript) and isinstance(node.ctx, ast.Store) and isinstance(node.value, ast.Attribute) and node.value.attr == "states_map":
                key = node.slice
                par = next((a for a in own_nodes(f.node) if isinstance(a, ast.Assign) and any(t is node for t in a.targets)), None)
                val = par.value if par is not None else None
            elif isinstance(node, ast.Call) and isinstance(node.func, ast.Attribute) and isinstance(node.func.value, ast.Attribute) \
                    and node.func.value.attr == "states_map" and node.func.attr in ("setdefault", "update", "__setitem__", "pop", "clear", "popitem"):
                if node.func.attr in ("setdefault", "__setitem__") and len(node.args) == 2:
                    key, val = node.args
                else:
                    n_w += 1
                    rep.violation(rule, f.loc(node), f"states_map is changed with `.{node.func.attr}(...)`: its keys are exactly the declared "
                                  "states' values", f.key, norm_stmt(node))
                    continue
            if key is None:
                continue
            n_w += 1
            ok = isinstance(key, ast.Attribute) and key.attr == "value" and val is not None and show(key.value) == show(val)
            rep.check(ok, rule, f.loc(node), "every key of states_map is the `value` of the state it maps to (nothing else is a valid "
                      "model content: an id, a name or an alias stored there would be accepted and resolved)", f.key, norm_stmt(node))
    rep.floor(rule, "writes of states_map in the package", n_w, 1)
    sid = ctx.fn("State._set_id")
    for p in ctx.paths(sid, inline=None, exc_edges="none"):
        facts = {xshow(b.term, p.events): b.x["taken"] for b in p.of("branch")}
        st = [e for e in p.of("store") if e.x.get("attr") == "value"]
        if st:
            rep.check(facts.get("self.value is None") is True and show(st[0].x["value"]) == sid.params[1], rule, st[0].loc(),
                      "a state's value defaults to its id only when no value was given (None-test)", sid.key, norm_stmt(st[0].node), facts=facts)
    mm = ctx.fn("MachineMixin.__init__")
    ok = False
    for p in ctx.paths(mm, inline=None, exc_edges="none"):
        for e in p.calls():
            f = show(expand1(e.term.func, p.events)) if isinstance(e.term.func, ast.Name) else ""
            if f.startswith(("registry.get_machine_cls(", "get_machine_cls(")):
                kw = {k.arg: show(k.value) for k in e.term.keywords}
                ok = e.term.args and show(e.term.args[0]) == "self" and kw.get("state_field") == "self.state_field_name"
                rep.check(bool(ok), rule, e.loc(), "MachineMixin builds the machine over the model instance itself and its configured state field",
                          mm.key, norm_stmt(e.node))
    if not ok:
        rep.violation(rule, mm.loc(), "MachineMixin does not hand the model to the machine", mm.key, "no machine_cls(self, state_field=...) call")


def rule_written_value(ctx: Ctx):
    """C10.access: after every executed transition the field holds the target's value (one write of
    `transition.target` per executed transition, internal ones included; only the setters touch the field)."""
    from . import c01

    c01.rule_write(ctx, rule="C10.access")


SM_ATTRS = {"model", "state_field", "start_value", "allow_event_without_transition", "_callbacks", "_states_for_instance", "_listeners", "_engine"}
ENGINE_ATTRS_MIN = 4


def rule_noshadow(ctx: Ctx):
    rep, k = ctx.rep, ctx.k
    sm = ctx.p.cls("StateMachine")
    n = 0
    for ms in sm.methods.values():
        for m in ms:
            if m.name in ("__repr__", "__str__", "_repr_html_", "_repr_svg_", "_graph"):
                continue
            if ctx.is_new(m):
                continue  # a helper method introduced later: seen through inlining at its call sites
            seen = set()
            for p in ctx.paths(m, inline=None, exc_edges="none", unroll=1):
                for e in p.of("store"):
                    attr = e.x.get("attr")
                    if not attr or show(e.term.value) != "self" or (attr, e.line) in seen:
                        continue
                    seen.add((attr, e.line))
                    n += 1
                    if attr in ("current_state", "current_state_value"):
                        continue  # property setters (C01.write / C10.access)
                    if m.name in ("__init__", "__setstate__"):
                        rep.check(attr in SM_ATTRS, "C10.noshadow", e.loc(),
                                  f"constructor attribute `{attr}` is one of the known per-instance fields (none of them holds the state)",
                                  m.key, norm_stmt(e.node), known=sorted(SM_ATTRS))
                    else:
                        rep.violation("C10.noshadow", e.loc(), f"`self.{attr}` is assigned outside the constructor "
                                      "(a cached copy of state can diverge from the model)", m.key, norm_stmt(e.node))
    rep.floor("C10.noshadow", "attribute stores in StateMachine", n, 8)
    for c in [k.base] + k.engines:
        for ms in c.methods.values():
            for m in ms:
                if m.name == "__init__":
                    continue
                if isinstance(m.node, ast.Lambda) or ctx.is_new(m):
                    continue
                seen_e = set()
                for p in ctx.paths(m, inline=None, exc_edges="none", unroll=1):
                    for e in p.of("store"):
                        attr = e.x.get("attr")
                        if not attr or show(e.term.value) != "self" or attr == k.queue_attr or (attr, e.line) in seen_e:
                            continue
                        seen_e.add((attr, e.line))
                        # an engine may remember things (e.g. the trigger it queued); what it must not keep is a copy of the state
                        v = xshow(e.x["value"], p.events)
                        from_state = any(w in v for w in ("current_state", "state_field", ".model", "states_map", ".state"))
                        rep.check(not from_state, "C10.noshadow", e.loc(),
                                  f"engine attribute `self.{attr}` assigned outside the constructor does not hold (a value derived from) the state",
                                  m.key, norm_stmt(e.node), value=v[:120])
    rep.ok("C10.noshadow", "engines", "engines assign no attribute outside their constructors (besides the queue)")
    # the instance view delegates, it stores nothing about activity
    inst = ctx.p.cls("InstanceState")
    init = inst.method("__init__")
    attrs = {t.attr for n in own_nodes(init.node) if isinstance(n, ast.Assign) for t in n.targets if isinstance(t, ast.Attribute)}
    rep.check(attrs <= {"_state", "_machine"}, "C10.noshadow", init.loc(), "an InstanceState holds only references to its state and machine", init.key,
              f"attributes: {sorted(attrs)}")


def _watched(t: ast.AST, ctx: Ctx, fn: FuncInfo, evs) -> Optional[str]:
    """Name of the may-be-falsy value when `t` (expanded) is one."""
    x = expand(t, evs)
    txt = show(x)
    if txt in ("model", "start_value", "self.model", "self.start_value", "self.current_state_value", "self.sm.current_state_value",
               "self.sm.model", "self.sm.start_value", "machine.current_state_value", "self.machine.current_state_value"):
        return txt
    if txt.startswith("getattr(") and "state_field" in txt:
        return txt
    if isinstance(x, ast.Attribute) and x.attr == "value":
        ty = ctx.r.typeof(x.value, fn, evs)
        if ty & {"State", "InstanceState", "AnyState"} or show(x.value) in ("state", "self", "self.initial_state", "value", "target", "source") \
                and (fn.cls is None or fn.cls.name in ("State", "InstanceState", "StateMachine", "BaseEngine", "SyncEngine", "AsyncEngine")):
            if show(x.value) == "self" and (fn.cls is None or fn.cls.name not in ("State", "InstanceState", "AnyState")):
                return None
            return txt
    return None


def _truthiness_uses(p: Path):
    """(event, term) pairs where a term is used for its truth value."""
    for e in p.events:
        if e.kind == "branch":
            yield e, e.term
        terms = []
        if e.kind in ("bind", "return", "raise", "yield"):
            terms.append(e.term)
        elif e.kind == "store":
            terms.append(e.x.get("value"))
        elif e.kind == "call":
            terms.extend(list(e.term.args) + [kw.value for kw in e.term.keywords])
            if show(e.term.func) == "bool" and e.term.args:
                yield e, e.term.args[0]
        for t in terms:
            if t is None:
                continue
            for n in ast.walk(t):
                if isinstance(n, ast.BoolOp):
                    for v in n.values[:-1]:
                        yield e, v
                elif isinstance(n, ast.UnaryOp) and isinstance(n.op, ast.Not):
                    yield e, n.operand
                elif isinstance(n, ast.IfExp):
                    yield e, n.test


def rule_falsy(ctx: Ctx):
    rep = ctx.rep
    n_fn = n_uses = 0
    for fn in ctx.p.all_functions():
        if not fn.module.rel.startswith(FALSY_MODULES) or fn.name in DIAGNOSTIC or isinstance(fn.node, ast.Lambda):
            continue
        n_fn += 1
        bad = {}
        unrec = {}
        for p in ctx.paths(fn, inline=None, exc_edges="none", unroll=1):
            for e, t in _truthiness_uses(p):
                n_uses += 1
                w = _watched(t, ctx, fn, p.events)
                if w is not None:
                    bad[(getattr(e.node, "lineno", 0), w)] = e
                # `!= None` / `== None` call user __eq__/__ne__: not an accepted None-test
                if isinstance(t, ast.Compare) and len(t.ops) == 1 and isinstance(t.ops[0], (ast.Eq, ast.NotEq)):
                    sides = [t.left, t.comparators[0]]
                    if any(isinstance(s_, ast.Constant) and s_.value is None for s_ in sides):
                        other = next(s_ for s_ in sides if not (isinstance(s_, ast.Constant) and s_.value is None))
                        w2 = _watched(other, ctx, fn, p.events)
                        if w2 is not None:
                            unrec[(getattr(e.node, "lineno", 0), w2)] = e
        for (line, w), e in bad.items():
            rep.violation("C10.falsy", e.loc(), f"`{w}` is used for its truth value: a valid falsy value (0, '', an empty model) is treated as missing",
                          fn.key, norm_stmt(_stmt_line(fn, e.node)), value=w)
        for (line, w), e in unrec.items():
            rep.unrecognised("C10.falsy", e.loc(), f"`{w}` compared with None by ==/!= (calls user __eq__); use `is None`")
        if not bad:
            rep.ok("C10.falsy", fn.loc(), f"{fn.qualname}: no truthiness test on model / start_value / state values")
    rep.floor("C10.falsy", "functions scanned", n_fn, 60)
    rep.count("truthiness_uses_examined", n_uses)
    rule_model_choice(ctx, rule="C10.falsy")


def rule_model_choice(ctx: Ctx, rule: str = "C10.falsy"):
    rep = ctx.rep
    # the site that selects a default model must be a None-test
    init = ctx.fn("StateMachine.__init__")
    found = False
    for p in ctx.paths(init, inline=None, exc_edges="none"):
        for e in p.of("store"):
            if e.x.get("attr") == "model":
                found = True
                facts = {show(b.term): b.x["taken"] for b in p.events[: e.idx] if b.kind == "branch"}
                v = xshow(e.x["value"], p.events)
                if v == "model":
                    rep.check(facts.get("model is None") is False or not facts, rule, e.loc(), "the user's model object is the one used whenever one was given",
                              init.key, norm_stmt(e.node), facts=facts)
                else:
                    rep.check(facts.get("model is None") is True, rule, e.loc(), "a default Model() is created only when no model was given (None)",
                              init.key, norm_stmt(e.node), facts=facts, value=v)
    if not found:
        raise AnalysisError("anchor lost: assignment of self.model in StateMachine.__init__")


def _stmt_line(fn: FuncInfo, node):
    best = node
    for st in ast.walk(fn.node):
        if isinstance(st, ast.stmt) and not isinstance(st, (ast.FunctionDef, ast.AsyncFunctionDef, ast.ClassDef, ast.If, ast.For, ast.While, ast.Try, ast.With)):
            if any(x is node for x in ast.walk(st)):
                best = st
    return best


def rule_active(ctx: Ctx):
    rep = ctx.rep
    fn = ctx.p.find_fn("InstanceState.is_active")
    if fn is None:
        raise AnalysisError("anchor lost: InstanceState.is_active")
    rep.note_fn(fn)
    for p in ctx.paths(fn, inline=None, exc_edges="none"):
        v = expand(p.value, p.events) if p.kind == "return" else None
        ok = isinstance(v, ast.Compare) and len(v.ops) == 1 and isinstance(v.ops[0], ast.Eq)
        if ok:
            sides = {show(v.left), show(v.comparators[0])}
            ok = sides == {"self._machine().current_state", "self"}
        rep.check(bool(ok), "C10.active", fn.loc(), "is_active compares the machine's current state with this state (states, not names or ids)",
                  fn.key, f"return {show(v)}")
    eq = ctx.fn("State.__eq__")
    for p in ctx.paths(eq, inline=None, exc_edges="none"):
        pass
    from ..shapes import eq_implies

    ok_eq, src, _atoms = eq_implies(ctx, eq, ["id"])
    rep.check(ok_eq, "C10.active", eq.loc(),
              "two states are equal only if their ids are (ids are unique within a machine, so exactly one state is active)", eq.key, f"return {src}")
    ieq = ctx.fn("InstanceState.__eq__")
    srcs = {xshow(p.value, p.events) for p in ctx.paths(ieq, inline=None, exc_edges="none") if p.kind == "return"}
    rep.check(srcs <= {f"self._state() == {ieq.params[1]}", f"{ieq.params[1]} == self._state()"} and bool(srcs), "C10.active", ieq.loc(),
              "an instance view compares as the state it wraps", ieq.key, "return " + " | ".join(sorted(srcs)))


def rule_start_value(ctx: Ctx):
    """C10.access: the state the machine starts in is looked up under the start value exactly as given (state values may be
    objects that carry a `.value` of their own, e.g. Enum members)."""
    from . import c11

    c11.rule_target(ctx, rule="C10.access")


def rule_default_model(ctx: Ctx):
    """C10.access: the default model is a plain object that can hold the state under *any* `state_field`: no `__slots__`, no
    attribute hooks."""
    rep = ctx.rep
    m = ctx.p.classes.get("Model")
    if m is None:
        raise AnalysisError("anchor lost: class Model (the default model)")
    restricted = sorted(a for a in m.class_assigns if a in ("__slots__",)) + sorted(
        n for n in m.methods if n in ("__setattr__", "__getattr__", "__getattribute__", "__delattr__", "__set__"))
    rep.check(not restricted, "C10.access", f"{m.module.rel}:{m.node.lineno} Model", "the default model accepts the state under whatever "
              "`state_field` names (a plain object: no __slots__, no attribute hooks)", f"{m.module.rel}::Model",
              f"class Model defines {restricted}" if restricted else "plain class")
    bases_ok = all(b in ("object",) for b in m.bases)
    rep.check(bases_ok, "C10.access", f"{m.module.rel}:{m.node.lineno} Model", "the default model has no base class that could restrict attributes",
              f"{m.module.rel}::Model", f"class Model({', '.join(m.bases)})")


_ORDERING = ("sorted", "min", "max", "heapq.nsmallest", "heapq.nlargest", "bisect.insort", "insort")


def rule_values_are_only_hashed_and_compared_for_equality(ctx: Ctx):
    """C10.access: a state value is whatever the user chose (None excepted): an int, a str, an Enum member, a tuple, values of mixed
    types. The accessors and the exception that reports an unmapped value may hash it and compare it for equality - nothing else.
    An ordering operation over the stored value or over the values of the states (`sorted(states_map)` for a nicer message) raises
    TypeError for Enum members or mixed types, so the unmapped value is no longer answered with InvalidStateValue."""
    rep = ctx.rep
    exc = ctx.p.classes.get("InvalidStateValue")
    fns = []
    if exc is not None:
        fns += [m for ms in exc.methods.values() for m in ms]
    for nm in ("StateMachine._get_initial_state", "StateMachine.current_state", "StateMachine.current_state_value",
               "StateMachineMetaclass.add_state", "State.is_active", "StateMachine.__init__", "StateMachine.start_value"):
        c, _, m = nm.partition(".")
        cls = ctx.p.classes.get(c)
        if cls is not None:
            fns += list(cls.methods.get(m, []))
    n = 0
    for fn in fns:
        tainted = {"states_map", "current_state_value", "start_value", "initial_state_value", "value", "state_field"}
        if fn.cls is not None and fn.cls.name == "InvalidStateValue":
            tainted |= {p_ for p_ in fn.params if p_ not in ("self", "msg")}
        changed = True
        while changed:  # locals assigned from tainted expressions
            changed = False
            for x in own_nodes(fn.node):
                if isinstance(x, ast.Assign) and any(isinstance(y, (ast.Name, ast.Attribute)) and (getattr(y, "id", None) in tainted or getattr(y, "attr", None) in tainted)
                                                     for y in ast.walk(x.value)):
                    for t in x.targets:
                        if isinstance(t, ast.Name) and t.id not in tainted:
                            tainted.add(t.id)
                            changed = True

        def mentions(e):
            return any((isinstance(y, ast.Name) and y.id in tainted) or (isinstance(y, ast.Attribute) and y.attr in tainted) for y in ast.walk(e))

        for x in own_nodes(fn.node):
            bad = None
            if isinstance(x, ast.Call):
                f = show(x.func)
                if (f in _ORDERING or f.endswith(".sort")) and (any(mentions(a) for a in x.args) or (f.endswith(".sort") and mentions(x.func))):
                    bad = f"`{show(x)[:80]}` orders state values"
            elif isinstance(x, ast.Compare) and any(isinstance(o, (ast.Lt, ast.LtE, ast.Gt, ast.GtE)) for o in x.ops) and \
                    (mentions(x.left) or any(mentions(c_) for c_ in x.comparators)) and "len(" not in show(x):
                bad = f"`{show(x)[:80]}` compares state values by order"
            if bad:
                rep.violation("C10.access", fn.loc(x), f"{fn.qualname}: {bad}; values need only be hashable and comparable for equality "
                              "(Enum members and mixed types are not orderable: TypeError instead of InvalidStateValue)", fn.key, norm_stmt(x))
        n += 1
    rep.floor("C10.access", "accessor / exception functions scanned for ordering operations on state values", n, 6)
    rep.ok("C10.access", "package", "no ordering operation is applied to state values in the accessors or in InvalidStateValue", functions=n)


RULES = [rule_values_are_only_hashed_and_compared_for_equality, rule_access, rule_written_value, rule_mapping, rule_noshadow, rule_falsy, rule_active, rule_start_value, rule_default_model]
