"""C04 - A failing callback leaves a consistent, usable machine."""

from __future__ import annotations

import ast
from typing import List, Set

from ..context import Ctx
from ..kernel import expand, xshow
from ..loader import AnalysisError, FuncInfo, norm_stmt
from ..paths import show
from ..resolve import own_nodes
from .c03 import callgraph
from .engine_model import activate_paths
from .loop_model import loop_paths

EXPLANATION = (
    "Lock typestate and exception flow are decided on every path of each engine's `processing_loop`, with an "
    "exceptional edge out of every call (Exception-derived and BaseException-only classes): the lock is released "
    "exactly once on every exit after a successful acquire; every exception raised under the drain's `_trigger` "
    "call reaches a handler that empties the queue and re-raises that same exception; no handler on the event path "
    "swallows a user exception; the state is written exactly once per executed transition, between `on` and "
    "`enter`, and never by a handler, so a failure before the write leaves the source and one after it the target; "
    "no engine attribute other than queue and lock is written while processing, so nothing can stay 'stuck'. "
    "Residual: exceptions that are not Exception subclasses skip the queue clearing by design of `except Exception`."
    " Added after seeded batch 9: the queue is cleared on both classes of exceptional edge out of _trigger (Exception and BaseException-only: KeyboardInterrupt, asyncio.CancelledError; F41), and a failure inside an awaitable a callback hands back surfaces because the wrapper awaits every awaitable result."
)
EXPLANATION += (
    " " + 'The invoker closures the dispatcher builds for resolved callbacks may not turn a failing attribute into a value (no default lookups, hasattr, suppress or non-re-raising handlers).'
)
ASSUMPTIONS = ["Lock.acquire/release and deque operations do not raise in the typestates established by the rules"]
TRUSTED = ["Python try/except/finally semantics as modelled by the path enumerator"]


def rule_release(ctx: Ctx, rule: str = "C04.release"):
    rep, k = ctx.rep, ctx.k
    for eng in k.engines:
        fn, lps = loop_paths(ctx, eng, exc_edges="all", base_exc=True)
        n_exc = n_norm = 0
        for lp in lps:
            if lp.rtc is False:
                continue
            acquired = any(s.kind == "ACQ?" and s.info["taken"] for s in lp.syms) or any(
                s.kind == "ACQ" and s.info["op"] == "blocking" for s in lp.syms)
            # release only while held, never twice
            for s in lp.syms:
                if s.kind == "REL":
                    rep.check(bool(s.locked), rule, s.ev.loc(), f"{eng.name}: the lock is released only by its holder, once",
                              fn.key, "release while not held on path: " + " ".join(lp.names()))
            if not acquired:
                continue
            if lp.path.kind == "raise":
                n_exc += 1
            else:
                n_norm += 1
            rep.check(not lp.final_locked, rule, fn.loc(),
                      f"{eng.name}: every exit ({'exceptional' if lp.path.kind == 'raise' else 'normal'}) after a successful acquire leaves the lock free",
                      fn.key, f"exit with the lock held: " + " ".join(lp.names()[-8:]),
                      exit=lp.names()[-1])
        rep.floor(rule, f"exceptional exits of {eng.name}.processing_loop holding the lock", n_exc, 2)
        rep.floor(rule, f"normal exits of {eng.name}.processing_loop after acquire", n_norm, 2)


def rule_clear(ctx: Ctx, rule: str = "C04.clear"):
    rep, k = ctx.rep, ctx.k
    for eng in k.engines:
        fn, lps = loop_paths(ctx, eng, exc_edges="try", base_exc=True)
        n = 0
        for lp in lps:
            if lp.rtc is False:
                continue
            syms = lp.syms
            for i, s in enumerate(syms):
                if s.kind == "TRIG":
                    rep.check(bool(s.info.get("in_try")), rule, s.ev.loc(), f"{eng.name}: the drain's _trigger call is protected by a try",
                              fn.key, norm_stmt(s.ev.node))
                if s.kind != "THROW":
                    continue
                prev = syms[i - 1] if i else None
                src = prev
                if prev is not None and prev.kind == "AWAIT" and i >= 2:
                    src = syms[i - 2]
                if src is None or src.kind != "TRIG":
                    continue
                rest = syms[i + 1:]
                kinds = [r.kind for r in rest]
                # both classes of failure count: an `Exception`, and a `BaseException`-only one (KeyboardInterrupt, and above all the
                # CancelledError of an ordinary `asyncio.wait_for` timeout) - events queued by the aborted run must not survive it (F41)
                n += 1
                ok = "HANDLER" in kinds and "CLEAR" in kinds and kinds.index("HANDLER") < kinds.index("CLEAR")
                rep.check(ok, rule, s.ev.loc(), f"{eng.name}: a failing event empties the queue (pending events are dropped, not run later)",
                          fn.key, "after the exception: " + " ".join(repr(r) for r in rest))
                exc_name = s.ev.term.id if isinstance(s.ev.term, ast.Name) else "?"
                last = syms[-1]
                ok2 = last.kind == "EXIT-RAISE" and last.info["value"] == exc_name
                rep.check(ok2, rule, s.ev.loc(), f"{eng.name}: the original exception reaches the caller", fn.key,
                          "after the exception: " + " ".join(repr(r) for r in rest), raised=exc_name, leaves=last.info.get("value"))
                bad = [r for r in rest if r.kind in ("TRIG", "POP")]
                rep.check(not bad, rule, s.ev.loc(), f"{eng.name}: no further event is processed after a failure", fn.key,
                          "after the exception: " + " ".join(repr(r) for r in rest))
        rep.floor(rule, f"exception edges out of _trigger in {eng.name}", n, 1)


def _catches_broad(h: ast.ExceptHandler) -> bool:
    if h.type is None:
        return True
    ts = h.type.elts if isinstance(h.type, ast.Tuple) else [h.type]
    return any(show(t).split(".")[-1] in ("Exception", "BaseException") for t in ts)


def _reraises(h: ast.ExceptHandler) -> bool:
    """Every way out of the handler body is a raise (checked on its last statement and on
    the absence of return/continue/break at handler level)."""
    body = h.body
    if not body:
        return False
    for n in ast.walk(ast.Module(body=body, type_ignores=[])):
        if isinstance(n, (ast.Return, ast.Continue, ast.Break)):
            return False
    last = body[-1]
    return isinstance(last, ast.Raise)


def rule_noswallow(ctx: Ctx):
    rep, k = ctx.rep, ctx.k
    g = callgraph(ctx)
    roots = [ctx.fn("Event.__call__"), ctx.fn("StateMachine.send"), ctx.fn("StateMachine.activate_initial_state")]
    reach = g.reachable(roots)
    # functions that (transitively) invoke a callback slot
    slotters: Set[FuncInfo] = {f for f in g.slots}
    changed = True
    while changed:
        changed = False
        for f in ctx.p.all_functions():
            if f in slotters:
                continue
            if any(t in slotters for t in g.callees(f)):
                slotters.add(f)
                changed = True
    n_try = 0
    for fn in sorted(reach, key=lambda f: f.key):
        for t in own_nodes(fn.node):
            if not isinstance(t, ast.Try):
                continue
            n_try += 1
            body_calls = [c for st in t.body for c in ast.walk(st) if isinstance(c, ast.Call)]
            invokes_user = False
            for c in body_calls:
                res = ctx.r.resolve_in(c, fn)
                if res.how == "slot" or any(x in slotters for x in res.targets):
                    invokes_user = True
            for h in t.handlers:
                if _catches_broad(h):
                    rep.check(_reraises(h), "C04.noswallow", fn.loc(h),
                              f"a broad handler on the event path re-raises ({fn.qualname})", fn.key, norm_stmt(h),
                              handler=show(h.type) if h.type is not None else "bare")
                else:
                    ok = _reraises(h) or not invokes_user
                    rep.check(ok, "C04.noswallow", fn.loc(h),
                              f"a handler for {show(h.type)} does not wrap user callbacks, or converts and re-raises ({fn.qualname})",
                              fn.key, norm_stmt(h), wraps_callbacks=invokes_user)
    rep.floor("C04.noswallow", "try statements on the event path", n_try, 4)
    # the invoker closures built for each resolved callback (attribute / callable / event): what runs at event time is the
    # user's attribute itself; a lookup with a default, hasattr or suppress would turn a failing attribute into a value
    disp = ctx.p.module("statemachine/dispatcher.py")
    n_inv = 0
    from ..shapes import closure_models

    invokers = []
    for par in disp.all_functions:
        if par.parent is not None or par.cls is not None or isinstance(par.node, ast.Lambda) or ctx.is_new(par):
            continue
        try:
            for m in closure_models(ctx, par):  # a nested function or an instance of a small callable class
                invokers.append((par, m.fn))
        except AnalysisError:
            continue
    for par, f in invokers:
        n_inv += 1
        for c in own_nodes(f.node):
            bad = None
            if isinstance(c, ast.Call) and isinstance(c.func, ast.Name) and c.func.id == "getattr" and len(c.args) >= 3:
                bad = "getattr with a default"
            elif isinstance(c, ast.Call) and isinstance(c.func, ast.Name) and c.func.id == "hasattr":
                bad = "hasattr"
            elif isinstance(c, ast.Call) and show(c.func).split(".")[-1] == "suppress":
                bad = "contextlib.suppress"
            elif isinstance(c, ast.Try) and any(not _reraises(h) for h in c.handlers):
                bad = "a handler that does not re-raise"
            if bad:
                rep.violation("C04.noswallow", f.loc(c), f"the invoker built by `{par.qualname}` uses {bad}: an exception raised by the user's "
                              "attribute/callback is turned into a value instead of reaching the caller", f.key, norm_stmt(_stmt_of(f, c)))
    rep.floor("C04.noswallow", "callback invoker closures in the dispatcher", n_inv, 3)
    rep.count("event_path_functions", len(reach))


def _stmt_of(fn, node):
    best = node
    for st in ast.walk(fn.node):
        if isinstance(st, ast.stmt) and not isinstance(st, (ast.FunctionDef, ast.AsyncFunctionDef)) and any(x is node for x in ast.walk(st)):
            best = st
    return best


def rule_state(ctx: Ctx):
    rep, k = ctx.rep, ctx.k
    for eng in k.engines:
        fn, tp, aps = activate_paths(ctx, eng)
        for ap in aps:
            if not ap.executing:
                continue
            classes = [s.gc.group if s.kind == "G" else s.kind for s in ap.syms]
            nw = classes.count("WRITE")
            ok = nw == 1
            if ok:
                i = classes.index("WRITE")
                before, after = classes[:i], classes[i + 1:]
                ok = "ON" in before and "ENTER" not in before and "AFTER" not in before and \
                    all(g in before for g in ("VALIDATOR", "COND", "BEFORE")) and "EXIT" not in after and "ON" not in after
            rep.check(ok, "C04.state", fn.loc(),
                      f"{eng.name}: one write, after validators/cond/before/exit/on and before enter/after => "
                      "a failure in the former leaves the source, in the latter the target", fn.key,
                      "executing path: " + " ".join(classes), trace=classes)
        # no state write anywhere else on the failure path
        for nm in ("processing_loop", "_trigger"):
            f = k.engine_fn(eng, nm)
            for p in ctx.paths(f, exc_edges="try"):
                for e in p.events:
                    if k.state_write(e, p.events) is not None:
                        rep.violation("C04.state", e.loc(), f"{eng.name}.{nm} writes the state (roll-back / second write)", f.key,
                                      norm_stmt(e.node))
            rep.ok("C04.state", f.loc(), f"{eng.name}.{nm}: no state write outside _activate")
        act = k.engine_fn(eng, "_activate")
        tries = [n for n in own_nodes(act.node) if isinstance(n, ast.Try)]
        rep.check(not tries, "C04.state", act.loc(), f"{eng.name}._activate has no handler that could undo or redo the write", act.key,
                  f"{len(tries)} try statements in _activate")


def rule_nosticky(ctx: Ctx, rule: str = "C04.nosticky"):
    rep, k = ctx.rep, ctx.k
    for eng in k.engines:
        for nm in ("processing_loop", "_trigger", "_activate"):
            f = k.engine_fn(eng, nm)
            written = set()
            for p in ctx.paths(f, exc_edges="none"):
                for e in p.of("store"):
                    b = e.term.value if isinstance(e.term, (ast.Attribute, ast.Subscript)) else None
                    if isinstance(e.term, ast.Attribute) and isinstance(b, ast.Name) and b.id == "self":
                        written.add(e.term.attr)
                        if e.term.attr != k.queue_attr:
                            rep.violation(rule, e.loc(),
                                          f"{eng.name}.{nm} keeps processing state in `self.{e.term.attr}` (can stay set after a failure)",
                                          f.key, norm_stmt(e.node))
            rep.ok(rule, f.loc(), f"{eng.name}.{nm} writes no engine attribute besides the queue", written=sorted(written))


LAZY_APPLIERS = {"map", "filter", "starmap", "takewhile", "dropwhile", "filterfalse", "accumulate", "reduce"}


def rule_stopiteration_safe(ctx: Ctx, rule: str = "C04.noswallow"):
    """Whatever a callback raises reaches the caller - also `StopIteration` (a guard calling next() on an exhausted iterator).
    A callback invoked *by* `map()`/`filter()`/`itertools` inside the executors loses it: the exception leaves `map.__next__`
    and the consumer (`all`, `any`, `list`, a for loop) takes it for the end of the iteration - the guard counts as passed, the
    action as done.  Explicit loops and comprehensions do not have this hole (PEP 479 turns it into RuntimeError there)."""
    from .c07 import _kwargs_chain

    rep = ctx.rep
    fns = _kwargs_chain(ctx)
    n = 0
    for fn in sorted(fns, key=lambda f: f.key):
        if isinstance(fn.node, ast.Lambda):
            continue
        for nd in ast.walk(fn.node):
            if isinstance(nd, ast.Call):
                nm = show(nd.func).split(".")[-1]
                if nm in LAZY_APPLIERS and nd.args:
                    n += 1
                    rep.violation(rule, fn.loc(nd), f"{fn.qualname} lets `{nm}()` call the callbacks: a StopIteration raised by one of them ends the "
                                  "iteration silently instead of reaching the caller", fn.key, norm_stmt(nd))
    rep.ok(rule, "package", "no executor/wrapper function applies callbacks through map()/filter()/itertools", functions=len(fns), sites=n)


def rule_failure_of_an_awaitable_surfaces(ctx: Ctx):
    """C04.noswallow (async engine): a callback fails when the awaitable it hands back fails - whatever kind of callable produced
    it (a plain function, a lambda or a decorated method returning a coroutine). The wrapper awaits every awaitable result; one that
    is dropped un-awaited never runs, its exception never reaches the caller and the transition completes as if it had succeeded."""
    from . import c05

    c05.rule_wrapper(ctx, rule="C04.noswallow")


RULES = [rule_release, rule_clear, rule_noswallow, rule_state, rule_nosticky, rule_stopiteration_safe, rule_failure_of_an_awaitable_surfaces]
