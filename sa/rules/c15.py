"""C15 - Every declaration style of the same machine yields the same machine."""

from __future__ import annotations

import ast

from ..context import Ctx
from ..kernel import expand, expand1, xshow
from ..loader import AnalysisError, norm_stmt
from ..paths import show
from ..resolve import own_nodes
from . import c09
from .c03 import callgraph

EXPLANATION = (
    "What is decided is the translation of each declaration style into (source, target, event) triples and where they are "
    "registered: (to/from) `a.to(b, c)` builds Transition(a, s) for each argument in order and registers them on a.transitions; "
    "`b.from_(a, c)` builds Transition(origin, b) and registers each on its origin - on every iteration, so an index-dependent "
    "swap is seen; `itself` passes the state as both ends; (any) the from_.any() placeholder is expanded onto every non-final "
    "state, and the expansion must not run before all states of the class are registered; (or) `|` returns a new list holding "
    "the operands' Transition objects by reference, left then right; (events) every event form passes through ensure_iterable "
    "and a split on spaces, duplicates are dropped; (enum) from_enum sets initial by identity, final by membership, value by "
    "the flag. Behavioural equivalence of whole machines and the metaclass' event re-wiring are NOT decided."
    " Added after seeded batch 9: events given to from_.any(event=...) must be carried by the per-state copies and the copies must stand at the placeholder's position - both violated on the pinned tree (known findings F37, F38)."
)
ASSUMPTIONS = ["class body attributes are visited in declaration order (dict order)"]
TRUSTED = ["/verif/sa path enumerator and call graph"]


def rule_tofrom(ctx: Ctx, rule: str = "C15.to/from"):
    rep = ctx.rep
    to = ctx.fn("_ToState.__call__")
    for p in ctx.paths(to, inline=None, exc_edges="none"):
        evs = p.events
        comp = next((e for e in evs if e.kind == "comp"), None)
        ok = comp is not None
        if ok:
            c = comp.term
            g = c.generators[0]
            ok = len(c.generators) == 1 and not g.ifs and show(g.iter) == to.node.args.vararg.arg and isinstance(g.target, ast.Name) and \
                show(c.elt) == f"Transition(self._state, {g.target.id}, **kwargs)"
        rep.check(bool(ok), rule, to.loc(), "a.to(s1, s2, ...) builds Transition(a, s) for each given state, in order", to.key,
                  show(comp.term) if comp is not None else "no comprehension")
        reg = [e for e in p.calls() if isinstance(e.term.func, ast.Attribute) and e.term.func.attr == "add_transitions"]
        ok = len(reg) == 1 and xshow(reg[0].term.func.value, evs) == "self._state.transitions" and p.kind == "return" and show(reg[0].term.args[0]) == show(p.value)
        rep.check(ok, rule, to.loc(), "the new transitions are registered on the source state and returned", to.key,
                  "; ".join(e.show() for e in reg))
    fr = ctx.fn("_FromState.__call__")
    n = 0
    # build-all-then-attach form: `ts = TransitionList(Transition(o, self._state, **kwargs) for o in states)`, then every element is
    # registered on its own source, then `ts` is returned
    va = fr.node.args.vararg.arg if fr.node.args.vararg else None
    comps = [c for c in own_nodes(fr.node) if isinstance(c, (ast.GeneratorExp, ast.ListComp)) and len(c.generators) == 1
             and isinstance(c.elt, ast.Call) and show(c.elt.func) == "Transition"]
    if comps:
        c = comps[0]
        g = c.generators[0]
        ok = not g.ifs and show(g.iter) == va and isinstance(g.target, ast.Name) and \
            [show(a) for a in c.elt.args] == [g.target.id, "self._state"] and any(k.arg is None and show(k.value) == "kwargs" for k in c.elt.keywords)
        rep.check(bool(ok), rule, fr.loc(c), "b.from_(x, y, ...) builds Transition(origin, b) for each given origin, in order (never the reverse)", fr.key,
                  show(c))
        loops = [l for l in own_nodes(fr.node) if isinstance(l, ast.For) and isinstance(l.target, ast.Name)]
        regs_ok = False
        for l in loops:
            el = l.target.id
            for x in ast.walk(l):
                if isinstance(x, ast.Call) and isinstance(x.func, ast.Attribute) and x.func.attr == "add_transitions" \
                        and show(x.func.value) == f"{el}.source.transitions" and [show(a) for a in x.args] == [el]:
                    regs_ok = True
        rep.check(regs_ok, rule, fr.loc(), "each transition is registered on its origin state and collected in the returned list", fr.key,
                  "no `<t>.source.transitions.add_transitions(<t>)` over the built list")
        for p in ctx.paths(fr, inline=None, exc_edges="none", unroll=1):
            if p.kind == "return":
                v = xshow(p.value, p.events)
                rep.check(v.startswith("TransitionList(") and "Transition(" in v, rule, fr.loc(), "from_() returns the list of the transitions it built",
                          fr.key, f"return {v}")
        n = 3
    for p in ([] if comps else ctx.paths(fr, inline=None, exc_edges="none", unroll=2)):
        evs = p.events
        its = [e for e in evs if e.kind == "iter" and e.x.get("loop") == "for"]
        for i, it in enumerate(its):
            end = its[i + 1].idx if i + 1 < len(its) else len(evs)
            seg = evs[it.idx: end]
            elem = show(it.x["elem"])
            n += 1
            ctor = [e for e in seg if e.kind == "call" and show(e.term.func) == "Transition"]
            ok = len(ctor) == 1 and [show(a) for a in ctor[0].term.args] == [elem, "self._state"] and \
                any(k.arg is None and show(k.value) == "kwargs" for k in ctor[0].term.keywords)
            rep.check(ok, rule, it.loc(), f"b.from_(...): iteration {i} builds Transition(origin, b) (never the reverse)", fr.key,
                      "; ".join(e.show() for e in ctor))
            if ctor:
                t = f"$c{ctor[0].idx}"
                regs = [e for e in seg if e.kind == "call" and isinstance(e.term.func, ast.Attribute) and e.term.func.attr == "add_transitions"
                        and e.term.args and show(e.term.args[0]) == t]
                on_origin = [e for e in regs if xshow(e.term.func.value, evs) == f"{xshow(it.x['elem'], evs)}.transitions"]
                if len(regs) == 1 and len(on_origin) == 1:
                    # collected through a list that is handed to add_transitions afterwards (a generator's yields, a local list)
                    apps = [e for e in seg if e.kind == "call" and isinstance(e.term.func, ast.Attribute) and e.term.func.attr == "append"
                            and e.term.args and show(e.term.args[0]) == t]
                    for a_ in apps:
                        lst = show(a_.term.func.value)
                        later = [e for e in evs if e.kind == "call" and e.idx > a_.idx and isinstance(e.term.func, ast.Attribute)
                                 and e.term.func.attr == "add_transitions" and e.term.args and show(e.term.args[0]) == lst]
                        if later:
                            regs = regs + [later[0]]
                            break
                rep.check(len(on_origin) == 1 and len(regs) == 2, rule, it.loc(),
                          "each transition is registered on its origin state and collected in the returned list", fr.key,
                          "; ".join(e.show() for e in regs))
        if its:
            rep.check(show(its[0].term) == fr.node.args.vararg.arg, rule, its[0].loc(), "from_() ranges over the given origins in order", fr.key,
                      norm_stmt(its[0].node))
    rep.floor(rule, "iterations of _FromState.__call__", n, 3)
    it_ = ctx.fn("_TransitionBuilder.itself")
    for p in ctx.paths(it_, inline=None, exc_edges="none"):
        v = xshow(p.value, p.events) if p.kind == "return" else ""
        rep.check(v in ("self.__call__(self._state, **kwargs)", "self(self._state, **kwargs)"), rule, it_.loc(),
                  "to.itself()/from_.itself() is the call with the state itself as the other end", it_.key, f"return {v}")
    an = ctx.fn("_FromState.any")
    for p in ctx.paths(an, inline=None, exc_edges="none"):
        v = xshow(p.value, p.events) if p.kind == "return" else ""
        rep.check(v in ("self.__call__(AnyState(), **kwargs)", "self(AnyState(), **kwargs)"), rule, an.loc(),
                  "from_.any() is from_(<ANY placeholder>)", an.key, f"return {v}")
    for prop, cls_ in (("to", "_ToState"), ("from_", "_FromState")):
        f = ctx.p.find_fn(f"State.{prop}")
        for p in ctx.paths(f, inline=None, exc_edges="none"):
            v = xshow(p.value, p.events) if p.kind == "return" else ""
            rep.check(v == f"{cls_}(self)", rule, f.loc(), f"State.{prop} builds on this very state", f.key, f"return {v}")


def rule_any(ctx: Ctx, rule: str = "C15.any"):
    rep = ctx.rep
    c09.rule_any(ctx, rule=rule)
    # the expansion must see the complete state list
    g = callgraph(ctx)
    target = ctx.fn("AnyState._on_event_defined")
    afa = ctx.fn("StateMachineMetaclass.add_from_attributes")
    reach = g.reachable([afa])
    if target in reach or ctx.fn("TransitionList._on_event_defined") in reach:
        # where is the state list taken?
        ae = ctx.fn("StateMachineMetaclass.add_event")
        site = next((n for n in own_nodes(ae.node) if isinstance(n, ast.Call) and isinstance(n.func, ast.Attribute) and n.func.attr == "_on_event_defined"), None)
        rep.violation(rule, ae.loc(site), "from_.any() is expanded while the class attributes are still being visited: states declared "
                      "after the event do not get the transition (differs from declaring the transition on every non-final state)",
                      ae.key, "any() expansion reachable from add_from_attributes")
    else:
        rep.ok(rule, afa.loc(), "the any() expansion runs after all states of the class are registered")
    tl = ctx.fn("TransitionList._on_event_defined")
    for p in ctx.paths(tl, inline=None, exc_edges="none", unroll=1):
        evs = p.events
        for e in p.calls():
            if isinstance(e.term.func, ast.Attribute) and e.term.func.attr == "_on_event_defined":
                its = [i for i in evs[: e.idx] if i.kind == "iter"]
                kw = {k.arg: show(k.value) for k in e.term.keywords}
                ok = bool(its) and show(its[0].term) == "self.transitions" and xshow(e.term.func.value, evs) == f"{show(its[-1].x['elem'])}.source" and \
                    kw.get("transition") == show(its[-1].x["elem"]) and kw.get("states") == tl.params[2] and kw.get("event") == tl.params[1]
                rep.check(ok, rule, e.loc(), "every transition of the event is offered to its source state for expansion", tl.key, norm_stmt(e.node))


def rule_wiring(ctx: Ctx, rule: str = "C15.events"):
    """C15.events: whenever an event that carries transitions is added to the class, those transitions get the
    event - whether or not an event of that id is already known (mixed `event=` / attribute declarations)."""
    rep = ctx.rep
    fn = ctx.fn("StateMachineMetaclass.add_event")
    n = 0
    for p in ctx.paths(fn, inline=None, exc_edges="none"):
        evs = p.events
        facts = {xshow(b.term, evs): b.x["taken"] for b in p.of("branch")}
        real = facts.get(f"{fn.params[1]}._has_real_id")
        has_tr = None
        for k_, v in facts.items():
            if k_ in (f"{fn.params[1]}._transitions is None",):
                has_tr = not v
        if real is True and has_tr is None:
            rep.violation(rule, fn.loc(), "a path of add_event registers an event with a real id without looking at the transitions assigned "
                          "to it (mixing `event=` and attribute declarations leaves transitions without their event)", fn.key,
                          "path: " + ", ".join(f"{a}=={b}" for a, b in facts.items()))
            continue
        if real is not True or has_tr is not True:
            continue
        n += 1
        wired = [e for e in p.calls() if isinstance(e.term.func, ast.Attribute) and e.term.func.attr == "_on_event_defined"]
        rep.check(len(wired) == 1, rule, fn.loc(), "the transitions assigned to an event are wired to it even when the event id is already registered",
                  fn.key, "path with transitions but without _on_event_defined: " + ", ".join(f"{a}=={b}" for a, b in facts.items()))
        if wired:
            kw = {k.arg: xshow(k.value, evs) for k in wired[0].term.keywords}
            rep.check(kw.get("event") == fn.params[1] and kw.get("states") == f"list({fn.params[0]}.states)", rule, wired[0].loc(),
                      "the wiring passes this event and the class's states", fn.key, norm_stmt(wired[0].node))
    rep.floor(rule, "paths of add_event with a real id and transitions", n, 2)


def _isinstance_kinds(p, val: str):
    """Class-name sets T for which `isinstance(<val>, T)` was established true on this path."""
    out = []
    for b in p.of("branch"):
        t = expand1(b.term, p.events)
        if b.x["taken"] and isinstance(t, ast.Call) and show(t.func) == "isinstance" and len(t.args) == 2 and val in (show(t.args[0]), xshow(t.args[0], p.events)):
            ts = t.args[1].elts if isinstance(t.args[1], ast.Tuple) else [t.args[1]]
            out.append(frozenset(show(x).split(".")[-1] for x in ts))
    return out


def rule_attributes(ctx: Ctx, rule: str = "C15.events"):
    """C15.events: how each kind of class attribute becomes states/events (one dispatch per kind)."""
    rep = ctx.rep
    fn = ctx.fn("StateMachineMetaclass.add_from_attributes")
    cls_ = fn.params[0]
    seen = {}
    for p in ctx.paths(fn, inline=None, exc_edges="none", unroll=1):
        evs = p.events
        its = [e for e in evs if e.kind == "iter" and e.x.get("loop") == "for"]
        if not its:
            continue
        if xshow(its[0].term, evs) != f"{fn.params[1]}.items()":
            rep.violation(rule, its[0].loc(), "the metaclass does not visit the class attributes in declaration order", fn.key, norm_stmt(its[0].node))
            continue
        elem = show(its[0].x["elem"])
        key, val = f"{elem}[0]", f"{elem}[1]"
        facts = {}
        for b in p.of("branch"):
            facts[xshow(b.term, evs)] = b.x["taken"]
        calls = [e for e in p.calls() if isinstance(e.term.func, ast.Attribute) and show(e.term.func.value) == cls_]
        for k_ in _isinstance_kinds(p, val):
            seen.setdefault(k_, []).append([xshow(c.term, evs) for c in calls])

    def has(kind, pred):
        return any(any(pred(c) for c in calls) for calls in seen.get(kind, []))
    elem = None
    checks = [
        (frozenset({"States"}), lambda c: "._add_states_from_dict(" in c, "a States collection registers each of its states"),
        (frozenset({"State"}), lambda c: ".add_state(" in c and c.count("[0]") >= 1 and "[1])" in c, "a State attribute is registered under the attribute's name"),
        (frozenset({"Transition", "TransitionList"}), lambda c: ".add_event(event=Event(transitions=" in c and "id=" in c and "name=" in c,
         "a transition (list) attribute becomes an event named after the attribute, carrying those transitions"),
        (frozenset({"Event"}), lambda c: ".add_event(event=Event(transitions=" in c and "._transitions" in c and "old_event=" in c and ".name" in c,
         "an explicit Event attribute is re-created under the attribute's name with its transitions and display name, and replaces the placeholder"),
    ]
    for sub, pred, what in checks:
        rep.check(has(sub, pred), rule, fn.loc(), what, fn.key, f"dispatch for `{sorted(sub)}`: {seen.get(sub, [[]])[:1]}")
    rep.floor(rule, "attribute kinds dispatched by add_from_attributes", len(seen), 4)
    ur = ctx.fn("StateMachineMetaclass._update_event_references")
    ok_replace = ok_raise = False
    for p in ctx.paths(ur, inline=None, exc_edges="none", unroll=1):
        evs = p.events
        for e in p.calls():
            if isinstance(e.term.func, ast.Attribute) and e.term.func.attr == "_replace":
                its = [i for i in evs[: e.idx] if i.kind == "iter"]
                guard = []
                for b in evs[: e.idx]:
                    if b.kind == "branch" and b.term is not None and "match(" in xshow(b.term, evs):
                        t_, pol_ = b.term, b.x["taken"]
                        while isinstance(t_, ast.UnaryOp) and isinstance(t_.op, ast.Not):
                            t_, pol_ = t_.operand, not pol_
                        if pol_:
                            guard.append(b)
                ok_replace = ok_replace or (len(its) >= 3 and bool(guard) and len(e.term.args) == 2)
        if p.kind == "raise" and "InvalidDefinition" in xshow(p.value, evs):
            ok_raise = True
    rep.check(ok_replace, rule, ur.loc(), "placeholder events are replaced by the named event on every transition of every state that matches them",
              ur.key, "no guarded _replace(old, new) inside the states/transitions loops")
    rep.check(ok_raise, rule, ur.loc(), "an event that never got an id is an InvalidDefinition", ur.key, "no InvalidDefinition path")


def _is_deepcopy(ctx: Ctx, call: ast.Call, fn) -> bool:
    f = show(call.func)
    if f in ("deepcopy", "copy.deepcopy"):
        g = ctx.r.lookup_global(f.split(".")[0], fn.module)
        # `from copy import copy as deepcopy` would be perverse; trust the imported name
        return not (g and g[0] == "ext" and g[2] == "copy" and f == "deepcopy")
    if f == "copy":
        g = ctx.r.lookup_global("copy", fn.module)
        return bool(g and g[0] == "ext" and g[2] == "deepcopy")
    return False


def rule_copy(ctx: Ctx, rule: str = "C15.any"):
    """The per-state copies made for from_.any() keep every meaning-bearing field of each callback spec
    (guard polarity, event scoping, priority ...)."""
    rep = ctx.rep
    fn = ctx.fn("Transition._copy_with_args")
    spec_init = ctx.fn("CallbackSpec.__init__")
    a = spec_init.node.args
    fields = [x.arg for x in a.posonlyargs + a.args + a.kwonlyargs if x.arg != "self"]
    n = 0
    for p in ctx.paths(fn, inline=None, exc_edges="none", unroll=1):
        evs = p.events
        its = [e for e in evs if e.kind == "iter" and e.x.get("loop") == "for"]
        if not its:
            continue
        rep.check(show(its[0].term) == "self._specs", rule, its[0].loc(), "every callback spec of the placeholder transition is carried over", fn.key,
                  norm_stmt(its[0].node))
        spec = show(its[0].x["elem"])
        adds = [e for e in p.calls() if isinstance(e.term.func, ast.Attribute) and e.term.func.attr in ("add", "_add") and e.idx > its[0].idx]
        if not adds:
            rep.violation(rule, its[0].loc(), "the copy of an any() transition registers none of the original callbacks", fn.key, norm_stmt(its[0].node))
            continue
        n += 1
        e = adds[0]
        first = expand1(e.term.args[0], evs) if e.term.args else None
        if isinstance(first, ast.Call) and show(first.func) in ("deepcopy", "copy.deepcopy", "copy", "copy.copy") and show(first.args[0]) == spec:
            deep = _is_deepcopy(ctx, first, fn)
            if not deep:
                from ..shapes import shallow_copy_missing

                lost = shallow_copy_missing(ctx, spec_init.cls.name, fields)
                rep.check(not lost, rule, e.loc(), "copy(spec) keeps every field of the original (func, group, convention/event flags, condition, "
                          "priority, expected_value): the spec class has no __copy__ that drops one", fn.key, norm_stmt(e.node), missing=lost or [])
            rep.check(not deep, rule, e.loc(), "each spec is copied whole and shares its callable: a deep copy would clone the object a bound-method "
                      "guard/action belongs to, so the per-state copies would consult a stale clone (unlike the explicit declaration)", fn.key,
                      norm_stmt(e.node))
            continue
        if show(e.term.args[0]) == spec:
            rep.ok(rule, e.loc(), "each spec object is carried over as is")
            continue
        given = {}
        names = fields
        for i, arg in enumerate(e.term.args):
            if i < len(names):
                given[names[i]] = show(arg)
        for kw in e.term.keywords:
            if kw.arg:
                given[kw.arg] = show(kw.value)
        missing = [f for f in fields if given.get(f) != f"{spec}.{f}"]
        rep.check(not missing, rule, e.loc(), "a rebuilt spec keeps every field of the original (func, group, convention/event flags, condition, "
                  "priority, expected_value)", fn.key, norm_stmt(e.node), missing=missing)
        recv = xshow(e.term.func.value, evs)
    rep.floor(rule, "spec-copy sites in _copy_with_args", n, 1)
    for p in ctx.paths(fn, inline=None, exc_edges="none", unroll=0):
        ctor = [e for e in p.calls() if show(e.term.func) == "Transition"]
        if ctor:
            from ..shapes import dict_model

            whole = xshow(ctor[0].term, p.events)
            # every one of the four fields falls back to the original's value and can be overridden by the caller's kwargs
            srcs = whole
            for kw_ in ctor[0].term.keywords:
                if kw_.arg is None and isinstance(kw_.value, ast.Name):
                    dm = dict_model(p, kw_.value.id)
                    if dm is not None:
                        srcs += " " + " ".join(f"{k_}={xshow(v, p.events)}" for k_, v, _ in dm.writes)
                    else:
                        # the caller's own mapping completed in place: kwargs.setdefault("source", self.source) ...
                        nm_ = kw_.value.id
                        for e_ in p.events[: ctor[0].idx]:
                            if e_.kind == "call" and isinstance(e_.term.func, ast.Attribute) and show(e_.term.func.value) == nm_ \
                                    and e_.term.func.attr == "setdefault" and len(e_.term.args) == 2 and isinstance(e_.term.args[0], ast.Constant):
                                srcs += f" {e_.term.args[0].value}={xshow(e_.term.args[1], p.events)}"
                            if e_.kind == "store" and e_.x.get("subscript") and show(e_.term.value) == nm_ and isinstance(e_.term.slice, ast.Constant):
                                # an unconditional store would override the caller's value: only count guarded ones
                                guarded = any(b_.kind == "branch" and b_.idx < e_.idx and f"'{e_.term.slice.value}'" in show(b_.term) and nm_ in show(b_.term)
                                              for b_ in p.events)
                                if guarded:
                                    srcs += f" {e_.term.slice.value}={xshow(e_.x['value'], p.events)}"
            ok = all(f"self.{nm}" in srcs for nm in ("source", "target", "event", "internal")) and "kwargs" in srcs
            rep.check(ok, rule, ctor[0].loc(), "the copy takes source/target/event/internal from the overrides or else from the original", fn.key,
                      norm_stmt(ctor[0].node))
        break


def rule_or(ctx: Ctx):
    rep = ctx.rep
    tl = ctx.p.cls("TransitionList")
    inplace = [(nm, ctx.p.lookup_method(tl, nm)) for nm in ("__ior__", "__iadd__", "__iand__", "__ixor__")]
    for nm, m in inplace:
        if m is None:
            continue
        # `x = y; x |= z` must declare what `x = y | z` declares: an in-place operator that extends (and returns) the left
        # operand also changes every other event that shares the list
        for p in ctx.paths(m, inline=None, exc_edges="none"):
            if p.kind != "return":
                continue
            v = xshow(p.value, p.events)
            fresh = v.startswith("TransitionList(") or v in (f"self | {m.params[1]}", f"self.__or__({m.params[1]})")
            rep.check(fresh, "C15.or", m.loc(), f"`a {nm[3:-2].replace('or', '|').replace('add', '+')}= b` builds a new list like `a | b` "
                      "(the left operand, which other events may share, is not extended in place)", m.key, f"return {v}")
    fn = ctx.fn("TransitionList.__or__")
    for p in ctx.paths(fn, inline=None, exc_edges="none"):
        v = xshow(p.value, p.events) if p.kind == "return" else ""
        ok = v == f"TransitionList(self.transitions).add_transitions({fn.params[1]})"
        if not ok and p.kind == "return" and isinstance(p.value, ast.Name) and p.value.id.startswith("$c"):
            # the new list is built, extended in place, then returned
            ext = [e for e in p.calls() if isinstance(e.term.func, ast.Attribute) and show(e.term.func.value) == p.value.id]
            ok = v == "TransitionList(self.transitions)" and [(e.term.func.attr, [xshow(a, p.events) for a in e.term.args]) for e in ext] == \
                [("add_transitions", [fn.params[1]])]
            v = v + "".join(f"; .{e.term.func.attr}({', '.join(xshow(a, p.events) for a in e.term.args)})" for e in ext)
        rep.check(ok, "C15.or", fn.loc(),
                  "`a | b` is a new list with a's transitions followed by b's, the very same Transition objects", fn.key, f"return {v}")
    init = ctx.fn("TransitionList.__init__")
    st = {}
    for p in ctx.paths(init, inline=None, exc_edges="none"):
        for e in p.of("store"):
            if e.x.get("attr") == "transitions":
                st[tuple(sorted((show(b.term), b.x["taken"]) for b in p.of("branch")))] = xshow(e.x["value"], p.events)
    vals = set(st.values())
    rep.check(vals <= {"list(transitions)", "[]"} and "list(transitions)" in vals, "C15.or", init.loc(),
              "a TransitionList copies the *list* it is given (not the transitions): operands of `|` are not mutated", init.key, f"self.transitions = {sorted(vals)}")
    at = ctx.fn("TransitionList.add_transitions")
    n = 0
    for p in ctx.paths(at, inline=None, exc_edges="none", unroll=2):
        evs = p.events
        for e in p.calls():
            if show(e.term.func) == "self.transitions.append":
                n += 1
                its = [i for i in evs[: e.idx] if i.kind == "iter"]
                ok = bool(its) and show(e.term.args[0]) == show(its[-1].x["elem"])
                rep.check(ok, "C15.or", e.loc(), "add_transitions appends each given transition object itself, in order", at.key, norm_stmt(e.node))
        if p.kind == "return":
            rep.check(show(p.value) == "self", "C15.or", at.loc(), "add_transitions returns the list it extended", at.key, f"return {show(p.value)}")
        unwrap = [b for b in p.of("branch") if xshow(b.term, evs) == f"isinstance({at.params[1]}, TransitionList)"]
        if unwrap and unwrap[0].x["taken"]:
            its = [i for i in evs if i.kind == "iter"]
            if its:
                rep.check(xshow(its[0].term, evs) == f"ensure_iterable({at.params[1]}.transitions)", "C15.or", its[0].loc(),
                          "a TransitionList operand contributes its stored transitions", at.key, norm_stmt(its[0].node))
    rep.floor("C15.or", "append sites on paths of add_transitions", n, 2)
    cb = ctx.fn("TransitionList._add_callback")
    for p in ctx.paths(cb, inline=None, exc_edges="none", unroll=1):
        its = [i for i in p.events if i.kind == "iter"]
        if its:
            rep.check(show(its[0].term) == "self.transitions", "C15.or", its[0].loc(), "callbacks attached to a combined list reach every transition in it",
                      cb.key, norm_stmt(its[0].node))


def rule_events(ctx: Ctx, rule: str = "C15.events"):
    rep = ctx.rep
    add = ctx.fn("Events.add")
    n = 0
    for p in ctx.paths(add, inline=None, exc_edges="none", unroll=1):
        evs = p.events
        its = [i for i in evs if i.kind == "iter" and i.x.get("loop") == "for"]
        if len(its) >= 2:
            n += 1
            ok = xshow(its[0].term, evs) == f"ensure_iterable({add.params[1]})" and show(expand1(its[1].term, evs)) == f"{show(its[0].x['elem'])}.split(' ')"
            rep.check(ok, rule, its[0].loc(), "every event designator goes through ensure_iterable and a split on spaces", add.key,
                      f"{xshow(its[0].term, evs)} / {xshow(its[1].term, evs)}")
            elem = show(its[1].x["elem"])
            apps = [e for e in p.calls() if show(e.term.func) == "self._items.append" and e.idx > its[1].idx]
            dup = [b for b in p.of("branch") if b.idx > its[1].idx and isinstance(b.term, ast.Compare) and isinstance(b.term.ops[0], ast.In)
                   and show(b.term.left) == elem and show(b.term.comparators[0]) == "self._items"]
            if apps:
                ok = bool(dup) and dup[0].x["taken"] is False
                rep.check(ok, rule, apps[0].loc(), "an event id already present is not added twice", add.key, norm_stmt(apps[0].node))
                a = expand1(apps[0].term.args[0], evs)
                isev = [b for b in p.of("branch") if xshow(b.term, evs) == f"isinstance({elem}, Event)"]
                if isev and isev[0].x["taken"]:
                    rep.check(show(a) == elem, rule, apps[0].loc(), "an Event object is stored as is", add.key, norm_stmt(apps[0].node))
                elif isev:
                    rep.check(show(a) == f"Event(id={elem}, name={elem})", rule, apps[0].loc(), "a plain id becomes Event(id, name=id)", add.key,
                              norm_stmt(apps[0].node))
    rep.floor(rule, "nested iterations of Events.add", n, 1)
    sp = ctx.fn("Event.split")
    for p in ctx.paths(sp, inline=None, exc_edges="none", comps_for_loops=True):
        if p.kind != "return":
            continue
        one = [b for b in p.of("branch") if "len(" in xshow(b.term, p.events) and "== 1" in xshow(b.term, p.events)]
        v = expand1(p.value, p.events)
        if one and one[0].x["taken"]:
            rep.check(show(v) == "[self]", rule, sp.loc(), "splitting a single-id Event keeps the Event object (its name and transitions)", sp.key,
                      f"return {show(v)}")
        elif one and isinstance(p.value, ast.Name) and p.value.id.startswith("$l"):
            # explicit loop: one Event per part, unfiltered
            evs = p.events
            marks = [e for e in evs if e.kind in ("iter", "exhaust") and e.x.get("loop", "for") == "for" and "super().split" in xshow(e.term, evs)]
            ok = bool(marks)
            for a, b in zip(marks, marks[1:]):
                if a.kind != "iter":
                    continue
                seg = evs[a.idx + 1: b.idx]
                apps = [e for e in seg if e.kind == "call" and show(e.term.func) == f"{p.value.id}.append"]
                ok = ok and len(apps) == 1 and not any(x.kind == "branch" for x in seg) and \
                    show(expand1(apps[0].term.args[0], evs)) in (f"Event({show(a.x['elem'])})", f"Event(id={show(a.x['elem'])})")
            outside = [e for e in p.calls() if show(e.term.func).startswith(p.value.id + ".") and not any(a.idx < e.idx < b.idx for a, b in zip(marks, marks[1:]))]
            rep.check(ok and not outside, rule, sp.loc(), "splitting a multi-id Event gives one Event per id", sp.key, "explicit loop over the parts")
        elif one:
            ok = isinstance(v, ast.ListComp) and show(v.elt).startswith("Event(") and "super().split" in xshow(v.generators[0].iter, p.events)
            rep.check(ok, rule, sp.loc(), "splitting a multi-id Event gives one Event per id", sp.key, f"return {show(v)}")
    ti = ctx.fn("Transition.__init__")
    got = None
    for n_ in own_nodes(ti.node):
        if isinstance(n_, ast.Assign) and any(show(t) == "self._events" for t in n_.targets):
            got = show(n_.value)
    rep.check(got == "Events().add(event)", rule, ti.loc(), "Transition(event=...) stores its events through Events.add", ti.key, f"self._events = {got}")
    ae = ctx.fn("Transition.add_event")
    ok = any(isinstance(n_, ast.Call) and show(n_.func) == "self._events.add" and show(n_.args[0]) == ae.params[1] for n_ in own_nodes(ae.node))
    rep.check(ok, rule, ae.loc(), "naming an event later goes through the same Events.add", ae.key, "no self._events.add(value)")
    tle = ctx.fn("TransitionList.add_event")
    for p in ctx.paths(tle, inline=None, exc_edges="none", unroll=1):
        its = [i for i in p.events if i.kind == "iter"]
        calls = [e for e in p.calls() if isinstance(e.term.func, ast.Attribute) and e.term.func.attr == "add_event"]
        if its:
            ok = show(its[0].term) == "self.transitions" and calls and xshow(calls[0].term.func.value, p.events) == show(its[0].x["elem"]) \
                and show(calls[0].term.args[0]) == tle.params[1]
            rep.check(bool(ok), rule, tle.loc(), "assigning a list to an event names that event on every transition of the list", tle.key,
                      "; ".join(e.show() for e in calls))
    ei = ctx.fn("ensure_iterable")
    outs = set()
    for p in ctx.paths(ei, inline=None, exc_edges="try"):
        if p.kind == "return":
            outs.add(xshow(p.value, p.events))
    rep.check(outs == {f"[{ei.params[0]}]", f"iter({ei.params[0]})"}, rule, ei.loc(),
              "ensure_iterable wraps strings and non-iterables in a one-element list and iterates anything else", ei.key, f"returns {sorted(outs)}")
    strs = [b for p in ctx.paths(ei, inline=None, exc_edges="try") for b in p.of("branch") if xshow(b.term, p.events) == f"isinstance({ei.params[0]}, str)"]
    rep.check(bool(strs), rule, ei.loc(), "a string is one designator, not a sequence of characters", ei.key, "no isinstance(obj, str) test")


def _enum_loop_form(ctx: Ctx, fn, p, obj: str):
    """from_enum written as an explicit loop filling a dict: one record per iteration on this path."""
    rep = ctx.rep
    evs = p.events
    its = [e for e in evs if e.kind == "iter" and e.x.get("loop") == "for"]
    marks = [e for e in evs if e.kind in ("iter", "exhaust") and e.x.get("loop", "for") == "for" and xshow(e.term, evs) == fn.params[1]]
    if not its:
        return  # no member: nothing is registered on this path
    for a, b in zip(marks, marks[1:]):
        if a.kind != "iter":
            continue
        e = show(a.x["elem"])
        seg = evs[a.idx + 1: b.idx]
        stores = [x for x in seg if x.kind == "store" and x.x.get("subscript") and show(x.term.value) == obj]
        if len(stores) != 1:
            rep.violation("C15.enum", a.loc(), f"an enum member registers {len(stores)} states (one expected, unconditionally)", fn.key, norm_stmt(a.node))
            continue
        stv = stores[0]
        rep.check(xshow(stv.term.slice, evs) == f"{e}.name", "C15.enum", stv.loc(), "the state id is the enum member's name", fn.key, f"key: {xshow(stv.term.slice, evs)}")
        st = expand1(stv.x["value"], evs)
        kw = {k.arg: k.value for k in st.keywords} if isinstance(st, ast.Call) and show(st.func) == "State" else {}
        init = expand1(kw["initial"], evs) if "initial" in kw else None
        ok_i = isinstance(init, ast.Compare) and isinstance(init.ops[0], (ast.Is, ast.Eq)) and {show(init.left), show(init.comparators[0])} == {e, fn.params[2]}
        rep.check(bool(ok_i), "C15.enum", stv.loc(), "exactly the member given as `initial` is the initial state", fn.key, f"initial={show(init)}")
        fin = expand1(kw["final"], evs) if "final" in kw else None
        fin_x = xshow(fin, evs) if fin is not None else ""
        ok_f = isinstance(fin, ast.Compare) and isinstance(fin.ops[0], ast.In) and show(fin.left) == e and \
            xshow(fin.comparators[0], evs) == f"set(ensure_iterable({fn.params[3]}))"
        rep.check(bool(ok_f), "C15.enum", stv.loc(), "the members given as `final` (one or several) are the final states", fn.key, f"final={fin_x}")
        val = kw.get("value")
        flag = [x.x["taken"] for x in evs[: stv.idx] if x.kind == "branch" and show(x.term) == fn.params[4]]
        if isinstance(val, ast.IfExp):
            ok_v = show(val.test) == fn.params[4] and show(val.body) == e and show(val.orelse) == f"{e}.value"
        elif flag:
            ok_v = xshow(val, evs) == (e if flag[-1] else f"{e}.value") if val is not None else False
        else:
            ok_v = False
        rep.check(bool(ok_v), "C15.enum", stv.loc(), "the state value is the member or its value, by the flag", fn.key,
                  f"value={show(val) if val is not None else None} (flag {flag[-1] if flag else 'not tested'})")


def rule_enum(ctx: Ctx):
    rep = ctx.rep
    fn = ctx.fn("States.from_enum")
    for p in ctx.paths(fn, inline=None, exc_edges="none", comps_for_loops=True):
        if p.kind != "return":
            continue
        evs = p.events
        v = expand1(p.value, evs)
        ok = isinstance(v, ast.Call) and show(v.func) == "cls" and len(v.args) == 1
        d = expand1(v.args[0], evs) if ok else None
        if ok and isinstance(d, ast.Name):
            d = expand(d, evs)
        if ok and isinstance(v.args[0], ast.Name) and v.args[0].id.startswith(("$l", "$c")) and not isinstance(d, ast.DictComp):
            _enum_loop_form(ctx, fn, p, v.args[0].id)
            continue
        if ok and isinstance(d, ast.DictComp) and len(d.generators) == 1 and "__members__" in show(d.generators[0].iter):
            rep.violation("C15.enum", fn.loc(), "from_enum walks `__members__`, which also lists the aliases of an Enum (two names, one member): "
                          "every alias becomes an extra state with a duplicate value - iterating the Enum itself yields each member once", fn.key,
                          f"for ... in {show(d.generators[0].iter)}")
            continue
        ok = ok and isinstance(d, ast.DictComp) and len(d.generators) == 1 and not d.generators[0].ifs and show(d.generators[0].iter) == fn.params[1]
        if not ok:
            rep.unrecognised("C15.enum", fn.loc(), f"from_enum returns `{show(v)}`")
        e = d.generators[0].target.id
        rep.check(show(d.key) == f"{e}.name", "C15.enum", fn.loc(), "the state id is the enum member's name", fn.key, f"key: {show(d.key)}")
        st = d.value
        if isinstance(st, ast.Call) and show(st.func) != "State":
            from ..shapes import call_value

            through = call_value(ctx, st, fn)  # a helper that builds the State of one member
            if through is not None:
                st = through
        kw = {k.arg: k.value for k in st.keywords} if isinstance(st, ast.Call) and show(st.func) == "State" else {}
        init = kw.get("initial")
        ok_i = isinstance(init, ast.Compare) and isinstance(init.ops[0], (ast.Is, ast.Eq)) and {show(init.left), show(init.comparators[0])} == {e, fn.params[2]}
        rep.check(bool(ok_i), "C15.enum", fn.loc(), "exactly the member given as `initial` is the initial state", fn.key, f"initial={show(init)}")
        fin = kw.get("final")
        fin_x = xshow(fin, evs) if fin is not None else ""
        ok_f = isinstance(fin, ast.Compare) and isinstance(fin.ops[0], ast.In) and show(fin.left) == e and \
            xshow(fin.comparators[0], evs) == f"set(ensure_iterable({fn.params[3]}))"
        rep.check(bool(ok_f), "C15.enum", fn.loc(), "the members given as `final` (one or several) are the final states", fn.key, f"final={fin_x}")
        val = kw.get("value")
        ok_v = isinstance(val, ast.IfExp) and show(val.test) == fn.params[4] and show(val.body) == e and show(val.orelse) == f"{e}.value"
        rep.check(bool(ok_v), "C15.enum", fn.loc(), "the state value is the member or its value, by the flag", fn.key, f"value={show(val)}")
    # States(...) / items feed add_state like plain attributes
    afa = ctx.fn("StateMachineMetaclass.add_from_attributes")
    got = set()
    for p in ctx.paths(afa, inline=None, exc_edges="none", unroll=1):
        its = [e for e in p.events if e.kind == "iter" and e.x.get("loop") == "for"]
        if not its:
            continue
        el = show(its[0].x["elem"])
        kinds = _isinstance_kinds(p, f"{el}[1]")
        for e in p.calls():
            c = show(e.term)
            if frozenset({"States"}) in kinds and c == f"{afa.params[0]}._add_states_from_dict({el}[1])":
                got.add("States")
            if frozenset({"State"}) in kinds and c == f"{afa.params[0]}.add_state({el}[0], {el}[1])":
                got.add("State")
    rep.check(got == {"States", "State"}, "C15.enum", afa.loc(),
              "a States collection and individual State attributes are registered through the same add_state", afa.key, f"registered kinds: {sorted(got)}")
    sfd = ctx.fn("StateMachineMetaclass._add_states_from_dict")
    for p in ctx.paths(sfd, inline=None, exc_edges="none", unroll=1):
        calls = [e for e in p.calls() if show(e.term.func) == "cls.add_state"]
        its = [i for i in p.events if i.kind == "iter"]
        if its and calls:
            ok = xshow(its[0].term, p.events) == f"{sfd.params[1]}.items()" and [show(a) for a in calls[0].term.args] == [f"{show(its[0].x['elem'])}[0]", f"{show(its[0].x['elem'])}[1]"]
            rep.check(ok, "C15.enum", sfd.loc(), "each (id, state) of a States collection is added under its id", sfd.key, calls[0].show())


def rule_first_event_object_wins(ctx: Ctx, rule: str = "C15.events"):
    """One event id, one Event object on the class: `add_event` registers (dict entry and class attribute) only an id it has not
    seen - otherwise the last declaration's Event object (its display name) replaces the first one's."""
    rep = ctx.rep
    fn = ctx.fn("StateMachineMetaclass.add_event")
    n = 0
    for p in ctx.paths(fn, inline=None, exc_edges="none"):
        evs = p.events
        for e in p.calls():
            if show(e.term.func) == "setattr" and len(e.term.args) == 3 and show(e.term.args[0]) == fn.params[0]:
                n += 1
                guard = [b for b in evs[: e.idx] if b.kind == "branch" and "_events" in xshow(b.term, evs) and " in " in xshow(b.term, evs)]
                ok = bool(guard) and ((" not in " in xshow(guard[-1].term, evs)) == bool(guard[-1].x["taken"]))
                rep.check(ok, rule, e.loc(), "the class attribute of an event is set only when its id was not registered yet", fn.key, norm_stmt(e.node))
    rep.floor(rule, "setattr sites in add_event", n, 1)


def rule_any_copy_is_for_this_event(ctx: Ctx, rule: str = "C15.any"):
    """Each expansion of a from_.any() placeholder is for the event being defined: the per-state copy is made with `event=event`,
    not with every event the placeholder has collected so far."""
    rep = ctx.rep
    fn = ctx.fn("AnyState._on_event_defined")
    n = 0
    for p in ctx.paths(fn, inline=None, exc_edges="none", unroll=1):
        for e in p.calls():
            if isinstance(e.term.func, ast.Attribute) and e.term.func.attr == "_copy_with_args":
                n += 1
                kw = {k.arg: show(k.value) for k in e.term.keywords}
                rep.check(kw.get("event") == fn.params[1], rule, e.loc(), "the copy made for a state carries the event being defined", fn.key,
                          norm_stmt(e.node), kwargs=kw)
                if rule == "C15.any":
                    # ... and also the events the user gave the placeholder itself: `c.from_.any(event="other")` must declare `other`
                    # on every non-final state exactly as `c.from_(a, b, event="other")` does (known finding F37 on the pinned tree)
                    own_events = any(isinstance(x_, ast.Attribute) and x_.attr in ("_events", "events", "event") and show(x_.value) == fn.params[2]
                                     for k_ in e.term.keywords if k_.arg == "event" for x_ in ast.walk(k_.value))
                    if not own_events:
                        rep.violation(rule, e.loc(), "an event given to the placeholder itself (`from_.any(event=...)`) is not carried by the per-state "
                                      "copies: it is declared nowhere, unlike the same `event=` on an explicit `from_(a, b, ...)`", fn.key,
                                      "events given to from_.any(event=...) are dropped by the expansion")
                    # ... and stand where the explicit rendering would put them: `c.from_(a, b)` attaches its transitions when the expression
                    # is evaluated (textual position), the expansion appends when the event is defined, i.e. after every transition
                    # written in the class body (first-match order differs when a guarded transition shares the event; F38)
                    appends = [c_ for c_ in p.calls() if c_.idx > e.idx and isinstance(c_.term.func, ast.Attribute) and c_.term.func.attr == "add_transitions"]
                    if appends:
                        rep.violation(rule, appends[0].loc(), "the expansion of from_.any() is appended to each state's transitions when the event is defined - "
                                      "after the transitions the class body attached - instead of at the placeholder's textual position (first-match "
                                      "order differs from the explicit rendering)", fn.key, "any() copies are appended at event-definition time")
    rep.floor(rule, "copy sites in AnyState._on_event_defined", n, 1)


RULES = [rule_tofrom, rule_any, rule_copy, rule_or, rule_events, rule_wiring, rule_attributes, rule_enum, rule_first_event_object_wins, rule_any_copy_is_for_this_event]
