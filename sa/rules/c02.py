"""C02 - Callback groups run in the documented order with the documented view of state."""

from __future__ import annotations

import ast
from typing import List

from ..context import Ctx
from ..kernel import expand, result_of, xshow
from ..loader import AnalysisError, norm_stmt
from ..paths import show
from ..resolve import own_nodes
from .engine_model import ActPath, activate_paths, engine_kind, transition_param, trigger_param

EXPLANATION = (
    "All feasible paths of `_activate` in every engine (helpers inlined, conditions valuated) are projected "
    "onto the alphabet {group call, state write, view update, return} and compared with the documented "
    "order validators, cond, before, exit(source), on, WRITE(target), view updates, enter(target), after; "
    "the presence of exit/enter is tied to the `internal` flag; the values injected as state/source/target "
    "are traced to the transition's fields; convention callback names are tied to the grouper their prefix "
    "names and event-named callbacks to an `is_same_event` condition; the initial pseudo-transition and the "
    "de-duplication guards are checked by must-pass-through rules. Decides the structural clauses only: the "
    "order inside one group and user-level traces of arbitrary machines are not decided."
)
EXPLANATION += (
    " " + 'Spec equality is read as a boolean function of the comparisons it makes (true only when callable and group agree); under the async engine a callback has run only when its awaitable result was awaited, whatever produced it.'
)
ASSUMPTIONS = [
    "user programs reach the kernels only through the public API",
    "Python evaluates statements of a function body in textual order (trusted language semantics)",
]
TRUSTED = ["CPython ast grammar", "path enumerator and resolver of /verif/sa (cross-checked by mypy in the thorough tier)"]

ORDER = ["VALIDATOR", "COND", "BEFORE", "EXIT", "ON", "WRITE", "VIEW", "ENTER", "AFTER"]
OWNER_OF = {"VALIDATOR": "", "COND": "", "BEFORE": "", "ON": "", "AFTER": "", "EXIT": ".source", "ENTER": ".target"}
MODE_OF = {"VALIDATOR": "collect", "COND": "guard", "BEFORE": "collect", "ON": "collect", "AFTER": "collect",
           "EXIT": "collect", "ENTER": "collect"}


def _sym_class(s) -> str:
    if s.kind == "G":
        return s.gc.group
    return s.kind


def rule_order(ctx: Ctx, order: str = "C02.order", view: str = "C02.view", internal: str = "C02.internal"):
    """C02.order + C02.internal"""
    rep, k = ctx.rep, ctx.k
    rep.floor(order, "engines", len(k.engines), 2)
    for eng in k.engines:
        fn, tp, aps = activate_paths(ctx, eng)
        kind = engine_kind(ctx, eng)
        n_exec = 0
        for ap in aps:
            where = fn.loc()
            val = {"cond": ap.cond_pol, "internal": ap.internal, "source_present": ap.src_present}
            names = ap.names()
            classes = [_sym_class(s) for s in ap.syms]
            construct = fn.key
            # ---- every group call must be recognised and well-formed
            bad = False
            for s in ap.syms:
                if s.kind != "G":
                    continue
                gc = s.gc
                if gc.group == "?":
                    rep.unrecognised(order, s.ev.loc(), f"group call with unrecognised key {show(s.ev.term)}")
                exp_owner = tp + OWNER_OF[gc.group]
                if gc.owner != exp_owner:
                    rep.violation(order, s.ev.loc(), f"{gc.group} group is looked up on `{gc.owner}`, expected `{exp_owner}`",
                                  construct, norm_stmt(s.ev.node), valuation=val)
                    bad = True
                if gc.mode != MODE_OF[gc.group]:
                    rep.violation(order, s.ev.loc(), f"{gc.group} group executed with `{gc.method}` ({gc.mode}), expected {MODE_OF[gc.group]}",
                                  construct, norm_stmt(s.ev.node), valuation=val)
                    bad = True
                if kind == "async" and not (gc.is_async and gc.awaited):
                    rep.violation(order, s.ev.loc(), f"{gc.group} group not awaited on the async engine ({gc.method}, awaited={gc.awaited})",
                                  construct, norm_stmt(s.ev.node), valuation=val)
                    bad = True
                if kind == "sync" and gc.is_async:
                    rep.violation(order, s.ev.loc(), f"{gc.group} group uses async executor `{gc.method}` on the sync engine",
                                  construct, norm_stmt(s.ev.node), valuation=val)
                    bad = True
            if bad:
                continue
            if ap.executing is None:
                if ap.path.kind == "raise":
                    rep.violation(order, where, f"`_activate` raises {show(ap.path.value)} by itself", construct,
                                  show(ap.path.value), trace=names)
                else:
                    rep.unrecognised(order, where, f"return value {show(ap.ret)} is not (executed, result)")
                continue
            if not ap.executing:
                expect = ["VALIDATOR", "COND", "RET"]
                ok = classes == expect
                rep.check(ok, order, where, f"{eng.name}: rejected candidate runs validators, cond and nothing else",
                          construct, "rejecting path: " + " ".join(names), valuation=val, trace=names)
                continue
            n_exec += 1
            if ap.cond_pol is not True:
                rep.violation(order, where, f"{eng.name}: actions run on a path that never required the guards to hold "
                              "(a rejected candidate would run its actions)", construct,
                              "executing path without a positive test of the COND result", trace=names)
            # ---- executing path: expected sequence from the valuation
            want_exit = (ap.internal is False) and (ap.src_present is not False)
            want_enter = ap.internal is False
            expect = ["VALIDATOR", "COND", "BEFORE"] + (["EXIT"] if want_exit else []) + ["ON", "WRITE", "VIEW", "VIEW"] + (
                ["ENTER"] if want_enter else []) + ["AFTER", "RET"]
            if classes == expect:
                rep.ok(order, where, f"{eng.name}: executing path follows the documented group order",
                       valuation=val, trace=names)
            else:
                # distinguish an ordering problem from an internal-flag problem
                present = [c for c in classes if c in ("EXIT", "ENTER")]
                core_got = [c for c in classes if c not in ("EXIT", "ENTER")]
                core_exp = [c for c in expect if c not in ("EXIT", "ENTER")]
                rule = order
                what = f"{eng.name}: group/WRITE sequence deviates from the documented order"
                if core_got == core_exp and _is_subsequence(classes, ["VALIDATOR", "COND", "BEFORE", "EXIT", "ON", "WRITE", "VIEW", "VIEW", "ENTER", "AFTER", "RET"]):
                    rule = internal
                    what = (f"{eng.name}: exit/enter presence {present} does not match internal={ap.internal}, "
                            f"source_present={ap.src_present}")
                rep.violation(rule, where, what, construct, "executing path: " + " ".join(classes),
                              valuation=val, expected=expect, trace=names)
            if ap.internal is None:
                rep.violation(internal, where, f"{eng.name}: an executing path never tests `{tp}.internal`",
                              construct, "executing path without internal test", trace=names)
            # ---- WRITE / VIEW values
            for s in ap.syms:
                if s.kind in ("WRITE", "VIEW"):
                    v = xshow(s.value, ap.path.events)
                    rep.check(v == f"{tp}.target", view if s.kind == "VIEW" else order, s.ev.loc(),
                              f"{eng.name}: {s.name.split('(')[0]} assigns the transition's target", construct,
                              norm_stmt(s.ev.node), value=v)
        rep.floor(order, f"executing paths of {eng.name}._activate", n_exec, 2)
        # ---- any other condition must not change the group sequence
        by_val = {}
        for ap in aps:
            if ap.executing:
                by_val.setdefault((ap.internal, ap.src_present), set()).add(tuple(_sym_class(s) for s in ap.syms))
        for v, seqs in by_val.items():
            rep.check(len(seqs) == 1, internal, fn.loc(),
                      f"{eng.name}: nothing but internal/source conditions a group (valuation internal={v[0]}, source_present={v[1]})",
                      fn.key, "group sequence depends on another condition", sequences=[list(s) for s in seqs])


def _is_subsequence(seq: List[str], full: List[str]) -> bool:
    it = iter(full)
    return all(any(x == y for y in it) for x in seq)


def rule_view(ctx: Ctx, rule: str = "C02.view"):
    """C02.view: what callbacks see as state/source/target, and that the kwargs dict updated after the
    write is the one passed to enter/after."""
    rep, k = ctx.rep, ctx.k
    for eng in k.engines:
        fn, tp, aps = activate_paths(ctx, eng)
        trg = trigger_param(fn)
        for ap in aps:
            if not ap.executing:
                continue
            evs = ap.path.events
            groups = [s for s in ap.syms if s.kind == "G"]
            # the EventData object
            ed_calls = [e for e in evs if e.kind == "call" and e.x["callee"] and "ctor:EventData" in e.x["callee"].tags]
            if len(ed_calls) != 1:
                rep.unrecognised(rule, fn.loc(), f"expected one EventData construction, found {len(ed_calls)}")
            ed = ed_calls[0]
            kws = {kw.arg: show(kw.value) for kw in ed.term.keywords}
            pos = [show(a) for a in ed.term.args]
            ok = (kws.get("transition") == tp or (len(pos) > 1 and pos[1] == tp)) and (
                kws.get("trigger_data") == trg or (pos and pos[0] == trg))
            rep.check(ok, rule, ed.loc(), f"{eng.name}: EventData is built from this trigger and this transition",
                      fn.key, norm_stmt(ed.node), args=pos, kwargs=kws)
            # same *args / **kwargs objects for every group call, derived from the EventData
            stars, dstars = set(), set()
            star_t = dstar_t = None
            for s in groups:
                st = [a.value for a in s.ev.term.args if isinstance(a, ast.Starred)]
                ds = [kw.value for kw in s.ev.term.keywords if kw.arg is None]
                stars.add(show(st[0]) if len(st) == 1 else "?")
                dstars.add(show(ds[0]) if len(ds) == 1 else "?")
                star_t = st[0] if len(st) == 1 else star_t
                dstar_t = ds[0] if len(ds) == 1 else dstar_t
            ok = len(stars) == 1 and len(dstars) == 1 and "?" not in stars | dstars
            star_src = xshow(star_t, evs) if ok else "?"
            dstar_name = next(iter(dstars)) if ok else "?"
            dstar_src = xshow(dstar_t, evs) if ok else "?"
            ed_txt = show(expand(ast.Name(id=f"$c{ed.idx}", ctx=ast.Load()), evs))
            ok = ok and star_src == f"{ed_txt}.args" and dstar_src == f"{ed_txt}.extended_kwargs"
            rep.check(ok, rule, fn.loc(),
                      f"{eng.name}: every group receives the event's args and one shared extended_kwargs mapping",
                      fn.key, "group call arguments", star=sorted(stars), dstar=sorted(dstars), star_src=star_src, dstar_src=dstar_src)
            # the view updates touch that same mapping / EventData and sit between ON and ENTER (checked by order)
            for s in ap.syms:
                if s.kind == "VIEW" and s.name.startswith("VIEW[kwargs"):
                    base = show(s.ev.term.value)
                    rep.check(base == dstar_name, rule, s.ev.loc(),
                              f"{eng.name}: the refreshed `state` entry is in the mapping passed to enter/after", fn.key,
                              norm_stmt(s.ev.node), updated=base, passed=dstar_name)
                if s.kind == "VIEW" and s.name.startswith("VIEW[event_data"):
                    base = show(s.ev.term.value)
                    rep.check(base == f"$c{ed.idx}", rule, s.ev.loc(),
                              f"{eng.name}: the refreshed EventData is the one built for this activation", fn.key,
                              norm_stmt(s.ev.node), updated=base)
    # EventData.__post_init__ and extended_kwargs
    post = ctx.fn("EventData.__post_init__")
    want = {"state": "self.transition.source", "source": "self.transition.source", "target": "self.transition.target"}
    for p in ctx.paths(post):
        got = {e.x["attr"]: xshow(e.x["value"], p.events) for e in p.events
               if e.kind == "store" and isinstance(e.term.value, ast.Name) and e.term.value.id == "self"}
        for f, w in want.items():
            rep.check(got.get(f) == w, rule, post.loc(), f"EventData.{f} starts as {w.split('.', 1)[1]}", post.key,
                      f"self.{f} = {got.get(f)}", got=got.get(f))
    ek = ctx.p.find_fn("EventData.extended_kwargs")
    if ek is None:
        raise AnalysisError("anchor lost: EventData.extended_kwargs")
    rep.note_fn(ek)
    wantk = {"state": "self.state", "source": "self.source", "target": "self.target", "transition": "self.transition",
             "event": "self.trigger_data.event", "model": "self.trigger_data.model", "machine": "self.trigger_data.machine",
             "event_data": "self"}
    from ..shapes import dict_model

    for p in ctx.paths(ek):
        got = {}
        if p.kind == "return":
            dm = dict_model(p, p.value if isinstance(p.value, ast.Dict) else show(p.value))
            if dm is not None:
                got = {k_: xshow(v, p.events) for k_, v in dm.final().items()}
        for key, w in wantk.items():
            g = got.get(key)
            okv = g == w or (key in ("machine",) and g == "self.machine") or (key == "event" and g == "self.event") or \
                (key == "args" and g == "self.args")
            rep.check(bool(okv), rule, ek.loc(), f"extended_kwargs['{key}'] is the event's own {key}", ek.key,
                      f"kwargs['{key}'] = {g}", got=g, expected=w)


def rule_keys(ctx: Ctx):
    """C02.keys: grouper->group table and convention-name prefixes."""
    rep, k = ctx.rep, ctx.k
    documented = {("Transition", "validators"): "VALIDATOR", ("Transition", "cond"): "COND",
                  ("Transition", "before"): "BEFORE", ("Transition", "on"): "ON", ("Transition", "after"): "AFTER",
                  ("State", "enter"): "ENTER", ("State", "exit"): "EXIT"}
    for key, g in documented.items():
        got = k.groupers.get(key)
        rep.check(got == g, "C02.keys", ctx.p.cls(key[0]).method("__init__").loc(),
                  f"{key[0]}.{key[1]} is the {g} group", f"{key[0]}.__init__", f"self.{key[1]} -> CallbackGroup.{got}", got=got)
    prefix_to_grouper = [("on_enter_", "enter"), ("on_exit_", "exit"), ("before_", "before"), ("after_", "after"), ("on_", "on")]
    n = 0
    for cname in ("State", "Transition"):
        fn = ctx.fn(f"{cname}._setup")
        for p in ctx.paths(fn):
            for e in p.calls():
                f = expand(e.term.func, p.events)
                if not (isinstance(f, ast.Attribute) and f.attr == "add" and isinstance(f.value, ast.Attribute)
                        and isinstance(f.value.value, ast.Name) and f.value.value.id == "self"):
                    continue
                grouper = f.value.attr
                if (cname, grouper) not in k.groupers or not e.term.args:
                    continue
                name = e.term.args[0]
                prefix = _const_prefix(name)
                if prefix is None:
                    rep.unrecognised("C02.keys", e.loc(), f"convention name {show(name)} has no constant prefix")
                want = next((g for pre, g in prefix_to_grouper if prefix.startswith(pre)), None)
                n += 1
                rep.check(want == grouper, "C02.keys", e.loc(),
                          f"convention callback `{prefix}…` is registered on the `{want}` group", fn.key,
                          norm_stmt(e.node), grouper=grouper)
                conv = [kw for kw in e.term.keywords if kw.arg == "is_convention"]
                rep.check(bool(conv) and isinstance(conv[0].value, ast.Constant) and conv[0].value.value is True,
                          "C02.keys", e.loc(), f"`{prefix}…` is marked as a convention name (looked up only when defined)",
                          fn.key, norm_stmt(e.node))
    rep.floor("C02.keys", "convention registrations", n, 9)


def rule_support(ctx: Ctx):
    """C02.keys (support functions): executor keys are per (group, spec list); InstanceState delegates
    its groupers; spec equality distinguishes groups (so one name in two groups runs in both)."""
    rep = ctx.rep
    bk = ctx.fn("CallbackGroup.build_key")
    for p in ctx.paths(bk, inline=None, exc_edges="none"):
        v = expand(p.value, p.events)
        parts = {show(x.value) for x in v.values if isinstance(x, ast.FormattedValue)} if isinstance(v, ast.JoinedStr) else set()
        rep.check(parts == {"self.name", f"id({bk.params[1]})"}, "C02.keys", bk.loc(),
                  "an executor key identifies the group and the spec list of one state/transition (no two owners share an executor)",
                  bk.key, f"return {show(v)}")
    gi = ctx.fn("SpecListGrouper.__init__")
    got = {show(t): show(n.value) for n in own_nodes(gi.node) if isinstance(n, ast.Assign) for t in n.targets}
    rep.check(got.get("self.key") == f"{gi.params[2]}.build_key({gi.params[1]})", "C02.keys", gi.loc(), "a grouper's key is built from its group and its list",
              gi.key, f"self.key = {got.get('self.key')}")
    from ..shapes import canon_lookup

    gr = ctx.fn("CallbackSpecList.grouper")
    for p in ctx.paths(gr, inline=None, exc_edges="none"):
        stored = None
        for e in p.of("store"):
            if e.x.get("subscript") and show(e.term.value) == "self._groupers":
                stored = e
                rep.check(show(e.term.slice) == gr.params[1] and xshow(e.x["value"], p.events) == f"SpecListGrouper(self, {gr.params[1]})",
                          "C02.keys", e.loc(), "the grouper is created for this list and this group, and remembered under that group", gr.key,
                          norm_stmt(e.node))
        if p.kind == "return":
            lk = canon_lookup(p.value, p.events)
            same_as_stored = stored is not None and show(p.value) == show(stored.x["value"])
            rep.check(lk == ("self._groupers", gr.params[1]) or same_as_stored, "C02.keys", gr.loc(),
                      "one grouper per group of a spec list (the remembered one, or the one just created and remembered)", gr.key,
                      f"return {xshow(p.value, p.events)}")
    gt = ctx.fn("CallbacksRegistry.__getitem__")
    for p in ctx.paths(gt, inline=None, exc_edges="none"):
        rep.check(p.kind == "return" and canon_lookup(p.value, p.events) == ("self._registry", gt.params[1]), "C02.keys", gt.loc(),
                  "registry[key] is the executor of that key", gt.key, f"return {xshow(p.value, p.events)}")
    ei = ctx.fn("CallbacksExecutor.__iter__")
    for p in ctx.paths(ei, inline=None, exc_edges="none"):
        v_ = xshow(p.value, p.events) if p.kind == "return" else ""
        rep.check(v_ in ("iter(self.items)", "iter(tuple(self.items))", "iter(list(self.items))"), "C02.keys", ei.loc(),
                  "iterating an executor yields every wrapper it holds", ei.key, f"return {v_}")
    rule_snapshot_iteration(ctx, "C02.once")
    rule_spec_identity(ctx)
    inst = ctx.p.cls("InstanceState")
    want = {"name": "self._state().name", "value": "self._state().value", "transitions": "self._state().transitions", "enter": "self._state().enter",
            "exit": "self._state().exit", "initial": "self._state()._initial", "final": "self._state()._final"}
    for nm, w in want.items():
        f = inst.method(nm)
        if f is None:
            raise AnalysisError(f"anchor lost: InstanceState.{nm}")
        rep.note_fn(f)
        for p in ctx.paths(f, inline=None, exc_edges="none"):
            rep.check(p.kind == "return" and xshow(p.value, p.events) == w, "C02.keys", f.loc(), f"the per-instance view of a state delegates `{nm}` to its definition",
                      f.key, f"return {xshow(p.value, p.events)}")


def _self_stores(ctx: Ctx, fn):
    got = {}
    for p in ctx.paths(fn, inline=None, exc_edges="none"):
        if p.kind == "raise":
            continue
        for e in p.of("store"):
            if show(e.term.value) == "self" and e.x.get("attr"):
                got.setdefault(e.x["attr"], xshow(e.x["value"], p.events))
    return got


def rule_plumbing(ctx: Ctx):
    """C02.view (plumbing): the objects the view is read from carry what they were given."""
    rep = ctx.rep
    ti = ctx.fn("Transition.__init__")
    got = _self_stores(ctx, ti)
    for a in ("source", "target", "internal"):
        rep.check(got.get(a) == a, "C02.view", ti.loc(), f"a Transition keeps the `{a}` it was declared with", ti.key, f"self.{a} = {got.get(a)}")
    td = ctx.fn("TriggerData.__post_init__")
    got = _self_stores(ctx, td)
    rep.check(got.get("model") == "self.machine.model", "C02.view", td.loc(), "the trigger's `model` is the machine's model", td.key, f"self.model = {got.get('model')}")
    for nm, want in (("args", "self.trigger_data.args"), ("event", "self.trigger_data.event")):
        f = ctx.p.find_fn(f"EventData.{nm}")
        if f is None:
            raise AnalysisError(f"anchor lost: EventData.{nm}")
        rep.note_fn(f)
        for p in ctx.paths(f, inline=None, exc_edges="none"):
            rep.check(p.kind == "return" and xshow(p.value, p.events) == want, "C02.view", f.loc(), f"EventData.{nm} is the triggering call's {nm}", f.key,
                      f"return {xshow(p.value, p.events)}")
    ec = ctx.fn("Event.__call__")
    for p in ctx.paths(ec, inline=None, exc_edges="none"):
        for e in p.calls():
            if e.x["callee"] and "ctor:TriggerData" in e.x["callee"].tags:
                kw = {k.arg: show(k.value) for k in e.term.keywords}
                rep.check(kw.get("machine") == "self._sm" and kw.get("event") == "self", "C02.view", e.loc(),
                          "the trigger records this event and the machine it is bound to", ec.key, norm_stmt(e.node))
    si = ctx.fn("CallbackSpec.__init__")
    got = _self_stores(ctx, si)
    for a in ("func", "group", "priority", "is_convention"):
        rep.check(got.get(a) == a, "C02.keys", si.loc(), f"a callback spec keeps its `{a}`", si.key, f"self.{a} = {got.get(a)}")


def rule_providers(ctx: Ctx):
    """C02.providers: callbacks of machine, model and listeners are all attached through the same path."""
    from . import c12

    c12.rule_samepath(ctx, rule="C02.providers")
    c12.rule_filter(ctx, rule="C02.providers")
    # ... each provider offering everything `dir()` of the object lists, under its own identity
    c12.rule_provider_attrs(ctx, rule="C02.providers", attrs_rule="C02.providers")


def _const_prefix(t: ast.AST):
    if isinstance(t, ast.Constant) and isinstance(t.value, str):
        return t.value
    if isinstance(t, ast.JoinedStr) and t.values and isinstance(t.values[0], ast.Constant):
        return t.values[0].value
    return None


def rule_scope(ctx: Ctx, rule: str = "C02.scope"):
    """C02.scope: event-named callbacks carry the is_same_event condition; executors filter on it."""
    rep, k = ctx.rep, ctx.k
    fn = ctx.fn("Transition._setup")
    n_scoped = n_generic = 0
    seen = set()
    for p in ctx.paths(fn):
        for e in p.calls():
            f = expand(e.term.func, p.events)
            if not (isinstance(f, ast.Attribute) and f.attr == "add" and isinstance(f.value, ast.Attribute)):
                continue
            if ("Transition", f.value.attr) not in k.groupers or not e.term.args:
                continue
            name = e.term.args[0]
            cond = next((kw.value for kw in e.term.keywords if kw.arg == "cond"), None)
            sig = (e.line, show(name), show(cond))
            if sig in seen:
                continue
            seen.add(sig)
            if isinstance(name, ast.JoinedStr):
                fvs = [v.value for v in name.values if isinstance(v, ast.FormattedValue)]
                elems = [show(v) for v in fvs]
                per_event = [v for v in fvs if isinstance(v, ast.Subscript) and xshow(v.value, p.events) in
                             ("self._events", "list(self._events)", "tuple(self._events)", "self.events", "list(self.events)", "tuple(self.events)")]
                if not per_event:
                    rep.unrecognised(rule, e.loc(), f"formatted convention name {show(name)} not built from an event of self._events")
                n_scoped += 1
                want = f"{xshow(per_event[0], p.events)}.is_same_event"
                got = xshow(cond, p.events) if cond is not None else None
                rep.check(got == want, rule, e.loc(),
                          "event-named convention callback is scoped to its own event (cond=<event>.is_same_event)",
                          fn.key, norm_stmt(e.node), name=show(name), cond=got, expected=want)
            else:
                n_generic += 1
                rep.check(cond is None or (isinstance(cond, ast.Constant) and cond.value is None), rule, e.loc(),
                          "generic convention callback carries no event condition", fn.key, norm_stmt(e.node), name=show(name))
    rep.floor(rule, "event-scoped registrations", n_scoped, 3)
    rep.floor(rule, "generic registrations", n_generic, 3)
    # is_same_event is an equality between the event itself and the `event` keyword
    ise = ctx.fn("Event.is_same_event")
    for p in ctx.paths(ise):
        v = p.value
        ok = (p.kind == "return" and isinstance(v, ast.Compare) and len(v.ops) == 1 and isinstance(v.ops[0], ast.Eq)
              and {show(v.left), show(v.comparators[0])} == {"self", "event"})
        rep.check(ok, rule, ise.loc(), "is_same_event compares the whole event with the triggering `event`",
                  ise.key, f"return {show(v)}")
    # executors filter on callback.condition
    from ..shapes import executor_collect

    for name in ("call", "async_call"):
        ex = ctx.fn(f"CallbacksExecutor.{name}")
        shapes = executor_collect(ctx, ex)
        if not shapes:
            rep.unrecognised(rule, ex.loc(), f"CallbacksExecutor.{name}: callback invocation shape not recognised")
        for c in shapes:
            ok = ("ELEM.condition(*args, **kwargs)", True) in c.filters and all(pol for _, pol in c.filters)
            rep.check(ok, rule, ex.loc(), f"CallbacksExecutor.{name} runs only callbacks whose condition holds", ex.key,
                      f"{c.form}: value={c.value} filters={c.filters}")
    # executor.add takes the condition from spec.cond
    add = ctx.fn("CallbacksExecutor.add")
    found = False
    for p in ctx.paths(add):
        for e in p.calls():
            if e.x["callee"] and "ctor:CallbackWrapper" in e.x["callee"].tags:
                found = True
                kw = {kw.arg: kw.value for kw in e.term.keywords}
                c = kw.get("condition")
                if c is None and len(e.term.args) > 1:
                    c = e.term.args[1]
                got = xshow(c, p.events) if c is not None else None
                pol = [b.x["taken"] for b in p.events[: e.idx] if b.kind == "branch" and "spec.cond" in show(b.term)]
                if pol and ((pol[-1] and "is not None" in show([b for b in p.events[: e.idx] if b.kind == "branch"][-1].term))
                            or (not pol[-1] and "is None" in show([b for b in p.events[: e.idx] if b.kind == "branch"][-1].term)
                                and "is not None" not in show([b for b in p.events[: e.idx] if b.kind == "branch"][-1].term))):
                    rep.check(got == "spec.cond", rule, e.loc(), "wrapper condition is the spec's own condition when it has one",
                              add.key, norm_stmt(e.node), got=got)
                elif not pol:
                    rep.check(got is not None and "spec.cond" in got, rule, e.loc(),
                              "wrapper condition derives from spec.cond", add.key, norm_stmt(e.node), got=got)
    if not found:
        raise AnalysisError("anchor lost: CallbackWrapper construction in CallbacksExecutor.add")


def rule_initial(ctx: Ctx):
    """C02.initial"""
    rep, k = ctx.rep, ctx.k
    it = ctx.fn(f"BaseEngine.{ctx.k.initial_transition_name}")
    literals = {}
    for p in ctx.paths(it):
        if p.kind != "return":
            rep.violation("C02.initial", it.loc(), "initial pseudo-transition builder does not return", it.key, p.kind)
            continue
        v = expand(p.value, p.events)
        ok = isinstance(v, ast.Call) and show(v.func) == "Transition"
        src = tgt = evt = None
        if ok:
            args = list(v.args)
            kws = {kw.arg: kw.value for kw in v.keywords}
            src = args[0] if args else kws.get("source")
            tgt = args[1] if len(args) > 1 else kws.get("target")
            evt = args[2] if len(args) > 2 else kws.get("event")
        rep.check(ok and src is not None and show(src) == "State()", "C02.initial", it.loc(),
                  "initial pseudo-transition leaves a fresh, callback-free State()", it.key, f"return {show(v)}", source=show(src))
        rep.check(ok and tgt is not None and show(tgt) == "self.sm._get_initial_state()", "C02.initial", it.loc(),
                  "initial pseudo-transition targets _get_initial_state()", it.key, f"return {show(v)}", target=show(tgt))
        rep.check(ok and isinstance(evt, ast.Constant) and isinstance(evt.value, str), "C02.initial", it.loc(),
                  "initial pseudo-transition has a literal event id", it.key, f"return {show(v)}", event=show(evt))
        if ok and isinstance(evt, ast.Constant):
            literals["_initial_transition"] = evt.value
        # specs emptied before return
        ret_name = show(p.value)
        cleared = False
        for e in p.events:
            if e.kind == "call" and isinstance(e.term.func, ast.Attribute) and e.term.func.attr == "clear":
                recv = e.term.func.value
                if isinstance(recv, ast.Attribute) and recv.attr == "_specs" and show(recv.value) == ret_name:
                    cleared = True
            if e.kind == "store" and e.x.get("attr") == "_specs" and show(e.term.value) == ret_name:
                cleared = True
        rep.check(cleared, "C02.initial", it.loc(),
                  "the pseudo-transition's own callback specs are emptied before it is used (only the target's enter group can run)",
                  it.key, "no `_specs.clear()` on the returned transition")
    st = ctx.fn("BaseEngine.start")
    for p in ctx.paths(st, inline=None, exc_edges="none"):
        for e in p.calls():
            if show(e.term.func) == "BoundEvent":
                a0 = e.term.args[0] if e.term.args else next((kw.value for kw in e.term.keywords if kw.arg in ("id", "transitions")), None)
                if isinstance(a0, ast.Constant):
                    literals["start"] = a0.value
    for eng in k.engines:
        tr = k.engine_fn(eng, "_trigger")
        trg = trigger_param(tr)
        found = False
        for p in ctx.paths(tr, exc_edges="none"):
            from ..kernel import initial_test

            for b in p.of("branch"):
                t = b.term
                it_ = initial_test(t)
                if it_ is not None:
                    sides = [t.left, t.comparators[0]]
                    lit = [s for s in sides if isinstance(s, ast.Constant) and isinstance(s.value, str)]
                    other = [s for s in sides if not isinstance(s, ast.Constant)]
                    by_name = bool(lit) and bool(other) and xshow(other[0], p.events) == f"{trg}.event"
                    by_identity = not lit and any(show(s) == trg for s in sides)
                    if by_name or by_identity:
                        literals[f"{eng.name}._trigger"] = lit[0].value if lit else literals.get("start")
                        if b.x["taken"] is not it_:
                            continue
                        found = True
                        calls = [e for e in p.events[b.idx:] if e.kind == "call"]
                        it_calls = [e for e in calls if k.calls_method(e, k.initial_transition_name)]
                        act = [e for e in calls if k.calls_method(e, "_activate")]
                        ok = bool(it_calls) and len(act) == 1 and it_calls[0].idx < act[0].idx and len(act[0].term.args) >= 2 \
                            and show(act[0].term.args[1]) == show(result_of(it_calls[0], p))
                        rep.check(ok, "C02.initial", b.loc(),
                                  f"{eng.name}: the `__initial__` trigger activates exactly the initial pseudo-transition",
                                  tr.key, norm_stmt(b.node))
        if not found:
            rep.violation("C02.initial", tr.loc(), f"{eng.name}._trigger has no branch routing the initial trigger",
                          tr.key, "missing `event == '__initial__'` branch")
    vals = set(literals.values())
    rep.check(len(vals) == 1 and len(literals) >= 2 + len(k.engines), "C02.initial", st.loc(),
              "the initial-event literal agrees between start(), _initial_transition() and every _trigger()", "BaseEngine.start",
              f"literals: {sorted(literals.items())}", literals=literals)


def rule_once(ctx: Ctx, rule: str = "C02.once"):
    """C02.once: de-duplication guards dominate insertion."""
    rep = ctx.rep
    fn = ctx.fn("CallbackSpecList._add")
    n = 0
    for p in ctx.paths(fn):
        for e in p.calls():
            f = e.term.func
            if isinstance(f, ast.Attribute) and f.attr in ("append", "insert", "add") and show(f.value) == "self.items":
                n += 1
                arg = show(e.term.args[-1]) if e.term.args else "?"
                guard = [b for b in p.events[: e.idx] if b.kind == "branch" and isinstance(b.term, ast.Compare)
                         and isinstance(b.term.ops[0], ast.In) and show(b.term.comparators[0]) == "self.items"
                         and show(b.term.left) == arg and b.x["taken"] is False]
                rep.check(bool(guard), rule, e.loc(), "a spec is appended only when it is not already in the list",
                          fn.key, norm_stmt(e.node))
    rep.floor(rule, "spec insertions", n, 1)
    fn = ctx.fn("CallbacksExecutor.add")
    n = 0
    for p in ctx.paths(fn):
        for e in p.calls():
            f = e.term.func
            is_ins = (isinstance(f, ast.Name) and f.id == "insort" and e.term.args and show(e.term.args[0]) == "self.items") or (
                isinstance(f, ast.Attribute) and f.attr in ("append", "appendleft", "insert") and show(f.value) == "self.items")
            if not is_ins:
                continue
            n += 1
            def is_key(t):
                return show(t) == "key" or (isinstance(t, ast.Tuple) and t.elts and show(t.elts[0]) == "key")

            guard = [b for b in p.events[: e.idx] if b.kind == "branch" and isinstance(b.term, ast.Compare)
                     and isinstance(b.term.ops[0], ast.In) and is_key(b.term.left) and b.x["taken"] is False]
            seen_sets = {show(b.term.comparators[0]) for b in guard}
            seen_keys = {show(b.term.left) for b in guard}
            marks = [c for c in p.events[: e.idx] if c.kind == "call" and isinstance(c.term.func, ast.Attribute)
                     and c.term.func.attr == "add" and show(c.term.func.value) in seen_sets and c.term.args
                     and show(c.term.args[0]) in seen_keys]
            rep.check(bool(guard) and bool(marks), rule, e.loc(),
                      "a wrapper is inserted only for a key not seen before, and the key is recorded", fn.key, norm_stmt(e.node))
    rep.floor(rule, "wrapper insertions", n, 1)


def rule_spec_identity(ctx: Ctx, rule: str = "C02.once"):
    """Spec equality decides what `_add` drops as duplicate: it must compare the callable itself (`func`) and the group.
    Read as a boolean function over the comparisons it makes: true only when func AND group agree."""
    from .. import boolfn

    rep = ctx.rep
    eq = ctx.fn("CallbackSpec.__eq__")
    other = eq.params[1] if len(eq.params) > 1 else "other"
    n = 0
    for p in ctx.paths(eq, inline=None, exc_edges="none"):
        if p.kind != "return":
            continue
        n += 1
        v = expand(p.value, p.events)
        seen_atoms = set()

        def atom(x):
            if isinstance(x, ast.Compare) and len(x.ops) == 1 and isinstance(x.ops[0], ast.Eq):
                l, r = show(x.left), show(x.comparators[0])
                for a in ("func", "group", "expected_value", "attr_name", "reference", "is_convention", "priority", "cond"):
                    if {l, r} == {f"self.{a}", f"{other}.{a}"}:
                        seen_atoms.add(a)
                        return a.upper()
            if isinstance(x, ast.Call) and show(x.func) == "isinstance":
                return "ISINST"
            return None

        names = ["FUNC", "GROUP", "EXPECTED_VALUE", "ATTR_NAME", "REFERENCE", "IS_CONVENTION", "PRIORITY", "COND", "ISINST"]
        dom = {a: [True, False] for a in names}
        try:
            got = boolfn.table(v, atom, dom)
        except boolfn.Unrecognised as u:
            if isinstance(v, ast.Constant) or show(v) == "NotImplemented":
                continue
            rep.unrecognised(rule, eq.loc(), f"spec equality uses `{u}`")
            continue
        idx = {a: i for i, a in enumerate(sorted(dom))}
        implies = all((not val) or (k_[idx["FUNC"]] and k_[idx["GROUP"]]) for k_, val in got.items())
        rep.check(implies and "func" in seen_atoms and "group" in seen_atoms, rule, eq.loc(),
                  "two specs are the same only if callable and group agree (a name used in two groups runs in both; two callables "
                  "with one name are two callbacks)", eq.key, f"return {show(v)}")
    rep.floor(rule, "returning paths of CallbackSpec.__eq__", n, 1)


def rule_awaited_once(ctx: Ctx):
    """C02.once (async engine): a callback whose result is awaitable has run only once that result was awaited, whatever
    kind of callable produced it (coroutine function, decorated wrapper, lambda returning a coroutine)."""
    from . import c05

    c05.rule_wrapper(ctx, rule="C02.once")


def rule_own_event_view(ctx: Ctx):
    """C02.view: the event/source/target/state a callback sees are those of ITS event: values a caller passes under the
    reserved names (e.g. kwargs forwarded from a parent event) never replace them."""
    from . import c07

    c07.rule_reserved(ctx, rule="C02.view")
    c07.rule_layer(ctx, rule="C02.view")


def rule_called_each_time(ctx: Ctx):
    """C02.once: every applicable callback is *called* (exactly once per executed transition): what the executor stores is
    the built callable itself, not a memo that answers for it."""
    from . import c01

    c01.rule_stored_callable(ctx, rule="C02.once")


def rule_failure_stops_sequence(ctx: Ctx, rule: str = "C02.order"):
    """C02.order (async engine): the groups run strictly one after the other and a group that did not complete - a callback
    raised, or was cancelled - is the end of the sequence.  Collecting a group with `gather(..., return_exceptions=True)` (or
    `asyncio.wait`) turns failures into values: whatever the code then forgets to re-raise (CancelledError is not an
    Exception) counts as success and the later groups run."""
    rep = ctx.rep
    n = 0
    for fn in ctx.p.all_functions():
        if isinstance(fn.node, ast.Lambda):
            continue
        for nd in own_nodes(fn.node):
            if not isinstance(nd, ast.Call):
                continue
            name = show(nd.func).split(".")[-1]
            if name == "gather":
                n += 1
                kw = next((k for k in nd.keywords if k.arg == "return_exceptions"), None)
                bad = kw is not None and not (isinstance(kw.value, ast.Constant) and kw.value.value is False)
                rep.check(not bad, rule, fn.loc(nd), "a group of coroutine callbacks is gathered with failures propagating as exceptions "
                          "(no return_exceptions): a failed or cancelled callback ends the sequence", fn.key, norm_stmt(nd))
            elif name == "wait" and show(nd.func) in ("asyncio.wait", "wait"):
                n += 1
                rep.violation(rule, fn.loc(nd), "callbacks are collected with asyncio.wait, which reports failures as values", fn.key, norm_stmt(nd))
    rep.floor(rule, "gather sites in the package", n, 1)


def rule_snapshot_iteration(ctx: Ctx, rule: str = "C02.once"):
    """A callback of the group being run may attach a listener (`add_listener` inserts into the executor's `items`): the group
    runs over a snapshot, or the deque raises "mutated during iteration" in the middle of the transition."""
    rep = ctx.rep
    ei = ctx.fn("CallbacksExecutor.__iter__")
    for p in ctx.paths(ei, inline=None, exc_edges="none"):
        v_ = xshow(p.value, p.events) if p.kind == "return" else ""
        rep.check(v_ != "iter(self.items)" and "self.items" in v_, rule, ei.loc(), "a running callback group iterates a snapshot of its callbacks "
                  "(attaching a listener from inside a callback does not break the group)", ei.key, f"return {v_}")


RULES = [rule_own_event_view, rule_order, rule_view, rule_plumbing, rule_keys, rule_support, rule_scope, rule_initial, rule_once, rule_providers, rule_awaited_once, rule_called_each_time, rule_failure_stops_sequence]
