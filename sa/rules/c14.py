"""C14 - Event results come only from before/on return values, by the documented rule."""

from __future__ import annotations

import ast
import operator

from ..context import Ctx
from ..kernel import expand, expand1, placeholder_closure, result_of, xshow
from ..loader import AnalysisError, norm_stmt
from ..paths import show
from .engine_model import activate_paths

EXPLANATION = (
    "On every executing path of `_activate` (both engines) the value returned as the event's result is traced back "
    "through def-use terms: it must be built from exactly the BEFORE group's result list followed by the ON group's, and "
    "from no other group call; the 0/1/many unwrap is decided with a small value-set domain (the set of list lengths "
    "consistent with the length tests on the path must be {0} for None, {1} for the single element, only >=2 for the list); "
    "the collecting executors must return every selected callback's value unfiltered (gather keeps order); `_trigger` must "
    "hand out that value only when the transition executed and None otherwise. Concrete return values are not computed."
    " Added after seeded batch 9: event-named before/on callbacks carry the same-event condition on every transition (so only this event's callbacks contribute), and each provider is inspected as the object it is (dir() of the attached object)."
)
EXPLANATION += (
    " " + 'Two clauses are shared with other properties because they are necessary here too: spec identity (a callback dropped as duplicate contributes no result - C02.once) and queue clearing on every failure (stale triggers would answer the next call - C04.clear).'
)
ASSUMPTIONS = ["list concatenation and asyncio.gather preserve order (language/library semantics)"]
TRUSTED = ["/verif/sa path enumerator (def-use terms)"]

OPS = {ast.Eq: operator.eq, ast.NotEq: operator.ne, ast.Lt: operator.lt, ast.LtE: operator.le, ast.Gt: operator.gt, ast.GtE: operator.ge}


def _len_facts(path, x_txt):
    """[(op, n, polarity)] for branches on `len(X) <op> n`, `not X`, `X` along the path."""
    facts = []
    for b in path.of("branch"):
        t = expand1(b.term, path.events)
        pol = b.x["taken"]
        if isinstance(t, ast.Compare) and len(t.ops) == 1 and type(t.ops[0]) in OPS:
            l, r = t.left, t.comparators[0]
            if isinstance(l, ast.Call) and show(l.func) == "len" and show(l.args[0]) == x_txt and isinstance(r, ast.Constant):
                facts.append((OPS[type(t.ops[0])], r.value, pol, show(t)))
            elif isinstance(r, ast.Call) and show(r.func) == "len" and show(r.args[0]) == x_txt and isinstance(l, ast.Constant):
                op = OPS[type(t.ops[0])]
                facts.append((lambda a, b_, op=op: op(b_, a), l.value, pol, show(t)))
        elif show(b.term) == x_txt:
            facts.append((operator.ne, 0, pol, x_txt))
        elif isinstance(t, ast.Call) and show(t.func) == "len" and show(t.args[0]) == x_txt:
            facts.append((operator.ne, 0, pol, show(t)))
    return facts


def rule_flow(ctx: Ctx, flow: str = "C14.flow", unwrap: str = "C14.unwrap"):
    rep, k = ctx.rep, ctx.k
    for eng in k.engines:
        fn, tp, aps = activate_paths(ctx, eng)
        n = 0
        for ap in aps:
            if not ap.executing:
                if ap.executing is False:
                    r = ap.ret.elts[1] if isinstance(ap.ret, ast.Tuple) and len(ap.ret.elts) == 2 else None
                    rep.check(isinstance(r, ast.Constant) and r.value is None, flow, fn.loc(),
                              f"{eng.name}: a rejected candidate contributes no result", fn.key, f"return {show(ap.ret)}")
                continue
            n += 1
            evs = ap.path.events
            groups = {f"$c{s.ev.idx}": s.gc.group for s in ap.syms if s.kind == "G"}
            # inlined helpers: group results may be returned through `leave` terms, closure handles it
            if not (isinstance(ap.ret, ast.Tuple) and len(ap.ret.elts) == 2):
                rep.unrecognised(flow, fn.loc(), f"return value {show(ap.ret)}")
            R = ap.ret.elts[1]
            deps = {groups[p] for p in placeholder_closure(R, evs) if p in groups}
            before = [p for p, g in groups.items() if g == "BEFORE"]
            on = [p for p, g in groups.items() if g == "ON"]
            x_txt = f"{before[0]} + {on[0]}" if before and on else "?"
            facts = _len_facts(ap.path, x_txt)
            lengths = [L for L in (0, 1, 2, 3) if all(op(L, c) == pol for op, c, pol, _ in facts)]
            bad_groups = deps - {"BEFORE", "ON"}
            if bad_groups:
                rep.violation(flow, fn.loc(), f"{eng.name}: the event result also contains the results of {sorted(bad_groups)} callbacks",
                              fn.key, f"return {show(ap.ret)}", derives_from=sorted(deps))
                continue
            rtxt = show(R)
            if isinstance(R, ast.Constant) and R.value is None:
                shape = "none"
            elif rtxt == f"({x_txt})[0]":
                shape = "single"
            elif rtxt == x_txt:
                shape = "list"
            else:
                # same operands in another arrangement?
                if deps and set(n_.id for n_ in ast.walk(R) if isinstance(n_, ast.Name)) & set(before + on):
                    rep.violation(flow, fn.loc(),
                                  f"{eng.name}: the result is `{xshow(R, evs)}`, not the before results followed by the on results",
                                  fn.key, f"return {rtxt}", expected=x_txt)
                    continue
                rep.unrecognised(flow, fn.loc(), f"result expression `{rtxt}`")
            rep.ok(flow, fn.loc(), f"{eng.name}: the result is built from the before results followed by the on results only",
                   result=rtxt, derives_from=sorted(deps))
            want = {"none": [0], "single": [1], "list": [2, 3]}[shape]
            ok = bool(lengths) and set(lengths) <= set(want) and (shape != "list" or lengths == [2, 3])
            rep.check(ok, unwrap, fn.loc(),
                      f"{eng.name}: `{ {'none': 'None', 'single': 'the single value', 'list': 'the list'}[shape] }` is returned exactly for "
                      f"{ {'none': 'zero', 'single': 'one', 'list': 'two or more'}[shape] } before/on results",
                      fn.key, f"returns {shape} when the number of results may be {lengths} (tests: {[f[3] + '==' + str(f[2]) for f in facts]})",
                      lengths=lengths, shape=shape)
        rep.floor(flow, f"executing paths of {eng.name}._activate", n, 3)
        shapes = set()
        for ap in aps:
            if ap.executing and isinstance(ap.ret, ast.Tuple):
                R = ap.ret.elts[1]
                shapes.add("none" if isinstance(R, ast.Constant) else ("single" if isinstance(R, ast.Subscript) else "list"))
        rep.check(shapes == {"none", "single", "list"}, unwrap, fn.loc(), f"{eng.name}: all three unwrap cases (0, 1, many) exist",
                  fn.key, f"unwrap cases present: {sorted(shapes)}")


def rule_collect(ctx: Ctx, rule: str = "C14.collect"):
    from ..shapes import canon_lookup, collect_from_comp, collect_from_loop, missing_fact, through_getitem

    rep = ctx.rep
    # sync: every selected callback's value, in order, unfiltered (comprehension or explicit append loop)
    from ..shapes import executor_collect

    fn = ctx.fn("CallbacksExecutor.call")
    shapes = executor_collect(ctx, fn)
    if not shapes:
        rep.unrecognised(rule, fn.loc(), "executor.call is neither a list comprehension nor an append loop over the executor")
    for c in shapes:
        ok = c.source in ("self", "self.items", "iter(self.items)") and c.value == "ELEM.call(*args, **kwargs)" and \
            c.filters == [("ELEM.condition(*args, **kwargs)", True)] and "wrapper" not in c.extra
        rep.check(ok, rule, fn.loc(), "executor.call returns the value of every selected callback, in order, unfiltered "
                  "(an explicit None stays in the list)", fn.key, f"{c.form}: value={c.value} filters={c.filters} over {c.source}")
    fn = ctx.fn("CallbacksExecutor.async_call")
    shapes = executor_collect(ctx, fn)
    if not shapes:
        rep.unrecognised(rule, fn.loc(), "executor.async_call is not gather(*<collection over the executor>)")
    for c in shapes:
        ok = c.source in ("self", "self.items") and c.value == "ELEM(*args, **kwargs)" and c.filters == [("ELEM.condition(*args, **kwargs)", True)] and \
            c.extra.get("wrapper") == "asyncio.gather" and not c.extra.get("wrapper_kwargs") and c.extra.get("awaited")
        rep.check(bool(ok), rule, fn.loc(), "executor.async_call awaits gather() over every selected callback (order-preserving)",
                  fn.key, f"{c.extra.get('wrapper')}(*{c.form}): value={c.value} filters={c.filters} over {c.source} kwargs={c.extra.get('wrapper_kwargs')}")
    for meth, empty in (("call", "[]"),):
        reg = ctx.fn(f"CallbacksRegistry.{meth}")
        key = reg.params[1]
        for p in ctx.paths(reg, exc_edges="none"):
            if p.kind != "return":
                continue
            v = expand1(p.value, p.events)
            if isinstance(v, ast.List) and not v.elts:
                miss = missing_fact(p, "self._registry", key)
                rep.check(miss is True, rule, reg.loc(), "registry.call yields [] only for a group nobody registered", reg.key,
                          f"return [] with missing={miss}")
            else:
                lk = canon_lookup(v.func.value, p.events) if isinstance(v, ast.Call) and isinstance(v.func, ast.Attribute) else None
                lk = through_getitem(ctx, "CallbacksRegistry", lk)
                ok = lk == ("self._registry", key) and v.func.attr == meth and [show(a) for a in v.args] == ["*args"] and \
                    [show(k_.value) for k_ in v.keywords if k_.arg is None] == ["kwargs"]
                rep.check(bool(ok), rule, reg.loc(), "registry.call hands the event's arguments to the executor of that key and returns its list", reg.key,
                          f"return {show(v)}")
    rega = ctx.fn("CallbacksRegistry.async_call")
    for p in ctx.paths(rega, exc_edges="none"):
        v = expand1(p.value, p.events) if p.kind == "return" else None
        lk = canon_lookup(v.func.value, p.events) if isinstance(v, ast.Call) and isinstance(v.func, ast.Attribute) else None
        lk = through_getitem(ctx, "CallbacksRegistry", lk)
        ok = lk == ("self._registry", rega.params[1]) and v.func.attr == "async_call" and [show(a) for a in v.args] == ["*args"]
        rep.check(bool(ok), rule, rega.loc(), "registry.async_call delegates to the executor of that key", rega.key, f"return {show(v)}")


def rule_none(ctx: Ctx):
    rep, k = ctx.rep, ctx.k
    for eng in k.engines:
        fn = k.engine_fn(eng, "_trigger")
        n = 0
        for p in ctx.paths(fn, exc_edges="none"):
            if p.kind != "return":
                continue
            from ..kernel import initial_test

            init = any(initial_test(b.term) is not None and (b.x["taken"] is initial_test(b.term)) for b in p.of("branch"))
            if init:
                continue
            n += 1
            acts = [e for e in p.calls() if k.calls_method(e, "_activate")]
            executed = None
            for a in acts:
                res = show(result_of(a, p))
                for b in p.of("branch"):
                    if show(b.term) == f"{res}[0]" and b.x["taken"]:
                        executed = a
            v = show(p.value)
            if executed is None:
                # a rejected activation's result component is None (C14.flow), so handing it out is the same as None
                rejected = {f"{show(result_of(a, p))}[1]" for a in acts}
                rep.check(v == "None" or v in rejected, "C14.none", fn.loc(), f"{eng.name}: an event that fired no transition returns None", fn.key,
                          f"return {xshow(p.value, p.events)} with no executed activation")
            else:
                res = show(result_of(executed, p))
                rep.check(v == f"{res}[1]", "C14.none", fn.loc(), f"{eng.name}: the event returns the result of the transition that executed",
                          fn.key, f"return {xshow(p.value, p.events)}")
        rep.floor("C14.none", f"return paths of {eng.name}._trigger", n, 3)


def rule_first(ctx: Ctx):
    """C14.first: what the caller receives is the result of the first event its call caused to be processed."""
    from . import c03

    c03.rule_first(ctx, rule="C14.first")


def rule_every_callback(ctx: Ctx):
    """C14.collect: a before/on callback that is dropped at registration contributes no result (spec identity)."""
    from . import c02

    c02.rule_once(ctx, rule="C14.collect")
    c02.rule_spec_identity(ctx, rule="C14.collect")


def rule_stale_queue(ctx: Ctx):
    """C14.first: triggers left in the queue by a failed event run in front of the next event, whose caller then
    receives *their* result (first result wins)."""
    from . import c04

    c04.rule_clear(ctx, rule="C14.first")


def rule_own_event(ctx: Ctx):
    """C14.collect: which before/on callbacks contribute is decided by the event being processed; a payload keyword named
    like a built-in (`event=...`) must not replace it (the same-event filter would pick another event's callbacks)."""
    from . import c07

    c07.rule_reserved(ctx, rule="C14.collect")
    c07.rule_layer(ctx, rule="C14.collect")


def rule_registered_callable_runs(ctx: Ctx):
    """C14.collect: the value a callback contributes is returned by the callable that was registered: the builders that wrap
    a provider's attribute run for every callable (no memo in front of them serving the wrapper of another callable)."""
    from ..wrappers import check_fresh
    from .c07 import _resolution_pipeline

    check_fresh(ctx, "C14.collect", _resolution_pipeline(ctx), "results come from the registered callbacks' own return values")


def rule_every_provider_contributes(ctx: Ctx):
    """C14.collect: the before/on callbacks whose values make up the result include those of every listener that was attached:
    each attachment resolves exactly the listeners it was given, against every state and transition."""
    from . import c12

    c12.rule_samepath(ctx, rule="C14.collect")


def rule_results_are_awaited_values(ctx: Ctx):
    """C14.collect: the values collected from coroutine callbacks are their awaited results: the flag that makes the machine use
    the awaiting engine is true for every callable that hands back a coroutine."""
    from . import c05

    c05.rule_flag_chain(ctx, rule="C14.collect")


def rule_only_this_events_callbacks(ctx: Ctx):
    """C14.collect: the values that make up an event's result come from the before/on callbacks of *that* event: the convention
    callbacks named after an event carry the same-event condition on every transition, however many events the transition had when
    it was set up (a subclass can bind a second event to an inherited transition later)."""
    from . import c02

    c02.rule_scope(ctx, rule="C14.collect")


def rule_providers_inspected_per_object(ctx: Ctx):
    """C14.collect: which before/on callbacks a model or listener contributes is read from that object (instance attributes
    included), not remembered from another object of the same class."""
    from . import c12

    c12.rule_allproviders(ctx, rule="C14.collect")
    c12.rule_provider_attrs(ctx, rule="C14.collect", attrs_rule="C14.collect")


RULES = [rule_flow, rule_collect, rule_none, rule_first, rule_every_callback, rule_stale_queue, rule_own_event, rule_registered_callable_runs, rule_results_are_awaited_values, rule_every_provider_contributes, rule_only_this_events_callbacks, rule_providers_inspected_per_object]
