"""C18 - The generated diagram is a faithful picture of the machine."""

from __future__ import annotations

import ast

from ..context import Ctx
from ..kernel import expand, expand1, xshow
from ..loader import AnalysisError, FuncInfo, norm_stmt
from ..paths import show
from ..resolve import own_nodes

EXPLANATION = (
    "Argument dataflow in contrib/diagram.py, on every path of get_graph and its helpers: one add_node(_state_as_node(state)) "
    "per element of machine.states, unconditionally; the initial pseudo-node and one edge from its name to initial_state.id; "
    "add_edge exactly for the transitions whose `internal` flag is false, built as Edge(transition.source.id, "
    "transition.target.id) with a label derived from the transition's events and guard specs; internal transitions are listed "
    "inside their state's label; `peripheries` is 2 exactly for final states; the highlight branch compares the state with the "
    "machine's current state. pydot's own rendering (Edge(src, dst), Node(name)) is trusted."
)
ASSUMPTIONS = ["pydot.Edge(src, dst) draws src -> dst; pydot.Node(name) is identified by name"]
TRUSTED = ["pydot", "/verif/sa path enumerator"]

CLS = "DotGraphMachine"


def _inline_dia(callee: FuncInfo, depth: int, node) -> bool:
    return callee.cls is not None and callee.cls.name == CLS and callee.name.startswith("_") and callee.name in (
        "_get_graph", "_initial_node", "_initial_edge", "_state_as_node", "_transition_as_edge")


def rule_graph(ctx: Ctx):
    rep = ctx.rep
    fn = ctx.fn(f"{CLS}.get_graph")
    n_node = n_edge = 0
    for p in ctx.paths(fn, inline=None, exc_edges="none", unroll=2):
        evs = p.events
        its = [e for e in evs if e.kind == "iter" and e.x.get("loop") == "for"]
        state_its = [i for i in its if xshow(i.term, evs) == "self.machine.states"]
        if its and not state_its:
            rep.violation("C18.nodes", its[0].loc(), "the diagram does not range over machine.states", fn.key, norm_stmt(its[0].node), iterates=xshow(its[0].term, evs))
            continue
        graph = None
        for e in p.calls():
            if show(e.term.func) == "self._get_graph":
                graph = f"$c{e.idx}"
        for i, it in enumerate(state_its):
            nxt = state_its[i + 1].idx if i + 1 < len(state_its) else len(evs)
            seg = evs[it.idx: nxt]
            st = show(it.x["elem"])
            nodes = [e for e in seg if e.kind == "call" and isinstance(e.term.func, ast.Attribute) and e.term.func.attr == "add_node"]
            n_node += 1
            ok = len(nodes) == 1 and show(nodes[0].term.func.value) == graph and xshow(nodes[0].term.args[0], evs) == f"self._state_as_node({xshow(it.x['elem'], evs)})"
            # unconditional: no branch between the iteration header and add_node
            cond = [b for b in seg if b.kind == "branch" and nodes and b.idx < nodes[0].idx]
            rep.check(ok and not cond, "C18.nodes", it.loc(), "every state of the machine gets exactly one node, unconditionally", fn.key,
                      "; ".join(e.show() for e in nodes) or "no add_node for this state", conditions=[b.show() for b in cond])
            tr_its = [t for t in seg if t.kind == "iter" and t.x.get("loop") == "for" and t is not it]
            for j, ti in enumerate(tr_its):
                ok_it = f"{st}.transitions" in (show(ti.term), show(expand1(ti.term, evs))) or xshow(ti.term, evs) == f"{xshow(it.x['elem'], evs)}.transitions"
                rep.check(ok_it, "C18.edges", ti.loc(), "edges are drawn from the state's own outgoing transitions", fn.key, norm_stmt(ti.node))
                end = tr_its[j + 1].idx if j + 1 < len(tr_its) else nxt
                tseg = evs[ti.idx: end]
                tr = show(ti.x["elem"])
                internal = [b for b in tseg if b.kind == "branch" and f"{tr}.internal" in (show(b.term), show(expand1(b.term, evs)))]
                edges = [e for e in tseg if e.kind == "call" and isinstance(e.term.func, ast.Attribute) and e.term.func.attr == "add_edge"]
                n_edge += 1
                if not internal:
                    rep.violation("C18.edges", ti.loc(), "edges are drawn without looking at the transition's `internal` flag "
                                  "(internal transitions would appear as edges)", fn.key, norm_stmt(ti.node))
                    continue
                if internal[0].x["taken"]:
                    rep.check(not edges, "C18.edges", ti.loc(), "an internal transition is not drawn as an edge", fn.key, "add_edge for an internal transition")
                else:
                    ok = len(edges) == 1 and show(edges[0].term.func.value) == graph and \
                        xshow(edges[0].term.args[0], evs) == f"self._transition_as_edge({xshow(ti.x['elem'], evs)})"
                    other = [b for b in tseg if b.kind == "branch" and b is not internal[0] and edges and b.idx < edges[0].idx]
                    rep.check(ok and not other, "C18.edges", ti.loc(), "every external transition gets exactly one edge", fn.key,
                              "; ".join(e.show() for e in edges) or "no add_edge for an external transition", conditions=[b.show() for b in other])
        if p.kind == "return":
            rep.check(show(p.value) == graph, "C18.nodes", fn.loc(), "get_graph returns the graph it filled", fn.key, f"return {xshow(p.value, evs)}")
            init_n = [e for e in p.calls() if isinstance(e.term.func, ast.Attribute) and e.term.func.attr == "add_node" and xshow(e.term.args[0], evs) == "self._initial_node()"]
            init_e = [e for e in p.calls() if isinstance(e.term.func, ast.Attribute) and e.term.func.attr == "add_edge" and xshow(e.term.args[0], evs) == "self._initial_edge()"]
            rep.check(len(init_n) == 1 and len(init_e) == 1, "C18.initial", fn.loc(), "the initial pseudo-node and its single edge are added once", fn.key,
                      f"{len(init_n)} pseudo-nodes, {len(init_e)} pseudo-edges")
    rep.floor("C18.nodes", "state iterations on paths of get_graph", n_node, 3)
    rep.floor("C18.edges", "transition iterations on paths of get_graph", n_edge, 3)


def rule_initial(ctx: Ctx):
    rep = ctx.rep
    node = ctx.fn(f"{CLS}._initial_node")
    edge = ctx.fn(f"{CLS}._initial_edge")
    nid = None
    dgm = ctx.p.cls(CLS)

    def _const(t):
        """A string literal, or a class-level string constant read through self."""
        if isinstance(t, ast.Constant) and isinstance(t.value, str):
            return t.value
        if isinstance(t, ast.Attribute) and isinstance(t.value, ast.Name) and t.value.id == "self":
            v_ = dgm.class_assigns.get(t.attr)
            if isinstance(v_, ast.Constant) and isinstance(v_.value, str):
                return v_.value
        return None

    for p in ctx.paths(node, inline=None, exc_edges="none"):
        for e in p.calls():
            if show(e.term.func) == "pydot.Node" and e.term.args and _const(e.term.args[0]) is not None:
                nid = _const(e.term.args[0])
        rep.check(p.kind == "return" and xshow(p.value, p.events).startswith("pydot.Node("), "C18.initial", node.loc(), "the pseudo-node is a pydot node", node.key,
                  f"return {xshow(p.value, p.events)}")
    for p in ctx.paths(edge, inline=None, exc_edges="none"):
        v = expand(p.value, p.events) if p.kind == "return" else None
        ok = isinstance(v, ast.Call) and show(v.func) == "pydot.Edge" and len(v.args) >= 2 and nid is not None and _const(v.args[0]) == nid \
            and show(v.args[1]) == "self.machine.initial_state.id"
        rep.check(bool(ok), "C18.initial", edge.loc(), "the pseudo-edge goes from the pseudo-node to the machine's initial state", edge.key, f"return {show(v)}")
    # one node per state *plus* the pseudo-node: its name must not be a possible state id (state ids are attribute names)
    rep.check(nid is not None and not nid.isidentifier(), "C18.initial", node.loc(), "the pseudo-node's name cannot be the id of a state (it is not a "
              "valid identifier): a state of that name would be merged with it by Graphviz", node.key, f"pseudo-node name {nid!r}")


def rule_edge(ctx: Ctx):
    rep = ctx.rep
    fn = ctx.fn(f"{CLS}._transition_as_edge")
    tr = fn.params[1]
    for p in ctx.paths(fn, inline=None, exc_edges="none"):
        evs = p.events
        v = expand1(p.value, evs) if p.kind == "return" else None
        ok = isinstance(v, ast.Call) and show(v.func) == "pydot.Edge" and len(v.args) >= 2
        if not ok:
            rep.unrecognised("C18.edge", fn.loc(), f"_transition_as_edge returns `{show(v)}`")
        rep.check(show(v.args[0]) == f"{tr}.source.id" and show(v.args[1]) == f"{tr}.target.id", "C18.edge", fn.loc(),
                  "an edge runs from the transition's source to its target", fn.key, f"pydot.Edge({show(v.args[0])}, {show(v.args[1])}, ...)")
        label = next((k.value for k in v.keywords if k.arg == "label"), None)
        lt = xshow(label, evs) if label is not None else ""
        rep.check(f"{tr}.event" in lt, "C18.edge", fn.loc(), "the edge label names the transition's events", fn.key, f"label={lt}")
        # the guard specs are walked by a comprehension, or handed whole to map()/join()
        conds = [e for e in evs if e.kind in ("comp", "call") and e.term is not None and f"{tr}.cond" in xshow(e.term, evs)]
        facts = {show(b.term): b.x["taken"] for b in p.of("branch")}
        rep.check(bool(conds) and "cond" in lt or (not any(facts.values()) and bool(conds)), "C18.edge", fn.loc(),
                  "the label lists the transition's guard specs when there are any", fn.key, f"label={lt}")


def rule_label_source(ctx: Ctx):
    """C18.edge: the text used for edge labels is the transition's events as they are *now*: either computed from the
    Events collection on access, or - if cached - refreshed by every function that changes that collection."""
    rep = ctx.rep
    ev = ctx.p.find_fn("Transition.event")
    if ev is None:
        raise AnalysisError("anchor lost: Transition.event")
    rep.note_fn(ev)
    cached = None
    for p in ctx.paths(ev, inline=None, exc_edges="none"):
        v = xshow(p.value, p.events) if p.kind == "return" else ""
        if "self._events" in v:
            rep.ok("C18.edge", ev.loc(), "Transition.event is computed from the events collection at every access", value=v)
        else:
            m = p.value
            cached = m.attr if isinstance(m, ast.Attribute) and show(m.value) == "self" else v
    if cached is None:
        return
    # every mutation of a transition's Events collection outside class Events must refresh the cache
    n = 0
    for fn in ctx.p.all_functions():
        if fn.cls is not None and fn.cls.name == "Events":
            continue
        for node in own_nodes(fn.node):
            if isinstance(node, ast.Call) and isinstance(node.func, ast.Attribute) and node.func.attr in ("add", "_replace", "append", "remove"):
                recv = node.func.value
                ty = ctx.r.typeof(recv, fn, ())
                if "Events" in ty or show(recv).endswith((".events", "._events")):
                    n += 1
                    refreshes = any(isinstance(x, ast.Attribute) and isinstance(x.ctx, ast.Store) and x.attr == cached for x in own_nodes(fn.node))
                    rep.check(refreshes, "C18.edge", fn.loc(node), f"`{fn.qualname}` changes a transition's events and refreshes the cached label text `{cached}`",
                              fn.key, norm_stmt(node), cached=cached)
    rep.floor("C18.edge", "mutation sites of a transition's events", n, 1)


def rule_node(ctx: Ctx):
    rep = ctx.rep
    fn = ctx.fn(f"{CLS}._state_as_node")
    st = fn.params[1]
    n = 0
    for p in ctx.paths(fn, inline=None, exc_edges="none"):
        evs = p.events
        if p.kind != "return":
            continue
        ctor = next((e for e in p.calls() if show(e.term.func) == "pydot.Node"), None)
        if ctor is None:
            # a node that was not built in this call (reused from an earlier rendering): every style attribute the
            # highlight logic sets anywhere must be set on this path too, or an earlier rendering's highlight survives
            setters_all = {n_.func.attr for n_ in own_nodes(fn.node) if isinstance(n_, ast.Call) and isinstance(n_.func, ast.Attribute)
                           and n_.func.attr.startswith("set_")}
            here = {e.term.func.attr for e in p.calls() if isinstance(e.term.func, ast.Attribute) and e.term.func.attr.startswith("set_")}
            missing = sorted(setters_all - here)
            rep.check(not missing, "C18.highlight", fn.loc(), "a node reused from an earlier rendering gets every highlight attribute reset",
                      fn.key, f"reused node: {missing} set elsewhere but not on this path (a formerly current state keeps its highlight)",
                      missing=missing)
            continue
        rep.check(show(p.value) == f"$c{ctor.idx}" and show(ctor.term.args[0]) == f"{st}.id", "C18.node", ctor.loc(),
                  "the node is identified by the state's id (what edges refer to)", fn.key, norm_stmt(ctor.node))
        kw = {k.arg: k.value for k in ctor.term.keywords}
        # peripheries: 2 exactly on final
        per = kw.get("peripheries")
        fin = [b for b in p.of("branch") if f"{st}.final" in (show(b.term), show(expand1(b.term, evs)))]
        if per is None or not fin:
            rep.violation("C18.node", ctor.loc(), "the border of a node does not depend on the state's `final` flag", fn.key, norm_stmt(ctor.node))
        else:
            want = 2 if fin[0].x["taken"] else 1
            rep.check(isinstance(per, ast.Constant) and per.value == want, "C18.node", ctor.loc(), "final states, and only they, are drawn with a double border",
                      fn.key, f"peripheries={show(per)} when final=={fin[0].x['taken']}")
        label = xshow(kw.get("label"), evs) if kw.get("label") is not None else ""
        rep.check(f"{st}.name" in label and "self._state_actions(" in label, "C18.node", ctor.loc(), "the node label shows the state's name and its actions", fn.key,
                  f"label={label}")
        # highlight
        hl = [b for b in p.of("branch") if isinstance(expand1(b.term, evs), ast.Compare)]
        cur = None
        for b in hl:
            x = expand(b.term, evs)
            sides = {show(x.left), show(x.comparators[0])}
            if isinstance(x.ops[0], (ast.Eq, ast.Is)) and st in sides:
                other = (sides - {st}).pop() if len(sides) == 2 else "?"
                cur = (other, b.x["taken"])
        n += 1
        if cur is None:
            rep.violation("C18.highlight", fn.loc(), "no state is compared with the machine's current state", fn.key, "no highlight test")
            continue
        rep.check(cur[0] == "self.machine.current_state", "C18.highlight", fn.loc(), "the highlighted node is the one equal to the machine's *current* state",
                  fn.key, f"highlight test compares the state with `{cur[0]}`")
        fills = [e for e in p.calls() if isinstance(e.term.func, ast.Attribute) and e.term.func.attr == "set_fillcolor"]
        col = xshow(fills[-1].term.args[0], evs) if fills else ""
        if cur[1]:
            rep.check(col == "self.state_active_fillcolor", "C18.highlight", fn.loc(), "the current state is filled with the active colour", fn.key, f"fill={col}")
        else:
            rep.check(col != "self.state_active_fillcolor" and bool(fills), "C18.highlight", fn.loc(), "every other state is not highlighted", fn.key, f"fill={col}")
    rep.floor("C18.node", "returning paths of _state_as_node", n, 4)
    sa = ctx.fn(f"{CLS}._state_actions")
    # the listing, read as the loop it is (comprehension or explicit loop): one entry per internal transition
    listed, skipped, bad = 0, 0, []
    for p in ctx.paths(sa, inline=None, exc_edges="none", unroll=1, loops_for_comps="all"):
        evs = p.events
        marks = [e for e in evs if e.kind in ("iter", "exhaust") and e.x.get("loop", "for") == "for" and xshow(e.term, evs) == f"{sa.params[1]}.transitions"]
        for a, b in zip(marks, marks[1:]):
            if a.kind != "iter":
                continue
            el = show(a.x["elem"])
            seg = evs[a.idx + 1: b.idx]
            internal = None
            for br in seg:
                if br.kind == "branch":
                    t, pol = br.term, br.x["taken"]
                    while isinstance(t, ast.UnaryOp) and isinstance(t.op, ast.Not):
                        t, pol = t.operand, not pol
                    if xshow(t, evs) == f"{el}.internal":
                        internal = pol
                    else:
                        bad.append(f"listing tests `{xshow(t, evs)}`")
            apps = [c for c in seg if c.kind == "call" and isinstance(c.term.func, ast.Attribute) and c.term.func.attr == "append"]
            if internal is True:
                listed += 1
                if not (len(apps) == 1 and f"{el}.event" in xshow(apps[0].term.args[0], evs)):
                    bad.append("an internal transition is not listed by its event")
            elif internal is False:
                skipped += 1
                if apps:
                    bad.append("an external transition is listed inside the state's label")
            else:
                bad.append("a transition is listed without testing `internal`" if apps else "no `internal` test")
    rep.check(not bad and listed > 0 and skipped > 0, "C18.node", sa.loc(), "internal transitions (and only they) are listed inside their state's label", sa.key,
              "; ".join(sorted(set(bad))) or f"{listed} listed / {skipped} skipped iterations")
    # whatever the listing is spelled as (chained generators included): the only filter on it is the `internal` flag - an internal
    # transition without actions, guards or anything else is still a transition of the machine and is listed
    extra = []

    def _over_transitions(it_, derived_):
        return (isinstance(it_, ast.Attribute) and it_.attr == "transitions") or (isinstance(it_, ast.Name) and it_.id in derived_)

    derived = set()
    for _round in range(3):
        for a_ in own_nodes(sa.node):
            if isinstance(a_, ast.Assign) and len(a_.targets) == 1 and isinstance(a_.targets[0], ast.Name) \
                    and isinstance(a_.value, (ast.GeneratorExp, ast.ListComp, ast.SetComp)) and _over_transitions(a_.value.generators[0].iter, derived):
                derived.add(a_.targets[0].id)
    for nd in own_nodes(sa.node):
        if isinstance(nd, (ast.GeneratorExp, ast.ListComp, ast.SetComp)) and _over_transitions(nd.generators[0].iter, derived):
            for g_ in nd.generators:
                for c_ in g_.ifs:
                    t_ = c_
                    while isinstance(t_, ast.UnaryOp) and isinstance(t_.op, ast.Not):
                        t_ = t_.operand
                    if not (isinstance(t_, ast.Attribute) and t_.attr == "internal"):
                        extra.append(show(c_))
    rep.check(not extra, "C18.node", sa.loc(), "the listing of internal transitions is filtered by the `internal` flag only", sa.key,
              "; ".join(f"if {x}" for x in extra) or "no other filter")


def rule_rendered_afresh(ctx: Ctx):
    """C18.highlight: every rendering reads the machine as it is now: no method of the diagram builder is memoised."""
    from ..wrappers import check_fresh

    fns = [f for f in ctx.p.all_functions() if f.cls is not None and f.cls.name == CLS and f.parent is None]
    check_fresh(ctx, "C18.highlight", fns, "exactly the current state is highlighted at every rendering")


RULES = [rule_graph, rule_initial, rule_edge, rule_label_source, rule_node, rule_rendered_afresh]
