"""C01 - Transition selection follows the declared machine."""

from __future__ import annotations

import ast
from typing import List, Optional

from ..context import Ctx
from ..kernel import expand, expand1, placeholder_closure, result_of, xshow
from ..loader import AnalysisError, norm_stmt
from ..paths import Ev, Path, show
from ..resolve import own_nodes
from .engine_model import activate_paths, trigger_param

EXPLANATION = (
    "Every path of `_trigger` in each engine is enumerated: the candidate loop must iterate the current state's "
    "transitions in stored order, call `_activate` only under a positive `match` of the whole event id, stop at the "
    "first executed candidate, and on exhaustion raise TransitionNotAllowed(event, state) exactly when events without "
    "transition are not tolerated. `Events.match` must be an equality membership test; the guard executors must be "
    "all-of (False only on a falsy element, True only on exhaustion); cond/unless must map to expected_value "
    "True/False at every registration site and be compared as `bool(value) == expected_value`; rejected candidates "
    "return before any action or write; the only writers of the model's state field are the two property setters "
    "fed by one store per engine whose value is `transition.target`. Structural clauses only: the behaviour of "
    "arbitrary machines over arbitrary histories is not executed."
    " Added after seeded batch 9: every id-less placeholder Event() of a transition is replaced by the named event (shared wiring rule), and no loop in the analysed code mutates the container it walks (common rule <prop>.liveiter)."
)
ASSUMPTIONS = ["for/else, list order and `==` on str subclasses behave as the language specifies"]
TRUSTED = ["CPython ast grammar", "/verif/sa path enumerator and resolver"]

ORDER_PRESERVING_WRAPPERS = {"list", "tuple", "iter"}


def _trigger_paths(ctx: Ctx, eng):
    fn = ctx.k.engine_fn(eng, "_trigger")
    return fn, trigger_param(fn), ctx.paths(fn, exc_edges="none")


def _activate_calls(ctx: Ctx, p: Path) -> List[Ev]:
    return [e for e in p.events if ctx.k.calls_method(e, "_activate") and e.kind == "call"]


def _is_initial_path(p: Path) -> bool:
    from ..kernel import initial_test

    for b in p.of("branch"):
        it = initial_test(b.term)
        if it is not None:
            return bool(b.x["taken"]) is it
    return False


def rule_loop(ctx: Ctx):
    rep, k = ctx.rep, ctx.k
    for eng in k.engines:
        fn, trg, paths = _trigger_paths(ctx, eng)
        n_act = 0
        for p in paths:
            if _is_initial_path(p):
                continue
            evs = p.events
            iters = [e for e in evs if e.kind == "iter" and e.x.get("loop") == "for"]
            for it in iters:
                base = expand(it.term, evs)
                wrapped = base
                while isinstance(wrapped, ast.Call) and isinstance(wrapped.func, ast.Name) and \
                        wrapped.func.id in ORDER_PRESERVING_WRAPPERS and len(wrapped.args) == 1:
                    wrapped = wrapped.args[0]
                ok = show(wrapped) == "self.sm.current_state.transitions"
                if not ok and isinstance(base, ast.Call):
                    rep.violation("C01.loop", it.loc(), f"{eng.name}: candidates are iterated through `{show(base)}` "
                                  "instead of the current state's transitions in stored order", fn.key, norm_stmt(it.node))
                    continue
                rep.check(ok, "C01.loop", it.loc(), f"{eng.name}: candidates are the current state's transitions, in stored order",
                          fn.key, norm_stmt(it.node), iterated=show(base))
            acts = _activate_calls(ctx, p)
            for a in acts:
                n_act += 1
                # the transition argument is the loop element of the latest iteration
                last_it = [e for e in iters if e.idx < a.idx]
                targ = a.term.args[1] if len(a.term.args) > 1 else None
                if not last_it or targ is None:
                    rep.violation("C01.loop", a.loc(), f"{eng.name}: `_activate` is called outside the candidate loop", fn.key,
                                  norm_stmt(a.node))
                    continue
                it = last_it[-1]
                elem = it.x["elem"]
                rep.check(show(targ) == show(elem), "C01.loop", a.loc(),
                          f"{eng.name}: the activated transition is the candidate under inspection", fn.key, norm_stmt(a.node),
                          activated=xshow(targ, evs), candidate=xshow(elem, evs))
                # guarded by a positive match of the whole event
                seg = evs[it.idx: a.idx]
                mcalls = [e for e in seg if e.kind == "call" and isinstance(e.term.func, ast.Attribute)
                          and e.term.func.attr == "match" and show(e.term.func.value) == show(elem)]
                okm = False
                for m in mcalls:
                    arg = m.term.args[0] if m.term.args else None
                    pos = [b for b in seg if b.kind == "branch" and show(b.term) == f"$c{m.idx}" and b.x["taken"] is True]
                    if arg is not None and xshow(arg, evs) == f"{trg}.event" and pos:
                        okm = True
                rep.check(okm, "C01.loop", a.loc(),
                          f"{eng.name}: a candidate is activated only after `match(<trigger>.event)` held", fn.key,
                          norm_stmt(a.node), matches=[show(m.term) for m in mcalls])
                # first executed wins / a rejected candidate lets the loop go on
                res = result_of(a, p)
                exe_b = [b for b in evs[a.idx:] if b.kind == "branch" and show(b.term) in (f"{show(res)}[0]",)]
                after = evs[a.idx + 1:]
                nxt_loop = next((e for e in after if e.kind in ("iter", "exhaust") and e.x.get("loop", "for") == "for"), None)
                later_acts = [e for e in acts if e.idx > a.idx]
                if not exe_b:
                    rep.violation("C01.loop", a.loc(), f"{eng.name}: the `executed` flag of `_activate` is not tested",
                                  fn.key, norm_stmt(a.node))
                    continue
                executed = exe_b[0].x["taken"]
                if executed:
                    rep.check(not later_acts and nxt_loop is None, "C01.loop", a.loc(),
                              f"{eng.name}: the first executed candidate ends the search", fn.key,
                              "path continues the candidate loop after an executed transition",
                              trace=[e.show() for e in after if e.kind in ("iter", "exhaust", "call", "return", "raise")][:8])
                else:
                    rep.check(p.kind != "return" or nxt_loop is not None, "C01.loop", a.loc(),
                              f"{eng.name}: a rejected candidate lets the search continue with the next one", fn.key,
                              "path leaves the loop after a rejected candidate",
                              trace=[e.show() for e in after if e.kind in ("iter", "exhaust", "call", "return", "raise")][:8])
            # on paths where match failed for an iteration there is no activation of that candidate
            for it in iters:
                seg_end = next((e.idx for e in iters if e.idx > it.idx), len(evs))
                seg = evs[it.idx: seg_end]
                neg = [b for b in seg if b.kind == "branch" and b.x["taken"] is False and
                       any(m.kind == "call" and isinstance(m.term.func, ast.Attribute) and m.term.func.attr == "match"
                           and show(b.term) == f"$c{m.idx}" for m in seg)]
                if neg:
                    act_here = [a for a in acts if it.idx < a.idx < seg_end]
                    rep.check(not act_here, "C01.loop", it.loc(),
                              f"{eng.name}: a candidate whose event does not match is never activated", fn.key,
                              "activation after a failed match")
        rep.floor("C01.loop", f"activation sites on paths of {eng.name}._trigger", n_act, 2)
    # storage order of TransitionList
    tl = ctx.p.cls("TransitionList")
    gi = tl.method("__getitem__")
    it = tl.method("__iter__")
    if it is not None:
        ctx.rep.note_fn(it)
        for p in ctx.paths(it):
            ok = p.kind == "return" and show(expand(p.value, p.events)) in ("iter(self.transitions)",)
            rep.check(ok, "C01.loop", it.loc(), "TransitionList iterates its list in stored order", it.key, f"return {show(p.value)}")
    elif gi is not None:
        for p in ctx.paths(gi):
            ok = p.kind == "return" and show(p.value) == "self.transitions[index]"
            rep.check(ok, "C01.loop", gi.loc(), "TransitionList[index] is the index-th stored transition (iteration order = stored order)",
                      gi.key, f"return {show(p.value)}")
    else:
        raise AnalysisError("anchor lost: TransitionList has neither __iter__ nor __getitem__")
    n_app = 0
    for ms in tl.methods.values():
        for m in ms:
            for n in own_nodes(m.node):
                if isinstance(n, ast.Call) and isinstance(n.func, ast.Attribute) and show(n.func.value) == "self.transitions":
                    op = n.func.attr
                    if op in ("append", "extend"):
                        n_app += 1
                        rep.ok("C01.loop", m.loc(n), f"TransitionList.{m.name} only appends (declaration order kept)")
                    elif op in ("insert", "sort", "reverse", "appendleft", "pop", "remove", "clear"):
                        n_app += 1
                        rep.violation("C01.loop", m.loc(n), f"TransitionList.{m.name} reorders or drops stored transitions with `{op}`",
                                      m.key, norm_stmt(n))
    rep.floor("C01.loop", "mutation sites of TransitionList.transitions", n_app, 1)


def rule_none(ctx: Ctx):
    rep, k = ctx.rep, ctx.k
    for eng in k.engines:
        fn, trg, paths = _trigger_paths(ctx, eng)
        n_exh = 0
        for p in paths:
            evs = p.events
            for e in evs:
                if k.state_write(e, evs) is not None:
                    rep.violation("C01.none", e.loc(), f"{eng.name}._trigger writes the state itself", fn.key, norm_stmt(e.node))
            if _is_initial_path(p):
                continue
            exh = [e for e in evs if e.kind == "exhaust"]
            executed_true = any(b.kind == "branch" and b.x["taken"] and show(b.term).endswith("[0]") and show(b.term).startswith("$c")
                                for b in evs)
            if not exh or executed_true:
                continue
            n_exh += 1
            tail = evs[exh[-1].idx:]
            tol = [b for b in tail if b.kind == "branch" and xshow(b.term, evs) == "self.sm.allow_event_without_transition"]
            if not tol:
                rep.violation("C01.none", exh[-1].loc(), f"{eng.name}: exhaustion of candidates does not consult allow_event_without_transition",
                              fn.key, f"exhausted path ends with {p.kind} {show(p.value)}")
                continue
            tolerated = tol[0].x["taken"]
            if tolerated:
                # None, or the result component of a rejected activation (which is None, see C14.flow)
                rejected = {f"{show(result_of(a, p))}[1]" for a in _activate_calls(ctx, p)}
                ok = p.kind == "return" and ((isinstance(p.value, ast.Constant) and p.value.value is None) or show(p.value) in rejected)
                rep.check(ok, "C01.none", tol[0].loc(), f"{eng.name}: a tolerated event without transition returns None and raises nothing",
                          fn.key, f"tolerated path ends with {p.kind} {show(p.value)}")
            else:
                v = expand(p.value, evs) if p.kind == "raise" else None
                ok = (p.kind == "raise" and isinstance(v, ast.Call) and show(v.func) == "TransitionNotAllowed" and len(v.args) == 2)
                a = b = None
                if ok:
                    a, b = show(v.args[0]), show(v.args[1])
                    iters = [e for e in evs if e.kind in ("iter", "exhaust") and e.term is not None]
                    base = show(expand(iters[0].term, evs)) if iters else ""
                    ok = a == f"{trg}.event" and b == "self.sm.current_state" and base.startswith("self.sm.current_state")
                    # the state reported is the one whose transitions were searched (same read)
                    raw = p.value.args[1] if isinstance(p.value, ast.Call) else None
                    if ok and raw is not None and iters:
                        ok = show(raw) in show(iters[0].term)
                rep.check(bool(ok), "C01.none", tol[0].loc(),
                          f"{eng.name}: no candidate executed and not tolerated => raise TransitionNotAllowed(<trigger>.event, <state searched>)",
                          fn.key, f"path ends with {p.kind} {show(v) if v is not None else show(p.value)}", event=a, state=b)
        rep.floor("C01.none", f"exhaustion paths of {eng.name}._trigger", n_exh, 2)


def rule_match(ctx: Ctx, rule: str = "C01.match"):
    rep = ctx.rep
    tm = ctx.fn("Transition.match")
    for p in ctx.paths(tm):
        v = expand(p.value, p.events) if p.kind == "return" else None
        ok = isinstance(v, ast.Call) and show(v.func) == "self._events.match" and len(v.args) == 1 and show(v.args[0]) == "event"
        rep.check(ok, rule, tm.loc(), "Transition.match delegates the whole event id to its Events collection", tm.key,
                  f"return {show(v)}")
    em = ctx.fn("Events.match")
    param = em.params[1] if len(em.params) > 1 else "event"
    it = ctx.p.find_fn("Events.__iter__")
    if it is not None:
        for p in ctx.paths(it):
            rep.check(p.kind == "return" and show(expand(p.value, p.events)) == "iter(self._items)", rule, it.loc(),
                      "iterating an Events collection yields its stored items", it.key, f"return {show(p.value)}")
    em_paths = list(ctx.paths(em, unroll=2))
    if em_paths and all(p.kind == "return" and isinstance(p.value, ast.Constant) and isinstance(p.value.value, bool) for p in em_paths) \
            and any(e.kind == "iter" for p in em_paths for e in p.events):
        _match_loop_form(ctx, rule, em, em_paths, param)
        return
    for p in ctx.paths(em):
        if p.kind != "return":
            rep.violation(rule, em.loc(), "Events.match does not return a verdict", em.key, p.kind)
            continue
        v = expand(p.value, p.events)
        verdict = _match_shape(v, param)
        if verdict == "eq":
            rep.ok(rule, em.loc(), "an event matches only by equality with a stored event id", shape=show(v))
        elif verdict == "partial":
            rep.violation(rule, em.loc(), "event matching uses a partial string operation (prefix/substring), "
                          "so one event id can fire another event's transitions", em.key, f"return {show(v)}")
        else:
            rep.unrecognised(rule, em.loc(), f"match expression `{show(v)}` is neither the accepted equality-membership idiom nor a known violating form")


def _match_loop_form(ctx: Ctx, rule: str, em, paths, param: str):
    """Events.match written as an explicit search loop returning True / False."""
    rep = ctx.rep
    n_true = n_false = 0
    for p in paths:
        evs = p.events
        its = [e for e in evs if e.kind == "iter" and e.x.get("loop") == "for"]
        for i in its:
            if xshow(i.term, evs) not in ("self", "self._items", "iter(self._items)", "list(self)", "list(self._items)"):
                rep.unrecognised(rule, i.loc(), f"Events.match searches `{xshow(i.term, evs)}`")
        pols = []
        for b in p.of("branch"):
            t = expand(b.term, evs)
            pol = b.x["taken"]
            while isinstance(t, ast.UnaryOp) and isinstance(t.op, ast.Not):
                t, pol = t.operand, not pol
            elems = {show(i.x["elem"]) for i in its if i.idx < b.idx}
            shape = "other"
            if any(isinstance(n, ast.Call) and isinstance(n.func, ast.Attribute) and n.func.attr in PARTIAL_STR_OPS for n in ast.walk(t)) or \
                    any(isinstance(n, ast.Subscript) and isinstance(n.slice, ast.Slice) for n in ast.walk(t)):
                shape = "partial"
            elif isinstance(t, ast.Compare) and len(t.ops) == 1:
                sides = {show(t.left), show(t.comparators[0])}
                if param in sides and (sides - {param}) <= elems and len(sides) == 2:
                    if isinstance(t.ops[0], ast.Eq):
                        shape = "eq"
                    elif isinstance(t.ops[0], ast.NotEq):
                        shape, pol = "eq", not pol
                    elif isinstance(t.ops[0], (ast.In, ast.NotIn)):
                        shape = "partial"
            if shape == "partial":
                rep.violation(rule, b.loc(), "event matching uses a partial string operation (prefix/substring), "
                              "so one event id can fire another event's transitions", em.key, norm_stmt(b.node))
                return
            if shape == "other":
                rep.unrecognised(rule, b.loc(), f"match loop tests `{show(t)}`: neither the accepted equality idiom nor a known violating form")
            pols.append(pol)
        if p.value.value is True:
            n_true += 1
            rep.check(bool(pols) and pols[-1] is True, rule, em.loc(), "match answers True only when a stored event id equals the given id", em.key,
                      f"return True after tests {pols}")
        else:
            n_false += 1
            rep.check(not any(pols), rule, em.loc(), "match answers False only when no stored event id equals the given id", em.key,
                      f"return False after tests {pols}")
    rep.check(n_true > 0 and n_false > 0, rule, em.loc(), "an event matches only by equality with a stored event id", em.key,
              f"{n_true} accepting / {n_false} rejecting paths")


PARTIAL_STR_OPS = {"startswith", "endswith", "find", "rfind", "index", "count", "partition", "split", "lower", "upper",
                   "strip", "casefold", "removeprefix", "removesuffix", "replace"}


def _match_shape(v: ast.AST, param: str) -> str:
    # violating forms anywhere in the expression
    for n in ast.walk(v):
        if isinstance(n, ast.Call) and isinstance(n.func, ast.Attribute) and n.func.attr in PARTIAL_STR_OPS:
            return "partial"
        if isinstance(n, ast.Subscript) and isinstance(n.slice, ast.Slice):
            return "partial"
    if isinstance(v, ast.Call) and isinstance(v.func, ast.Name) and v.func.id == "any" and len(v.args) == 1 \
            and isinstance(v.args[0], (ast.GeneratorExp, ast.ListComp)):
        g = v.args[0]
        if len(g.generators) != 1 or g.generators[0].ifs:
            return "other"
        gen = g.generators[0]
        if show(gen.iter) not in ("self", "self._items", "iter(self._items)") or not isinstance(gen.target, ast.Name):
            return "other"
        lv = gen.target.id
        e = g.elt
        if isinstance(e, ast.Compare) and len(e.ops) == 1:
            sides = {show(e.left), show(e.comparators[0])}
            if isinstance(e.ops[0], ast.Eq) and sides == {lv, param}:
                return "eq"
            if isinstance(e.ops[0], (ast.In, ast.NotIn)) and sides == {lv, param}:
                return "partial"
        return "other"
    if isinstance(v, ast.Compare) and len(v.ops) == 1 and isinstance(v.ops[0], ast.In):
        if show(v.left) == param and show(v.comparators[0]) in ("self._items", "self", "list(self)"):
            return "eq"
    return "other"


def _elem_results(p: Path):
    """Placeholders holding the verdict of one element of the iterated executor."""
    out = {}
    evs = p.events
    elems = [show(e.x["elem"]) for e in evs if e.kind == "iter" and e.x.get("loop") == "for"]
    for e in evs:
        if e.kind == "call":
            f = e.term.func
            recv = f.value if isinstance(f, ast.Attribute) else f
            if show(recv) in elems:
                out[f"$c{e.idx}"] = e
        if e.kind == "await" and show(e.term) in elems:
            out[f"$w{e.idx}"] = e
    return out


def rule_allof(ctx: Ctx, rule: str = "C01.allof"):
    rep = ctx.rep
    for name in ("all", "async_all"):
        fn = ctx.fn(f"CallbacksExecutor.{name}")
        n_true = n_false = 0
        unrec = []
        n_before = len([o for o in rep.obligations if o.status in ("violation", "known")])
        for p in ctx.paths(fn, exc_edges="none", comps_for_loops=True):
            if p.kind != "return":
                rep.violation(rule, fn.loc(), f"guard executor `{name}` ends with {p.kind}", fn.key, show(p.value))
                continue
            evs = p.events
            v = expand(p.value, evs)
            if isinstance(v, ast.Call) and isinstance(v.func, ast.Name) and v.func.id == "all" and len(v.args) == 1 and \
                    isinstance(v.args[0], (ast.GeneratorExp, ast.ListComp)) and not v.args[0].generators[0].ifs \
                    and show(v.args[0].generators[0].iter) == "self":
                rep.ok(rule, fn.loc(), f"`{name}` is `all(...)` over every guard of the list", shape=show(v))
                n_true += 1
                n_false += 1
                continue
            res = _elem_results(p)
            if not (isinstance(v, ast.Constant) and isinstance(v.value, bool)):
                if placeholder_closure(p.value, evs) & set(res):
                    rep.violation(rule, fn.loc(), f"`{name}` answers with the verdict of a single guard (`{show(v)}`), "
                                  "not the conjunction of all of them", fn.key, f"return {show(v)}")
                else:
                    unrec.append(show(v))
                continue
            elem_branches = [b for b in evs if b.kind == "branch" and show(b.term) in res]
            n_iter = len([e for e in evs if e.kind == "iter" and e.x.get("loop") == "for"])
            exhausted = any(e.kind == "exhaust" for e in evs)
            if v.value is False:
                n_false += 1
                ok = bool(elem_branches) and elem_branches[-1].x["taken"] is False and \
                    all(b.x["taken"] for b in elem_branches[:-1])
                rep.check(ok, rule, fn.loc(), f"`{name}` answers False only because one guard's result was falsy",
                          fn.key, f"return False after {[b.show() for b in elem_branches]}",
                          iterations=n_iter)
            else:
                n_true += 1
                ok = exhausted and len(elem_branches) == n_iter and all(b.x["taken"] for b in elem_branches)
                rep.check(ok, rule, fn.loc(), f"`{name}` answers True only after every guard's result was truthy",
                          fn.key, f"return True after {[b.show() for b in elem_branches]} exhausted={exhausted}",
                          iterations=n_iter)
        found = len([o for o in rep.obligations if o.status in ("violation", "known")]) > n_before
        if unrec and not found:
            rep.unrecognised(rule, fn.loc(), f"guard executor returns `{unrec[0]}`")
        if not found:
            rep.floor(rule, f"True-returning paths of {name}", n_true, 1)
            rep.floor(rule, f"False-returning paths of {name}", n_false, 1)
    # every element considered is an element of the executor itself
    fn = ctx.fn("CallbacksExecutor.async_all")
    for p in ctx.paths(fn, exc_edges="none", comps_for_loops=True):
        comps = [e for e in p.events if e.kind == "comp"]
        its = [e for e in p.events if e.kind in ("iter", "exhaust") and e.term is not None]
        if its:
            base = xshow(its[0].term, p.events)
            ok = "self" in base
            if comps:
                ok = ok and show(comps[0].term.generators[0].iter) == "self" and not comps[0].term.generators[0].ifs
            rep.check(ok, rule, fn.loc(), "async_all starts one evaluation per guard of the list, unfiltered", fn.key, base)
            break
    # registry delegates and answers True for a key with no guards
    from ..shapes import canon_lookup, missing_fact, through_getitem

    for meth in ("all", "async_all"):
        reg = ctx.fn(f"CallbacksRegistry.{meth}")
        key = reg.params[1]
        for p in ctx.paths(reg, exc_edges="none"):
            if p.kind != "return":
                continue
            v = expand1(p.value, p.events)
            if isinstance(v, ast.Constant):
                miss = missing_fact(p, "self._registry", key)
                rep.check(v.value is True and miss is True, rule, reg.loc(), "a transition without guards is enabled (and only the missing key is answered "
                          "without consulting an executor)", reg.key, f"return {show(v)} with missing={miss}")
            else:
                lk = canon_lookup(v.func.value, p.events) if isinstance(v, ast.Call) and isinstance(v.func, ast.Attribute) else None
                lk = through_getitem(ctx, "CallbacksRegistry", lk)
                ok = lk == ("self._registry", key) and v.func.attr == meth and [show(a) for a in v.args] == ["*args"]
                rep.check(bool(ok), rule, reg.loc(), f"registry.{meth} delegates to the executor of that key", reg.key, f"return {show(v)}")


def rule_expected(ctx: Ctx, rule: str = "C01.expected"):
    rep = ctx.rep
    for name in ("call", "__call__"):
        fn = ctx.fn(f"CallbackWrapper.{name}")
        n = 0
        for p in ctx.paths(fn, exc_edges="none"):
            if p.kind != "return":
                continue
            evs = p.events
            pol = None
            for b in p.of("branch"):
                t = show(b.term)
                if t == "self.expected_value is not None":
                    pol = b.x["taken"]
                elif t == "self.expected_value is None":
                    pol = not b.x["taken"]
            v = expand(p.value, evs)
            if pol is None:
                rep.violation(rule, fn.loc(), f"CallbackWrapper.{name} never tests expected_value against None",
                              fn.key, f"return {show(v)}")
                continue
            n += 1
            if pol:
                ok = isinstance(v, ast.Compare) and len(v.ops) == 1 and isinstance(v.ops[0], ast.Eq)
                if ok:
                    sides = [v.left, v.comparators[0]]
                    b = [s for s in sides if isinstance(s, ast.Call) and show(s.func) == "bool" and len(s.args) == 1]
                    e = [s for s in sides if show(s) == "self.expected_value"]
                    ok = len(b) == 1 and len(e) == 1 and "self._callback(" in show(b[0].args[0])
                rep.check(bool(ok), rule, fn.loc(),
                          f"CallbackWrapper.{name}: a guard's verdict is `bool(result) == expected_value`", fn.key, f"return {show(v)}")
            else:
                ok = "self._callback(" in show(v) and not isinstance(v, (ast.Compare, ast.UnaryOp, ast.BoolOp))
                rep.check(ok, rule, fn.loc(), f"CallbackWrapper.{name}: non-guards return the callback's own value",
                          fn.key, f"return {show(v)}")
        rep.floor(rule, f"paths of CallbackWrapper.{name}", n, 2)
    # registration sites: cond -> True, unless -> False
    sites = 0
    init = ctx.fn("Transition.__init__")
    seen_lines = set()
    for p in ctx.paths(init, exc_edges="none"):
        for e in p.calls():
            f = e.term.func
            if isinstance(f, ast.Attribute) and f.attr == "add" and e.term.args and isinstance(e.term.args[0], ast.Name) \
                    and e.term.args[0].id in ("cond", "unless"):
                which = e.term.args[0].id
                if (e.line, which) in seen_lines:
                    continue
                seen_lines.add((e.line, which))
                kw = {k.arg: k.value for k in e.term.keywords}
                for k in e.term.keywords:  # `**{'expected_value': True}` coming through an inlined helper's **kwargs
                    if k.arg is None and isinstance(k.value, ast.Dict):
                        for dk, dv in zip(k.value.keys, k.value.values):
                            if isinstance(dk, ast.Constant):
                                kw[dk.value] = dv
                ev_ = kw.get("expected_value")
                want = which == "cond"
                sites += 1
                recv = xshow(f.value, p.events)
                rep.check(isinstance(ev_, ast.Constant) and ev_.value is want and "CallbackGroup.COND" in recv, rule, e.loc(),
                          f"Transition(... {which}=) registers guards with expected_value={want} in the COND group", init.key,
                          norm_stmt(e.node), expected_value=show(ev_))
    for which, want in (("cond", True), ("unless", False)):
        fn = ctx.fn(f"AddCallbacksMixin.{which}")
        for p in ctx.paths(fn, exc_edges="none"):
            v = expand(p.value, p.events) if p.kind == "return" else None
            ok = isinstance(v, ast.Call) and show(v.func) == "self._add_callback"
            if ok:
                kw = {k.arg: k.value for k in v.keywords}
                ev_ = kw.get("expected_value")
                grp = show(v.args[1]) if len(v.args) > 1 else show(kw.get("grouper"))
                ok = isinstance(ev_, ast.Constant) and ev_.value is want and grp == "CallbackGroup.COND"
            sites += 1
            rep.check(bool(ok), rule, fn.loc(), f"decorator `.{which}` registers a COND guard with expected_value={want}",
                      fn.key, f"return {show(v)}")
    rep.floor(rule, "guard registration sites", sites, 4)
    # the flag travels unchanged to the wrapper
    chain = [("TransitionList._add_callback", "_add_unbounded_callback"), ("Event._add_callback", "_add_callback"),
             ("SpecListGrouper._add_unbounded_callback", "_add_unbounded_callback"), ("SpecListGrouper.add", "add"),
             ("CallbackSpecList._add_unbounded_callback", "_add"), ("CallbackSpecList.add", "_add"),
             ("CallbackSpecList._add", "factory")]
    for key, callee in chain:
        fn = ctx.fn(key)
        kwname = fn.node.args.kwarg.arg if fn.node.args.kwarg else None
        found = False
        seen_sites = set()
        for p in ctx.paths(fn, inline=None, exc_edges="none", unroll=1):
            for e in p.calls():
                if isinstance(e.term.func, ast.Attribute) and e.term.func.attr == callee and id(e.node) not in seen_sites and not ctx.is_new_call(e):
                    seen_sites.add(id(e.node))
                    found = True
                    ok = kwname is not None and any(k.arg is None and show(k.value) == kwname for k in e.term.keywords)
                    rep.check(ok, rule, e.loc(), f"{key} forwards the registration options (**{kwname}) to `{callee}`", fn.key,
                              norm_stmt(e.node))
        if not found:
            raise AnalysisError(f"anchor lost: {key} no longer calls {callee}")
    spec_init = ctx.fn("CallbackSpec.__init__")
    stores = {}
    for p in ctx.paths(spec_init, exc_edges="none"):
        for e in p.of("store"):
            if show(e.term.value) == "self":
                stores[e.x["attr"]] = show(e.x["value"])
        break
    rep.check(stores.get("expected_value") == "expected_value", rule, spec_init.loc(),
              "CallbackSpec keeps the expected_value it was given", spec_init.key, f"self.expected_value = {stores.get('expected_value')}")
    rep.check(stores.get("cond") == "cond", rule, spec_init.loc(), "CallbackSpec keeps the condition it was given",
              spec_init.key, f"self.cond = {stores.get('cond')}")
    w_init = ctx.fn("CallbackWrapper.__init__")
    stores = {}
    for p in ctx.paths(w_init, exc_edges="none"):
        for e in p.of("store"):
            if show(e.term.value) == "self":
                stores[e.x["attr"]] = xshow(e.x["value"], p.events)
        break
    rep.check(stores.get("expected_value") in ("self.meta.expected_value", "meta.expected_value"), rule, w_init.loc(),
              "the wrapper's expected_value is its spec's", w_init.key, f"self.expected_value = {stores.get('expected_value')}")
    rep.check(stores.get("meta") == "meta" and stores.get("_callback") == "callback", rule, w_init.loc(),
              "the wrapper keeps the spec and callable it was built for", w_init.key, str(stores))


def rule_reject(ctx: Ctx):
    rep, k = ctx.rep, ctx.k
    for eng in k.engines:
        fn, tp, aps = activate_paths(ctx, eng)
        for ap in aps:
            names = ap.names()
            groups = ap.groups()
            if "VALIDATOR(%s)" % tp in groups and "COND(%s)" % tp in groups:
                rep.check(groups.index(f"VALIDATOR({tp})") < groups.index(f"COND({tp})"), "C01.reject", fn.loc(),
                          f"{eng.name}: validators run before the guards of the same candidate", fn.key,
                          "COND evaluated before VALIDATOR", trace=names)
            else:
                rep.violation("C01.reject", fn.loc(), f"{eng.name}: a path of _activate skips the validators or the guards", fn.key,
                              "path: " + " ".join(names))
                continue
            if ap.cond_pol is None:
                rep.violation("C01.reject", fn.loc(), f"{eng.name}: the verdict of the guards is not tested on this path", fn.key,
                              "path ignores the COND result: " + " ".join(names))
                continue
            if ap.cond_pol is False:
                later = names[names.index(f"COND({tp})") + 1:]
                ok = ap.executing is False and all(n.startswith("RET") for n in later)
                rep.check(ok, "C01.reject", fn.loc(), f"{eng.name}: falsy guards reject the candidate before any action or write",
                          fn.key, "rejecting path: " + " ".join(names), trace=names)
            else:
                rep.check(ap.executing is True, "C01.reject", fn.loc(), f"{eng.name}: truthy guards let the candidate execute",
                          fn.key, "path with truthy guards: " + " ".join(names))
        # nothing between _activate and the drain loop may swallow a validator's exception
        for f in (fn, k.engine_fn(eng, "_trigger")):
            tries = [n for n in own_nodes(f.node) if isinstance(n, ast.Try)]
            for t in tries:
                for h in t.handlers:
                    reraises = any(isinstance(x, ast.Raise) for x in ast.walk(h))
                    rep.check(reraises, "C01.reject", f.loc(h), f"{eng.name}: handler in {f.name} re-raises", f.key, norm_stmt(h))
            rep.ok("C01.reject", f.loc(), f"{eng.name}.{f.name}: {len(tries)} try statements between a validator and the caller")


def rule_write(ctx: Ctx, rule: str = "C01.write"):
    """C01.write: who may write the model's state field."""
    rep, k = ctx.rep, ctx.k
    setter_v = ctx.p.find_fn("StateMachine.current_state_value", setter=True)
    setter_s = ctx.p.find_fn("StateMachine.current_state", setter=True)
    if setter_v is None or setter_s is None:
        raise AnalysisError("anchor lost: current_state / current_state_value setters")
    engine_writers = set()
    n_sites = 0
    for fn in ctx.p.all_functions():
        for n in own_nodes(fn.node):
            if isinstance(n, ast.Call) and isinstance(n.func, ast.Name) and n.func.id == "setattr" and len(n.args) == 3:
                if "state_field" in show(n.args[1]):
                    n_sites += 1
                    rep.check(fn is setter_v, rule, fn.loc(n), "the model's state field is written only by the current_state_value setter",
                              fn.key, norm_stmt(n))
            tgt = []
            if isinstance(n, ast.Assign):
                tgt = n.targets
            elif isinstance(n, (ast.AugAssign, ast.AnnAssign)):
                tgt = [n.target]
            for t in tgt:
                for sub in ast.walk(t):
                    if isinstance(sub, ast.Attribute) and isinstance(sub.ctx, ast.Store):
                        if sub.attr == "current_state_value":
                            n_sites += 1
                            rep.check(fn is setter_s, rule, fn.loc(n), "current_state_value is assigned only by the current_state setter",
                                      fn.key, norm_stmt(n))
                        elif sub.attr == "current_state":
                            n_sites += 1
                            is_engine_act = fn.name == "_activate" and fn.cls is not None and k.base in ctx.p.mro(fn.cls)
                            inl = fn.cls is not None and k.base in ctx.p.mro(fn.cls)
                            rep.check(is_engine_act or inl, rule, fn.loc(n), "current_state is assigned only from the engines' activation code",
                                      fn.key, norm_stmt(n))
                            if inl:
                                engine_writers.add(fn.key)
    for p in ctx.paths(setter_s):
        w = [e for e in p.of("store") if e.x.get("attr") == "current_state_value"]
        rep.check(len(w) == 1 and show(w[0].x["value"]) == "value.value", rule, setter_s.loc(),
                  "the current_state setter stores the state's `value`", setter_s.key,
                  "; ".join(e.show() for e in w) or "no store")
    # two setters + at least one engine-side assignment (shared by the engines or one each; every engine's executing
    # paths are checked for exactly one WRITE below)
    rep.floor(rule, "state write sites", n_sites, 3)
    for eng in k.engines:
        fn, tp, aps = activate_paths(ctx, eng)
        for ap in aps:
            ws = [s for s in ap.syms if s.kind == "WRITE"]
            if ap.executing:
                ok = len(ws) == 1 and xshow(ws[0].value, ap.path.events) == f"{tp}.target"
                rep.check(ok, rule, fn.loc(), f"{eng.name}: an executed transition writes exactly its own target, once", fn.key,
                          "writes: " + ", ".join(s.name for s in ws))
            else:
                rep.check(not ws, rule, fn.loc(), f"{eng.name}: a rejected candidate writes nothing", fn.key,
                          "writes: " + ", ".join(s.name for s in ws))


def rule_copied_guards(ctx: Ctx):
    """C01.expected: the per-state copies made for from_.any() keep the polarity of every guard."""
    from . import c15

    c15.rule_copy(ctx, rule="C01.expected")
    # ... and every non-final state gets its copy, whatever transitions it already has
    from . import c09

    c09.rule_any(ctx, rule="C01.expected")


def rule_decided_at_dequeue(ctx: Ctx):
    """C01.none: whether an event has a transition is decided by `_trigger` on the state current when the event is
    taken from the queue - every send enqueues its trigger (no send-time filter in any `put` implementation)."""
    from . import c03

    c03.rule_put(ctx, rule="C01.none")


def rule_stored_callable(ctx: Ctx, rule: str = "C01.expected"):
    """What a CallbackWrapper runs is what the builder built for this provider: `CallbacksExecutor.add` stores `builder()`
    itself, or a wrapper around it that calls it once with the call's own arguments and returns its value.  A memo in
    between (a guard's answer kept per trigger, per machine ...) makes later candidates / later evaluations reuse an answer
    computed for other arguments or an earlier state of the world."""
    from ..wrappers import builder_verdict

    rep = ctx.rep
    fn = ctx.fn("CallbacksExecutor.add")
    n = 0
    seen = set()
    for p in ctx.paths(fn, inline=None, exc_edges="none"):
        evs = p.events
        for e in p.calls():
            if show(e.term.func) != "CallbackWrapper":
                continue
            cb = next((k.value for k in e.term.keywords if k.arg == "callback"), e.term.args[0] if e.term.args else None)
            if cb is None:
                continue
            n += 1
            txt = xshow(cb, evs)
            if txt in seen:
                continue
            seen.add(txt)
            v = expand(cb, evs)
            if isinstance(v, ast.Call) and not v.args and not v.keywords and isinstance(v.func, ast.Name) and v.func.id in fn.params:
                rep.ok(rule, e.loc(), "the wrapper runs exactly what the builder built", stored=txt)
                continue
            if isinstance(cb, ast.Name) and cb.id.startswith("$def:"):
                q = cb.id[len("$def:"):].split("@")[0]
                inner = next((f for f in fn.module.all_functions if f.qualname == q), None) or \
                    next((f for f in ctx.p.all_functions() if f.qualname == q), None)
                if inner is not None and inner.parent is not None:
                    enter = next((x for x in evs if x.kind == "enter" and x.x.get("callee") is inner.parent), None)
                    wrapped = None
                    if enter is not None:
                        call = enter.node
                        for prm, arg in zip(inner.parent.params, getattr(call, "args", [])):
                            av = expand(arg, evs) if not isinstance(arg, ast.Name) else expand(N_(arg.id, p), evs)
                            if isinstance(av, ast.Call) and isinstance(av.func, ast.Name) and av.func.id in fn.params:
                                wrapped = prm
                    verdict, why = builder_verdict(ctx, inner.parent, wrapped)
                    if verdict == "memo":
                        rep.violation(rule, e.loc(), f"the callable stored for a callback is `{q}`, which can answer without calling what the builder "
                                      f"built: {why}", fn.key, norm_stmt(e.node))
                        continue
                    if verdict == "transparent":
                        rep.ok(rule, e.loc(), "the stored wrapper calls what the builder built once and returns its value", stored=txt)
                        continue
            rep.unrecognised(rule, e.loc(), f"CallbackWrapper(callback={txt}): not the builder's product and not a wrapper that could be read")
    rep.floor(rule, "CallbackWrapper constructions in CallbacksExecutor.add", n, 1)


def N_(name, p):
    """The value a local name holds at the end of the path (last store)."""
    for e in reversed(p.events):
        if e.kind == "store" and e.x.get("name") == name:
            return e.x["value"]
    return ast.Name(id=name, ctx=ast.Load())


def rule_awaited_verdict(ctx: Ctx):
    """C01.expected (async engine): a guard's or validator's verdict is the *awaited* value whatever kind of callable produced
    the awaitable (a plain function or lambda handing back a coroutine, an expression whose operand is async): an un-awaited
    coroutine is truthy, so every such `cond` would hold and every such validator would pass."""
    from . import c05

    c05.rule_wrapper(ctx, rule="C01.expected")


def rule_validator_exception_reaches_caller(ctx: Ctx):
    """C01.reject: a validator (or guard) that raises aborts the event with *that* exception - including StopIteration, which
    `map()`-applied callbacks would lose."""
    from . import c04

    c04.rule_stopiteration_safe(ctx, rule="C01.reject")


def rule_no_stale_events(ctx: Ctx):
    """C01.reject: an event is selected on the state its own history produced: events left in the queue by a failed event (any
    failure, not only a refused one) would run in front of the next event the user sends and move the machine first."""
    from . import c04

    c04.rule_clear(ctx, rule="C01.reject")


def rule_declared_events_reach_their_transitions(ctx: Ctx):
    """C01.match: "bound to that event" is what the class body declared: every id-less placeholder `Event()` of a transition's event
    list is replaced by the named event on every transition that carries it (a placeholder left behind keeps an internal id no
    `send` can name: the declared event is refused in a state that declares it)."""
    from . import c15

    c15.rule_attributes(ctx, rule="C01.match")


RULES = [rule_loop, rule_none, rule_match, rule_allof, rule_expected, rule_reject, rule_write, rule_copied_guards, rule_decided_at_dequeue, rule_stored_callable, rule_awaited_verdict, rule_validator_exception_reaches_caller, rule_no_stale_events, rule_declared_events_reach_their_transitions]
