"""C06 - Concurrent senders: mutual exclusion, exactly-once, nothing stranded."""

from __future__ import annotations

import ast

from ..context import Ctx
from ..loader import norm_stmt
from ..paths import show
from ..resolve import own_nodes
from . import c03
from .loop_model import loop_paths, queue_truth

EXPLANATION = (
    "The standard correctness argument of the 'enqueue, try-acquire, holder drains' protocol is checked on the code, "
    "on every path of `Event.__call__` and of each engine's `processing_loop`: (order) every sender enqueues before it "
    "tries the lock; (mutex) every `_trigger`, every consumer operation and every `clear` on the queue happens in lock "
    "typestate LOCKED; (nonblock) the lock is a plain Lock and is only tried; (recheck) no lost wake-up: every path from "
    "a `release()` to a normal return passes an emptiness test of the queue that found it empty, or a failed re-acquire "
    "(someone else holds the lock and inherits the duty), so emptiness is re-validated after the release; "
    "(atomic-async) on the async engine no await separates the emptiness test that ends the drain from the release, nor "
    "a failed acquire from the return; (prims) only atomic deque primitives touch the queue. Interleavings themselves are "
    "not enumerated: the verdict is that the code has the shape under which the protocol's textbook proof applies."
)
ASSUMPTIONS = ["CPython: deque.append/popleft/clear/__bool__ and Lock.acquire/release are atomic",
               "asyncio tasks interleave only at awaits; threads at any bytecode boundary"]
TRUSTED = ["the protocol argument: enqueue-before-try-lock + re-check-after-release => no stranded event"]


def rule_order(ctx: Ctx):
    c03.rule_put(ctx, rule="C06.order")


def rule_nonblock(ctx: Ctx):
    c03.rule_elect(ctx, rule="C06.nonblock")


def rule_mutex(ctx: Ctx):
    rep, k = ctx.rep, ctx.k
    for eng in k.engines:
        fn, lps = loop_paths(ctx, eng, exc_edges="try")
        n = 0
        for lp in lps:
            if lp.rtc is False:
                continue
            for s in lp.syms:
                if s.kind in ("TRIG", "POP", "CLEAR", "QOP"):
                    n += 1
                    rep.check(bool(s.locked), "C06.mutex", s.ev.loc(),
                              f"{eng.name}: {s.kind} happens only while the processing lock is held", fn.key, norm_stmt(s.ev.node),
                              path=lp.names())
        rep.floor("C06.mutex", f"consumer/trigger operations on RTC paths of {eng.name}", n, 3)
    # nobody else consumes the queue
    for fn in ctx.p.all_functions():
        for n in own_nodes(fn.node):
            if isinstance(n, ast.Call) and isinstance(n.func, ast.Attribute) and isinstance(n.func.value, ast.Attribute) \
                    and n.func.value.attr == k.queue_attr and n.func.attr in ("popleft", "pop", "clear", "remove", "rotate"):
                inside = fn.cls is not None and k.base in ctx.p.mro(fn.cls)
                rep.check(inside, "C06.mutex", fn.loc(n), "the queue is consumed only by engine code", fn.key, norm_stmt(n))


def rule_recheck(ctx: Ctx):
    rep, k = ctx.rep, ctx.k
    for eng in k.engines:
        fn, lps = loop_paths(ctx, eng, exc_edges="none")
        n = 0
        for lp in lps:
            if lp.rtc is False or lp.path.kind != "return":
                continue
            syms = lp.syms
            rels = [i for i, s in enumerate(syms) if s.kind == "REL"]
            if not rels:
                continue
            n += 1
            tail = syms[rels[-1] + 1:]
            rel_idx = syms[rels[-1]].ev.idx
            ok = any((s.kind == "QTEST" and s.info["taken"] is False and s.info.get("read_idx", s.ev.idx) > rel_idx)
                     or (s.kind == "ACQ?" and s.info["taken"] is False) for s in tail)
            stale = [s for s in tail if s.kind == "QTEST" and s.info.get("read_idx", s.ev.idx) < rel_idx]
            if stale and not ok:
                rep.violation("C06.recheck", stale[0].ev.loc(), f"{eng.name}: the queue is looked at *before* the lock is released and the stale "
                              "answer is used afterwards: a sender that enqueues in between is stranded", fn.key, norm_stmt(stale[0].ev.node))
                continue
            rep.check(ok, "C06.recheck", syms[rels[-1]].ev.loc(),
                      f"{eng.name}: after releasing the lock the queue is looked at again before returning (no lost wake-up)",
                      fn.key, "return after release without re-checking the queue", tail=[repr(s) for s in tail])
            # between the emptiness test that ends a drain and the release nothing may consume/await
        rep.floor("C06.recheck", f"normal exits after a release in {eng.name}.processing_loop", n, 2)


def rule_atomic_async(ctx: Ctx):
    rep, k = ctx.rep, ctx.k
    n = 0
    for eng in k.engines:
        fn, lps = loop_paths(ctx, eng, exc_edges="none")
        if not fn.is_async:
            continue
        for lp in lps:
            syms = lp.syms
            for i, s in enumerate(syms):
                if s.kind == "REL":
                    # walk back to the emptiness test that ended the drain
                    j = i - 1
                    between = []
                    while j >= 0 and not (syms[j].kind == "QTEST" and syms[j].info["taken"] is False):
                        between.append(syms[j])
                        j -= 1
                    if j >= 0:
                        n += 1
                        aw = [b for b in between if b.kind == "AWAIT"]
                        rep.check(not aw, "C06.atomic-async", s.ev.loc(),
                                  f"{eng.name}: no await between the emptiness test ending the drain and the release", fn.key,
                                  "await inside the window: " + " ".join(repr(b) for b in reversed(between)))
                if s.kind == "ACQ?" and s.info["taken"] is False:
                    aw = [b for b in syms[i + 1:] if b.kind == "AWAIT"]
                    n += 1
                    rep.check(not aw, "C06.atomic-async", s.ev.loc(), f"{eng.name}: a losing sender returns without awaiting", fn.key,
                              "await after failed acquire")
                if s.kind == "ACQ":
                    # no await between the acquire call and the test of its result
                    nxt = syms[i + 1] if i + 1 < len(syms) else None
                    rep.check(nxt is not None and nxt.kind == "ACQ?", "C06.atomic-async", s.ev.loc(),
                              f"{eng.name}: the result of the try-acquire is tested immediately", fn.key, norm_stmt(s.ev.node))
    rep.floor("C06.atomic-async", "release/fail windows examined on async engines", n, 2)


ATOMIC_QUEUE_OPS = {"append", "popleft", "clear"}


def rule_prims(ctx: Ctx):
    rep, k = ctx.rep, ctx.k
    n = 0
    # the protocol's argument rests on the queue being a collections.deque: append / popleft are atomic and strictly FIFO,
    # so per-sender order is append order.  Any other container (or a class that re-orders, e.g. by who holds the lock)
    # is outside what the rules below can vouch for.
    rep.check(k.queue_ctor == "deque", "C06.prims", k.base.method("__init__").loc(),
              "the queue shared by the senders is a collections.deque (atomic FIFO primitives)", "BaseEngine.__init__",
              f"self.{k.queue_attr} = {k.queue_ctor}()")
    for fn in ctx.p.all_functions():
        parents = {}
        for node in ast.walk(fn.node):
            for ch in ast.iter_child_nodes(node):
                parents[ch] = node
        # local aliases `q = self.<queue>`: every use of the alias is classified like a use of the attribute
        aliases = set()
        for node in own_nodes(fn.node):
            if isinstance(node, ast.Assign) and len(node.targets) == 1 and isinstance(node.targets[0], ast.Name) and \
                    isinstance(node.value, ast.Attribute) and node.value.attr == k.queue_attr:
                aliases.add(node.targets[0].id)
        uses = []
        for node in own_nodes(fn.node):
            if isinstance(node, ast.Attribute) and node.attr == k.queue_attr:
                par = parents.get(node)
                if isinstance(par, ast.Assign) and par.value is node and len(par.targets) == 1 and isinstance(par.targets[0], ast.Name):
                    n += 1
                    rep.ok("C06.prims", fn.loc(node), "local alias of the queue (its uses are classified below)")
                    continue
                uses.append(node)
            elif isinstance(node, ast.Name) and node.id in aliases and isinstance(node.ctx, ast.Load):
                uses.append(node)
        for node in uses:
            n += 1
            par = parents.get(node)
            where = fn.loc(node)
            if isinstance(node.ctx, ast.Store):
                ok = fn.name == "__init__" or (isinstance(par, ast.Assign) and isinstance(par.value, ast.Call)
                                               and show(par.value.func) in ("deque", "collections.deque") and not par.value.args)
                rep.check(ok, "C06.prims", where, "the queue object is only created fresh", fn.key, norm_stmt(par or node))
            elif isinstance(par, ast.Attribute) and isinstance(parents.get(par), ast.Call) and parents[par].func is par:
                rep.check(par.attr in ATOMIC_QUEUE_OPS, "C06.prims", where,
                          f"queue operation `{par.attr}` is one of the atomic primitives {sorted(ATOMIC_QUEUE_OPS)}", fn.key,
                          norm_stmt(parents[par]))
            elif isinstance(par, (ast.While, ast.If, ast.UnaryOp, ast.BoolOp, ast.IfExp)) or (
                    isinstance(par, ast.Call) and show(par.func) in ("len", "bool")):
                rep.ok("C06.prims", where, "queue emptiness test (atomic)")
            elif isinstance(par, ast.AnnAssign) and par.target is node:
                rep.ok("C06.prims", where, "queue created in the constructor")
            else:
                rep.violation("C06.prims", where, "the queue is used through a non-atomic or unrecognised operation", fn.key,
                              norm_stmt(par or node))
    rep.floor("C06.prims", "uses of the queue attribute", n, 6)


def rule_no_sticky_gate(ctx: Ctx):
    """C06.nonblock: whether a sender becomes the consumer is decided by the lock alone.  An engine attribute written while
    processing (a 'draining' flag ...) is a second, non-atomic gate: a sender can see it set after the consumer's last
    re-check and leave its event stranded."""
    from . import c04

    c04.rule_nosticky(ctx, rule="C06.nonblock")


def rule_awaited_before_release(ctx: Ctx):
    """C06.atomic-async: whatever awaitable a callback hands back (Task, Future, gather, object with __await__) is awaited
    inside the callback wrapper, i.e. before the drain loop goes on and before the lock is released - otherwise that work
    overlaps the next event's callbacks and may still be running when every sender has returned."""
    from . import c05

    c05.rule_wrapper(ctx, rule="C06.atomic-async")


def rule_lock_released_on_every_exit(ctx: Ctx):
    """C06.mutex: the processing lock is released on every way out of the loop, also when a sender is cancelled or interrupted
    inside a callback (BaseException): a lock left held makes every later sender's event queue up with nobody to run it."""
    from . import c04

    c04.rule_release(ctx, rule="C06.mutex")


RULES = [rule_order, rule_mutex, rule_nonblock, rule_recheck, rule_atomic_async, rule_prims, rule_no_sticky_gate, rule_awaited_before_release, rule_lock_released_on_every_exit]
