"""C07 - Callbacks receive exactly the parameters they declare."""

from __future__ import annotations

import ast
from typing import Dict, List, Optional, Set

from ..context import Ctx
from ..kernel import expand, expand1, xshow
from ..loader import AnalysisError, norm_stmt
from ..paths import Path, show
from ..resolve import own_nodes

EXPLANATION = (
    "Structural preconditions of correct argument binding, decided on the code: (reserved) the table of reserved names in "
    "event.py, the keys written by EventData.extended_kwargs and the documented built-ins are the same set, and the kwargs "
    "stored in the TriggerData come from a filter on that table; (layer) built-ins are written over a copy of the user "
    "kwargs, after the copy, and nothing re-introduces user values; (adapter) every callable provider goes through "
    "`callable_method`, whose closures bind with bind_expected and call the callable with exactly the bound args/kwargs; "
    "(consume) typestate over all paths of bind_expected: a parameter taken from the iterator in the positional phase is "
    "BOUND, SAVED for the keyword phase, RECORDED as **kwargs, or is *args - never dropped; (raise) the binder raises only the "
    "positional-only-passed-as-keyword TypeError; (cachekey) the process-global signature memo is keyed by an "
    "identity-bearing component of the callable. That the binding is right for every signature x call shape is a value-level "
    "claim and is NOT decided here."
    " Added after seeded batch 9: a callable that declares its own __signature__ is not served from the signature memo unless the key covers it (F39)."
)
EXPLANATION += (
    " " + 'The memo key must also identify the unwrapped function the signature is read from (inspect follows __wrapped__; the outer code object alone is shared by everything one decorator wrapped).'
)
ASSUMPTIONS = ["inspect.Signature.parameters ordering and Parameter.kind semantics (standard library)"]
TRUSTED = ["/verif/sa path enumerator"]

DOCUMENTED_BUILTINS = {"event_data", "event", "source", "target", "state", "model", "machine", "transition"}


def _reserved_table(ctx: Ctx) -> (str, Set[str]):
    mod = ctx.p.module("statemachine/event.py")
    for name, val in mod.assigns.items():
        if isinstance(val, (ast.Set, ast.List, ast.Tuple)) and all(isinstance(e, ast.Constant) and isinstance(e.value, str) for e in val.elts):
            names = {e.value for e in val.elts}
            if len(names & DOCUMENTED_BUILTINS) >= 4:
                return name, names
        if isinstance(val, ast.Call) and show(val.func) in ("frozenset", "set") and val.args and isinstance(val.args[0], (ast.Set, ast.List, ast.Tuple)):
            names = {e.value for e in val.args[0].elts if isinstance(e, ast.Constant)}
            if len(names & DOCUMENTED_BUILTINS) >= 4:
                return name, names
    raise AnalysisError("anchor lost: table of reserved keyword names in event.py")


def rule_reserved(ctx: Ctx, rule: str = "C07.reserved"):
    rep = ctx.rep
    tname, table = _reserved_table(ctx)
    ek = ctx.p.find_fn("EventData.extended_kwargs")
    if ek is None:
        raise AnalysisError("anchor lost: EventData.extended_kwargs")
    from ..shapes import dict_model

    keys: Set[str] = set()
    for p in ctx.paths(ek, exc_edges="none"):
        if p.kind == "return":
            dm = dict_model(p, p.value if isinstance(p.value, ast.Dict) else show(p.value))
            if dm is not None:
                keys |= {k_ for k_, _, _ in dm.writes if k_ not in ("**", "?")}
    mod = ctx.p.module("statemachine/event.py")
    rep.check(table == DOCUMENTED_BUILTINS, rule, f"{mod.rel} {tname}",
              "the reserved-name table is exactly the documented built-in parameters", f"{mod.rel}::{tname}",
              f"{tname} = {sorted(table)}", missing=sorted(DOCUMENTED_BUILTINS - table), extra=sorted(table - DOCUMENTED_BUILTINS))
    rep.check(keys == table, rule, ek.loc(), "the keys injected by extended_kwargs are exactly the reserved names", ek.key,
              f"injected keys {sorted(keys)} vs table {sorted(table)}", injected=sorted(keys))
    call = ctx.fn("Event.__call__")
    n = 0
    for p in ctx.paths(call, inline=None, exc_edges="none", comps_for_loops=True):
        for e in p.calls():
            if e.x["callee"] and "ctor:TriggerData" in e.x["callee"].tags:
                n += 1
                kw = {k.arg: k.value for k in e.term.keywords}
                v = kw.get("kwargs")
                if v is None and len(e.term.args) >= 4:
                    v = e.term.args[3]
                vt = expand(v, p.events) if v is not None else None
                ok = False
                detail = show(vt)
                if isinstance(vt, ast.DictComp) and len(vt.generators) == 1:
                    g = vt.generators[0]
                    tg = g.target
                    kname = tg.elts[0].id if isinstance(tg, ast.Tuple) and isinstance(tg.elts[0], ast.Name) else None
                    vname = tg.elts[1].id if isinstance(tg, ast.Tuple) and len(tg.elts) > 1 and isinstance(tg.elts[1], ast.Name) else None
                    filt = any(isinstance(c, ast.Compare) and len(c.ops) == 1 and isinstance(c.ops[0], ast.NotIn)
                               and show(c.left) == kname and show(c.comparators[0]) == tname for c in g.ifs)
                    ok = filt and show(g.iter) == "kwargs.items()" and show(vt.key) == kname and show(vt.value) == vname
                elif isinstance(v, ast.Name) and v.id.startswith("$l"):
                    ok, detail = _filter_loop(p, v.id, tname)
                    if ok is None:
                        continue  # infeasible / no iteration on this path: nothing to decide
                rep.check(ok, rule, e.loc(), "user keyword arguments are stored without the reserved names "
                          "(built-ins cannot be overridden or leaked)", call.key, norm_stmt(e.node), kwargs=detail)
                a = kw.get("args")
                rep.check(a is not None and show(a) == "args", rule, e.loc(), "positional arguments are stored unchanged",
                          call.key, norm_stmt(e.node))
    rep.floor(rule, "TriggerData constructions in Event.__call__", n, 1)


def _filter_loop(p, obj: str, tname: str):
    """kwargs filtered by an explicit loop into the fresh dict `obj`: every iteration stores (key, value) iff the key is
    not reserved.  Returns (ok, detail); ok None when the path has no iteration."""
    evs = p.events
    marks = [e for e in evs if e.kind in ("iter", "exhaust") and e.x.get("loop", "for") == "for" and xshow(e.term, evs) == "kwargs.items()"]
    segs = [(a, evs[a.idx + 1: b.idx]) for a, b in zip(marks, marks[1:]) if a.kind == "iter"]
    alloc = next((e for e in evs if e.kind == "alloc" and f"$l{e.idx}" == obj), None)
    if alloc is None or not isinstance(alloc.term, ast.Dict) or alloc.term.keys:
        return False, f"{obj} = {show(alloc.term) if alloc is not None else '?'}"
    other = [e for e in evs if e.kind == "store" and e.x.get("subscript") and show(e.term.value) == obj and not any(e in sg for _, sg in segs)]
    if other:
        return False, f"written outside the filtering loop: {norm_stmt(other[0].node)}"
    if not segs:
        return None, "no iteration"
    for it, seg in segs:
        el = xshow(it.x["elem"], evs)
        reserved = None
        for b in seg:
            if b.kind != "branch":
                continue
            t = expand1(b.term, evs)
            pol = b.x["taken"]
            while isinstance(t, ast.UnaryOp) and isinstance(t.op, ast.Not):
                t, pol = t.operand, not pol
            if isinstance(t, ast.Compare) and len(t.ops) == 1 and isinstance(t.ops[0], (ast.In, ast.NotIn)) and xshow(t.left, evs) == f"{el}[0]" \
                    and show(t.comparators[0]) == tname:
                reserved = pol if isinstance(t.ops[0], ast.In) else not pol
            else:
                return False, f"loop tests `{show(t)}`"
        st = [e for e in seg if e.kind == "store" and e.x.get("subscript") and show(e.term.value) == obj]
        if reserved is None:
            return False, "a key is copied without the reserved-name test" if st else "keys are dropped without the reserved-name test"
        if reserved and st:
            return False, "a reserved key is copied"
        if not reserved:
            if len(st) != 1 or xshow(st[0].term.slice, evs) != f"{el}[0]" or xshow(st[0].x["value"], evs) != f"{el}[1]":
                return False, "a user key is not copied unchanged: " + (norm_stmt(st[0].node) if st else "no store")
    return True, "explicit loop: copies (key, value) iff key not in " + tname


def rule_layer(ctx: Ctx, rule: str = "C07.layer"):
    from ..shapes import dict_model

    rep = ctx.rep
    ek = ctx.p.find_fn("EventData.extended_kwargs")
    for p in ctx.paths(ek, exc_edges="none"):
        evs = p.events
        if p.kind != "return":
            rep.violation(rule, ek.loc(), "extended_kwargs does not return", ek.key, p.kind)
            continue
        dm = dict_model(p, p.value if isinstance(p.value, ast.Dict) else show(p.value))
        if dm is None and xshow(p.value, evs) == "self.trigger_data.kwargs":
            rep.violation(rule, ek.loc(), "extended_kwargs writes the built-ins into the user's own kwargs mapping instead of a copy "
                          "(they leak into the trigger and into later candidate transitions)", ek.key, "kwargs = self.trigger_data.kwargs")
            continue
        if dm is None:
            rep.unrecognised(rule, ek.loc(), f"extended_kwargs returns `{xshow(p.value, evs)}`, not a mapping it built")
        star_first = bool(dm.writes) and dm.writes[0][0] == "**" and xshow(dm.writes[0][1], evs) == "self.trigger_data.kwargs"
        if dm.base == "{}" and star_first:
            dm.base = "dict(self.trigger_data.kwargs)"  # `{**user_kwargs, builtins...}`
            dm.writes = dm.writes[1:]
        rep.check(dm.base in ("self.trigger_data.kwargs.copy()", "dict(self.trigger_data.kwargs)", "self.trigger_data.kwargs") or
                  any(k_ == "**" and xshow(v, evs) == "self.trigger_data.kwargs" for k_, v, _ in dm.writes), rule, ek.loc(),
                  "the mapping handed to callbacks starts from the user's keyword arguments", ek.key, f"kwargs = {dm.base}")
        rep.check(dm.base != "self.trigger_data.kwargs", rule, ek.loc(),
                  "the mapping handed to callbacks is a *copy* of the user's keyword arguments (built-ins do not leak into the trigger)", ek.key,
                  f"kwargs = {dm.base}")
        builtin_writes = [(k_, e) for k_, v, e in dm.writes if k_ in DOCUMENTED_BUILTINS]
        rep.check(len({k_ for k_, _ in builtin_writes}) >= len(DOCUMENTED_BUILTINS) and all(e.idx >= dm.created for _, e in builtin_writes),
                  rule, ek.loc(), "every built-in key is written after the copy, into that copy", ek.key,
                  f"{len(builtin_writes)} built-in writes into the mapping")
        first = min([e.idx for _, e in builtin_writes], default=dm.created)
        merges = [e for k_, v, e in dm.writes if k_ == "**" and e.idx >= first]
        # a `**user_kwargs` merged in the same or a later write than a built-in re-introduces user values over it
        later = []
        for k_, v, e in dm.writes:
            if k_ == "**" and "kwargs" in xshow(v, evs):
                pos = dm.writes.index((k_, v, e))
                if any(kk in DOCUMENTED_BUILTINS for kk, _, _ in dm.writes[:pos]):
                    later.append(e)
        rep.check(not later, rule, ek.loc(), "nothing merges user values over the built-ins afterwards", ek.key,
                  "; ".join(e.show() for e in later))


def rule_provider_kind(ctx: Ctx, rule: str = "C07.adapter"):
    """How a provider's attribute is wrapped is decided on the very value the wrapper will use: `getattr(obj, name)` of the provider
    object - callable -> called through the signature adapter, anything else -> read as a plain value at each evaluation."""
    rep = ctx.rep
    n = 0
    for name in ("Listeners.search_name", "Listeners._search_callable"):
        fn = ctx.fn(name)
        for p in ctx.paths(fn, inline=None, exc_edges="none"):
            evs = p.events
            for y in p.of("yield"):
                t = expand(y.term, evs)
                if not (isinstance(t, ast.Tuple) and len(t.elts) == 2):
                    continue
                b = t.elts[1]
                if not (isinstance(b, ast.Call) and show(b.func) in ("partial", "functools.partial") and b.args):
                    rep.unrecognised(rule, y.loc(), f"builder `{show(b)}` is not a partial application")
                builder = show(b.args[0])
                # the decisions of this iteration of the provider loop only (the loop is unrolled: earlier providers took theirs)
                seg0 = max([x.idx for x in evs[: y.idx] if x.kind == "iter"] or [0])
                prior = [(xshow(x.term, evs), x.x["taken"]) for x in evs[seg0: y.idx] if x.kind == "branch"]
                prior_txt = [f"{a}=={b_}" for a, b_ in prior][-3:]
                n += 1
                if builder == "callable_method":
                    rep.ok(rule, y.loc(), f"{fn.name}: a callable provider is wrapped by the signature adapter", guards=prior_txt)
                elif builder == "attr_method":
                    ok = any(a.startswith("callable(") and b_ is False for a, b_ in prior) or fn.name == "_search_property"
                    rep.check(ok, rule, y.loc(), f"{fn.name}: only non-callable attributes are read as plain values", fn.key,
                              norm_stmt(y.node), guards=prior_txt)
                    # ... and "callable" is asked of the attribute of the provider object itself (what attr_method will read), not of
                    # the class's declaration or of a remembered value
                    if ok and fn.name != "_search_property" and len(b.args) >= 3:
                        want = (show(b.args[2]), show(b.args[1]))
                        for x in evs[seg0: y.idx]:
                            if x.kind == "branch" and x.x["taken"] is False:
                                tt = expand(x.term, evs)
                                if isinstance(tt, ast.Call) and show(tt.func) == "callable" and tt.args:
                                    a0 = tt.args[0]
                                    same = isinstance(a0, ast.Call) and show(a0.func) == "getattr" and len(a0.args) >= 2 and \
                                        (show(a0.args[0]), show(a0.args[1])) == want
                                    same = same or (isinstance(a0, ast.Attribute) and show(a0.value) == want[0])
                                    rep.check(same, rule, y.loc(), f"{fn.name}: callability is tested on the provider object's own attribute "
                                              f"`getattr({want[0]}, {want[1]})`", fn.key, "callable-of " + norm_stmt(y.node), tested=show(a0))
                elif builder == "event_method":
                    ok = any(a.startswith("isinstance(") and "Event" in a and b_ is True for a, b_ in prior)
                    rep.check(ok, rule, y.loc(), f"{fn.name}: only Event objects are wrapped as event actions", fn.key,
                              norm_stmt(y.node), guards=prior_txt)
                else:
                    rep.violation(rule, y.loc(), f"{fn.name}: provider wrapped by `{builder}` bypasses the signature adapter",
                                  fn.key, norm_stmt(y.node))
    rep.floor(rule, "builders yielded by the listener search", n, 4)


def rule_adapter(ctx: Ctx):
    rep = ctx.rep
    rule_provider_kind(ctx)
    cm = ctx.fn("callable_method")
    closures = [f for f in cm.module.all_functions if f.parent is cm]
    rep.floor("C07.adapter", "adapter closures of callable_method", len(closures), 2)
    # the signature is read from the callable that is called: from_callable must hand the parameter itself to
    # inspect (a bound method unwrapped to its function would gain `self`)
    fc = ctx.fn("SignatureAdapter.from_callable")
    n_src = 0
    for p in ctx.paths(fc, inline=None, exc_edges="none"):
        for e in p.calls():
            f = show(e.term.func)
            if f.endswith(".from_callable") and "super()" in f:
                n_src += 1
                rep.check(bool(e.term.args) and show(e.term.args[0]) == fc.params[1], "C07.adapter", e.loc(),
                          "the signature is taken from the very callable that will be called", fc.key, norm_stmt(e.node),
                          argument=xshow(e.term.args[0], p.events) if e.term.args else None)
    rep.floor("C07.adapter", "signature extraction sites in from_callable", n_src, 1)
    sigsrc = None
    for p in ctx.paths(cm, inline=None, exc_edges="none"):
        for e in p.of("bind"):
            if e.x["name"] == "sig_bind_expected":
                sigsrc = xshow(e.term, p.events)
    rep.check(sigsrc == "SignatureAdapter.from_callable(a_callable).bind_expected", "C07.adapter", cm.loc(),
              "the adapter binds with the signature of the very callable it wraps", cm.key, f"sig_bind_expected = {sigsrc}")
    for c in closures:
        for p in ctx.paths(c, inline=None, exc_edges="none"):
            calls = p.calls()
            ok = len(calls) == 2 and show(calls[0].term) == "sig_bind_expected(*args, **kwargs)"
            if ok:
                ba = f"$c{calls[0].idx}"
                ok = show(calls[1].term) == f"a_callable(*{ba}.args, **{ba}.kwargs)" and p.kind == "return" and \
                    show(p.value) == f"$c{calls[1].idx}"
                if c.is_async:
                    ok = ok and bool(calls[1].x.get("awaited"))
            rep.check(ok, "C07.adapter", c.loc(), f"`{c.qualname}` calls the callable with exactly the bound positional and keyword arguments",
                      c.key, "; ".join(e.show() for e in calls))


def _taken_params(p: Path):
    """(event, placeholder) for each successful `next(parameters)` on the path."""
    evs = p.events
    params_iter = None
    for e in p.of("bind"):
        if e.x["name"] == "parameters":
            params_iter = show(e.term)
    out = []
    for e in p.calls():
        if show(e.term.func) == "next" and e.term.args and show(e.term.args[0]) == params_iter:
            nxt = evs[e.idx + 1] if e.idx + 1 < len(evs) else None
            if nxt is not None and nxt.kind == "throw":
                continue
            ph = f"$c{e.idx}"
            if len(e.term.args) == 2 and isinstance(e.term.args[1], ast.Constant) and e.term.args[1].value is None:
                # next(it, None): exhausted when the path established that the result is None
                none = [b for b in p.of("branch") if b.idx > e.idx and isinstance(b.term, ast.Compare) and len(b.term.ops) == 1
                        and isinstance(b.term.ops[0], (ast.Is, ast.IsNot)) and show(b.term.left) == ph
                        and isinstance(b.term.comparators[0], ast.Constant) and b.term.comparators[0].value is None]
                if none and (none[0].x["taken"] is isinstance(none[0].term.ops[0], ast.Is)):
                    continue
                if not none:
                    continue  # used without the None test: not recognised as a taken parameter
            out.append((e, ph))
    return out, params_iter


def rule_consume(ctx: Ctx):
    rep = ctx.rep
    fn = ctx.fn("SignatureAdapter.bind_expected")
    paths = ctx.paths(fn, inline=None, exc_edges="try", unroll=2)
    n = 0
    outcomes: Dict[str, int] = {}
    for p in paths:
        if p.kind != "return":
            continue
        evs = p.events
        taken, piter = _taken_params(p)
        # end of the positional phase = the chain(...) call that starts the keyword phase
        chain = next((e for e in p.calls() if show(e.term.func) in ("chain", "itertools.chain")), None)
        if chain is None:
            rep.unrecognised("C07.consume", fn.loc(), "keyword phase (chain(parameters_ex, parameters)) not found on a returning path")
        arguments = next((f"$l{e.idx}" for e in evs if e.kind == "alloc" and e.x.get("name") == "arguments"), None)
        for call, ph in taken:
            if call.idx > chain.idx:
                continue
            n += 1
            seg_end = next((e.idx for e in evs[call.idx + 1:] if e.kind == "iter" and e.x.get("loop") == "while"), chain.idx)
            seg = evs[call.idx + 1: min(seg_end, chain.idx) + 1]
            state = None
            for e in seg:
                if e.kind == "store" and e.x.get("subscript") and show(e.term.value) == arguments and show(e.term.slice) == f"{ph}.name":
                    state = "BOUND"
                elif e.kind == "bind" and e.x["name"] == "parameters_ex" and ph in show(e.term):
                    state = "SAVED"
                elif e.kind == "bind" and e.x["name"] == "kwargs_param" and show(e.term) == ph:
                    state = "RECORDED"
                elif e.kind == "branch" and show(e.term) == f"{ph}.kind == Parameter.VAR_POSITIONAL" and e.x["taken"] and state is None:
                    state = "VARARGS"
            # SAVED must actually reach the keyword phase
            if state == "SAVED":
                state = "SAVED" if ph in show(chain.term) else None
            kinds = [f"{show(b.term).split('Parameter.')[-1]}={b.x['taken']}" for b in seg if b.kind == "branch" and f"{ph}.kind" in show(b.term)]
            outcomes[state or "DROPPED"] = outcomes.get(state or "DROPPED", 0) + 1
            rep.check(state is not None, "C07.consume", call.loc(),
                      "a parameter taken in the positional phase is bound, saved for the keyword phase, recorded as **kwargs or is *args",
                      fn.key, f"parameter taken by next(parameters) is dropped when {' and '.join(kinds) or 'no kind test'}",
                      kind_tests=kinds, outcome=state)
    rep.floor("C07.consume", "parameters taken in the positional phase (over all paths)", n, 8)
    rep.extra["consume_outcomes"] = outcomes
    for need in ("BOUND", "SAVED", "RECORDED", "VARARGS"):
        rep.check(outcomes.get(need, 0) > 0, "C07.consume", fn.loc(), f"the positional phase has a {need} outcome", fn.key, f"no path with outcome {need}")
    # keyword phase: every parameter is recorded, skipped because it is *args, or looked up in kwargs
    n_kw = 0
    varargs_leak = []
    for p in paths:
        if p.kind != "return":
            continue
        evs = p.events
        chain = next((e for e in p.calls() if show(e.term.func) in ("chain", "itertools.chain")), None)
        iters = [e for e in evs if e.kind == "iter" and e.x.get("loop") == "for" and chain is not None and show(e.term) == f"$c{chain.idx}"]
        arguments = next((f"$l{e.idx}" for e in evs if e.kind == "alloc" and e.x.get("name") == "arguments"), None)
        for i, it in enumerate(iters):
            end = iters[i + 1].idx if i + 1 < len(iters) else next((e.idx for e in evs[it.idx:] if e.kind == "exhaust"), len(evs))
            seg = evs[it.idx: end]
            elem = show(it.x["elem"])
            n_kw += 1
            ok = False
            for e in seg:
                if e.kind == "branch" and isinstance(e.term, ast.Compare) and isinstance(e.term.ops[0], ast.In) and show(e.term.left) == f"{elem}.name" \
                        and show(e.term.comparators[0]) == "kwargs" and e.x["taken"] is False:
                    ok = True  # no same-named keyword: the parameter is left to its default
                if e.kind == "bind" and e.x["name"] == "kwargs_param" and show(e.term) == elem:
                    ok = True
                if e.kind == "branch" and show(e.term) == f"{elem}.kind == Parameter.VAR_POSITIONAL" and e.x["taken"]:
                    ok = True
                if e.kind == "call" and show(e.term.func) == "kwargs.pop" and e.term.args and show(e.term.args[0]) == f"{elem}.name":
                    not_varargs = any(b.kind == "branch" and show(b.term) == f"{elem}.kind == Parameter.VAR_POSITIONAL" and b.x["taken"] is False
                                      for b in seg if b.idx < e.idx)
                    if not not_varargs:
                        varargs_leak.append(e)
                    nxt = evs[e.idx + 1] if e.idx + 1 < len(evs) else None
                    if nxt is not None and nxt.kind == "throw":
                        ok = True  # no value for it: left to its default
                    else:
                        ok = any(s.kind == "store" and s.x.get("subscript") and show(s.term.value) == arguments and
                                 show(s.term.slice) == f"{elem}.name" and show(s.x["value"]) == f"$c{e.idx}" for s in seg)
            rep.check(ok, "C07.consume", it.loc(), "keyword phase: a parameter is recorded as **kwargs, skipped as *args, or filled from the "
                      "same-named keyword argument", fn.key, "keyword-phase iteration without a defined outcome")
    rep.floor("C07.consume", "keyword-phase iterations (over all paths)", n_kw, 8)
    if varargs_leak:
        e = varargs_leak[0]
        rep.violation("C07.consume", e.loc(), "keyword phase: a `*args` parameter can be filled from a same-named keyword argument "
                      "(a user keyword called like the var-positional parameter is spread into the positional arguments)", fn.key, norm_stmt(e.node))
    else:
        rep.ok("C07.consume", fn.loc(), "keyword phase: a same-named keyword is looked up only for parameters that are not *args")
    # the leftovers
    for p in paths:
        if p.kind != "return":
            continue
        v = expand1(p.value, p.events)
        arguments = next((f"$l{e.idx}" for e in p.events if e.kind == "alloc" and e.x.get("name") == "arguments"), None)
        ok = isinstance(v, ast.Call) and show(v.func) == "BoundArguments" and len(v.args) == 2 and show(v.args[0]) == "self" and show(v.args[1]) == arguments
        rep.check(ok, "C07.consume", fn.loc(), "the result is BoundArguments(self, <the arguments collected>)", fn.key, f"return {show(v)}")
        break


def rule_raise(ctx: Ctx):
    rep = ctx.rep
    fn = ctx.fn("SignatureAdapter.bind_expected")
    raise_nodes = {}
    for p in ctx.paths(fn, inline=None, exc_edges="try", unroll=2):
        for e in p.of("raise"):
            if not e.x.get("reraise"):
                raise_nodes[(e.fn.key, e.line)] = e
    rep.check(len(raise_nodes) == 1, "C07.raise", fn.loc(), "the tolerant binder has a single raise statement (helpers included)", fn.key,
              f"{len(raise_nodes)} raise statements: " + "; ".join(norm_stmt(e.node) for e in raise_nodes.values()))
    n = 0
    for p in ctx.paths(fn, inline=None, exc_edges="try", unroll=2):
        if p.kind != "raise" or not any(e.kind == "raise" and not e.x.get("reraise") for e in p.events):
            continue
        n += 1
        r = next(e for e in p.events if e.kind == "raise")
        conds = {xshow(b.term, p.events).replace(f"$c", "$c"): b.x["taken"] for b in p.of("branch")}
        is_type = xshow(r.term, p.events).startswith("TypeError(")
        po = any("kind == Parameter.POSITIONAL_ONLY" in c and v for c, v in conds.items())
        kw = any(c.endswith(".name in kwargs") and v for c, v in conds.items())
        rep.check(is_type and po and kw, "C07.raise", r.loc(),
                  "the only error raised by the binder is the positional-only-parameter-passed-as-keyword TypeError", fn.key,
                  norm_stmt(r.node), conditions=[f"{c}=={v}" for c, v in conds.items()][-4:])
    rep.floor("C07.raise", "raising paths of bind_expected", n, 1)


IDENTITY_ATTRS = {"__code__", "__func__", "__wrapped__", "__self__"}
NAME_ATTRS = {"__qualname__", "__name__", "co_varnames", "co_name", "co_argcount", "__module__"}


def _identity_bearing(t: ast.AST, param: str, env_roots: Set[str]) -> bool:
    """An element of the key that distinguishes two different callables with equal names."""
    if isinstance(t, ast.Name):
        return t.id in env_roots
    if isinstance(t, ast.Call) and show(t.func) == "id" and t.args:
        return False  # see below: the memo outlives the callable, an address is reused after collection
    if isinstance(t, ast.Attribute):
        if t.attr in IDENTITY_ATTRS:
            return True
        return False
    return False


def rule_cachekey(ctx: Ctx, rule: str = "C07.cachekey"):
    rep = ctx.rep
    sc = ctx.fn("signature_cache")
    cached = next((f for f in sc.module.all_functions if f.parent is sc and f.name != "<lambda>"), None)
    if cached is None:
        raise AnalysisError("anchor lost: signature_cache's inner function")
    keysrc = None
    for p in ctx.paths(cached, inline=None, exc_edges="none"):
        for e in p.of("bind"):
            if e.x["name"] == "key":
                keysrc = xshow(e.term, p.events)
    rep.check(keysrc is not None and keysrc.startswith("_make_key("), rule, cached.loc(),
              "the memo key is computed from the callable being adapted", cached.key, f"key = {keysrc}")
    mk = ctx.p.find_fn("_make_key")
    if mk is None:
        if keysrc and keysrc.startswith("id("):
            rep.ok(rule, cached.loc(), "memo keyed by id() of the callable")
            return
        raise AnalysisError("anchor lost: _make_key")
    param = mk.params[0]
    n = 0
    for p in ctx.paths(mk, inline=None, exc_edges="none"):
        if p.kind != "return":
            continue
        n += 1
        v = expand(p.value, p.events)
        is_partial = any(b.x["taken"] is True and xshow(b.term, p.events).replace(" ", "") in (f"isinstance({param},partial)", f"isinstance({param},functools.partial)")
                         for b in p.of("branch"))
        if is_partial:
            # a partial's signature depends on its function *and* on what it already binds
            txt = show(v)
            rec = f"_make_key({param}.func)" in txt
            rep.check((rec or f"{param}.func" in txt) and f"{param}.args" in txt and f"{param}.keywords" in txt, rule, mk.loc(),
                      "the memo key of a functools.partial identifies its function and what it binds (number of positional arguments, names of "
                      "keyword arguments): two partials of one function with different bindings have different signatures", mk.key,
                      f"return {txt}")
            if rec:
                continue
        elems: List[ast.AST] = []
        inner = v
        if isinstance(inner, ast.Call) and show(inner.func) == "hash" and inner.args:
            inner = inner.args[0]
        if isinstance(inner, ast.Tuple):
            elems = list(inner.elts)
        else:
            elems = [inner]
        roots = {param}
        by_id = [e for e in elems for c_ in ast.walk(e) if isinstance(c_, ast.Call) and show(c_.func) == "id"]
        if by_id:
            rep.violation(rule, mk.loc(), "a component of the memo key is the id() of an object the memo does not keep alive: once the callable "
                          "is collected its address is handed to the next code object / function, which then finds the stale signature", mk.key,
                          f"return {show(v)}", components=[show(e) for e in by_id])
            continue
        ok = any(_identity_bearing(e, param, roots) or
                 (isinstance(e, ast.Attribute) and any(isinstance(x, ast.Attribute) and x.attr in IDENTITY_ATTRS and x is e for x in [e]))
                 for e in elems)
        rep.check(ok, rule, mk.loc(), "the memo key contains an identity-bearing component of the callable (the object, id(), "
                  "__func__ or __code__), not only name-valued attributes", mk.key, f"return {show(v)}",
                  components=[show(e) for e in elems])
        # the signature is taken from the *unwrapped* callable (inspect follows __wrapped__): a key built from the outer
        # object's code alone is shared by everything one decorator wrapped
        def through_wrapper(e):
            if isinstance(e, ast.Name) and e.id in roots:
                return True  # the object itself
            if isinstance(e, ast.Call) and show(e.func) == "id":
                return True
            txt = show(e)
            return ("unwrap(" in txt and "__code__" in txt) or "__wrapped__" in txt

        if ok:
            rep.check(any(through_wrapper(e) for e in elems), rule, mk.loc(),
                      "the memo key identifies the function the signature is read from (the unwrapped callable), so two callables "
                      "wrapped by one functools.wraps decorator do not share a signature", mk.key, f"return {show(v)}",
                      components=[show(e) for e in elems])
    rep.floor(rule, "return paths of _make_key", n, 2)
    # a bound method and the plain function it wraps have different signatures (the receiver is gone): whether the callable is
    # bound is asked of the callable itself - `unwrap()` of a bound method is the innermost *plain* function
    n_b = 0
    for p in ctx.paths(mk, inline=None, exc_edges="none"):
        for b in p.of("branch"):
            t = expand(b.term, p.events)
            if isinstance(t, ast.Call) and show(t.func) == "isinstance" and len(t.args) == 2 and "MethodType" in show(t.args[1]):
                n_b += 1
                rep.check("unwrap(" not in show(t.args[0]) and "__wrapped__" not in show(t.args[0]), rule, b.loc(),
                          "bound methods are told apart from plain functions on the callable itself, not on what it wraps", mk.key,
                          f"isinstance({show(t.args[0])}, MethodType)")
    rep.floor(rule, "bound-method tests in _make_key", n_b, 1)
    # what the cached function reads from the callable decides the result: an explicit `__signature__` is a per-object attribute
    # (closures of one factory share name and code and may each declare their own), so either the key covers it or such
    # callables are not served from the memo at all
    fc = ctx.p.find_fn("SignatureAdapter.from_callable")
    reads_sig = fc is not None and any((isinstance(x, ast.Attribute) and x.attr == "__signature__") or
                                       (isinstance(x, ast.Constant) and x.value == "__signature__") for x in own_nodes(fc.node))
    if reads_sig:
        in_key = any((isinstance(x, ast.Attribute) and x.attr == "__signature__") or (isinstance(x, ast.Constant) and x.value == "__signature__")
                     for x in own_nodes(mk.node))
        bypass = False
        for p in ctx.paths(cached, inline=None, exc_edges="none"):
            if p.kind != "return":
                continue
            tests = [b for b in p.of("branch") if "__signature__" in xshow(b.term, p.events) and b.x["taken"] is True]
            if not tests:
                continue
            memo_read = any(show(c_.term.func) in ("cache_get", "cache.get") or ".get" in show(c_.term.func) for c_ in p.calls() if c_.idx > tests[0].idx)
            direct = [c_ for c_ in p.calls() if c_.idx > tests[0].idx and show(c_.term.func) == sc.params[0]]
            if direct and not memo_read and show(p.value) == f"$c{direct[-1].idx}":
                bypass = True
        rep.check(in_key or bypass, rule, cached.loc(), "a callable that declares its own `__signature__` is adapted from that signature: the memo key "
                  "covers it, or such callables bypass the memo (two closures of one factory share name and code, not `__signature__`)", cached.key,
                  "explicit __signature__ not covered by the memo key")


def _resolution_pipeline(ctx):
    """The functions that turn a provider's attribute into the callable the engine runs (dispatcher + signature adapter)."""
    return [f for f in ctx.p.all_functions() if f.module.rel in ("statemachine/dispatcher.py", "statemachine/signature.py") and f.parent is None]


def rule_built_per_callable(ctx: Ctx):
    """C07.adapter: the adapter that binds a callback's arguments is built for *that* callable: nothing in front of the
    builders answers with an adapter made for another callable (a memo keyed by name/code object/==)."""
    from ..wrappers import check_fresh

    check_fresh(ctx, "C07.adapter", _resolution_pipeline(ctx), "the binding depends only on the callback's own signature")


def _kwargs_chain(ctx: Ctx):
    """The functions the event's keyword arguments are spread into (`f(*args, **kwargs)`) on their way from the engine to the
    callback: the registry / executor / wrapper entry points, and everything they in turn spread their own `**kwargs` into."""
    seeds = []
    for cname, names in (("CallbacksRegistry", ("call", "all", "async_call", "async_all")),
                         ("CallbacksExecutor", ("call", "all", "async_call", "async_all")),
                         ("CallbackWrapper", ("__call__", "call")), ("SignatureAdapter", ("bind_expected",))):
        c = ctx.p.classes.get(cname)
        if c is None:
            raise AnalysisError(f"anchor lost: class {cname}")
        for nm in names:
            m = ctx.p.lookup_method(c, nm)
            if m is not None:
                seeds.append(m)
    chain, todo = [], list(seeds)
    while todo:
        f = todo.pop()
        if f in chain or isinstance(f.node, ast.Lambda):
            continue
        chain.append(f)
        kw = f.node.args.kwarg.arg if f.node.args.kwarg else None
        if kw is None:
            continue
        for n in ast.walk(f.node):
            if isinstance(n, ast.Call) and any(k.arg is None and isinstance(k.value, ast.Name) and k.value.id == kw for k in n.keywords):
                try:
                    r = ctx.r.resolve_in(n, f)
                except Exception:
                    continue
                if r.how == "typed":
                    todo.extend(t for t in r.targets if t.module.rel.startswith("statemachine/"))
    return chain


def rule_passthrough(ctx: Ctx, rule: str = "C07.layer"):
    """Between the engine and the callback the event's keyword arguments travel as `**kwargs`: a function on that way that
    declares a named parameter of its own takes the user's keyword argument of that name for itself (or raises
    `TypeError: multiple values`) - only the reserved built-in names may be named there."""
    rep = ctx.rep
    chain = _kwargs_chain(ctx)
    n = 0
    for f in sorted(chain, key=lambda x: x.key):
        a = f.node.args
        if a.kwarg is None:
            continue
        n += 1
        is_method = f.cls is not None and f.parent is None and "staticmethod" not in f.decorators
        # (positional-only parameters cannot take a keyword argument)
        named = ([x.arg for x in a.args][1:] if is_method and not a.posonlyargs else [x.arg for x in a.args]) + [x.arg for x in a.kwonlyargs]
        own = [x for x in named if x not in DOCUMENTED_BUILTINS]
        rep.check(not own, rule, f.loc(), f"{f.qualname} forwards the event's keyword arguments and names none of its own "
                  "(a user keyword argument of the same name would be swallowed or collide)", f.key,
                  f"def {f.name}({', '.join(named + ['*' + a.vararg.arg] * bool(a.vararg) + ['**' + a.kwarg.arg])})", own_parameters=own)
    rep.floor(rule, "functions the event's **kwargs are spread into", n, 9)
    # the entry points take the user's keyword arguments next to their own receiver (and, for send, the event name)
    for key in ("Event.__call__", "StateMachine.send"):
        f = ctx.fn(key)
        a = f.node.args
        if a.kwarg is None:
            continue
        named = [x.arg for x in a.args] + [x.arg for x in a.kwonlyargs]
        own = [x for x in named if x not in DOCUMENTED_BUILTINS]
        rep.check(not own, rule, f.loc(), f"{f.qualname} takes the user's keyword arguments and no keyword-capable parameter of its own",
                  f.key, f"keyword-capable parameters next to **{a.kwarg.arg}: {', '.join(own)}", own_parameters=own)


def rule_builtins_describe_this_event(ctx: Ctx):
    """C07.reserved: `state`, `machine` & co. describe the event being processed: `state` switches from source to target at the
    state write and is not re-read from the live machine afterwards; `machine` is the machine itself also for triggers bound onto
    another object (not a weak proxy, not a copy)."""
    from . import c02, c13

    c02.rule_view(ctx, rule="C07.reserved")
    c02.rule_order(ctx, order="C07.reserved", view="C07.reserved", internal="C07.reserved")
    c13.rule_bind(ctx, rule="C07.reserved")


RULES = [rule_reserved, rule_layer, rule_adapter, rule_consume, rule_raise, rule_cachekey, rule_built_per_callable, rule_passthrough, rule_builtins_describe_this_event]
