"""C17 - deepcopy / pickle clones are equivalent and independent."""

from __future__ import annotations

import ast
from typing import Dict, List

from ..context import Ctx
from ..kernel import expand1, expand, placeholder_closure, xshow
from ..loader import AnalysisError, norm_stmt
from ..paths import N, show
from ..resolve import own_nodes
from . import c12

EXPLANATION = (
    "Sibling agreement between the constructor and the restore path, decided on __init__ / __getstate__ / __setstate__: "
    "(carry) every attribute the constructor assigns either stays in the serialised dict and is not overwritten on restore, "
    "or is removed and rebuilt on restore by the same expression as in the constructor (the rtc option round-trips through a "
    "saved key); (excluded) exactly the derived per-instance objects are left out of the state; (steps) the restore performs "
    "the constructor's steps in the constructor's order - fresh containers, register callbacks, attach listeners, recompute "
    "the coroutine flag, choose the engine, start it - and callbacks are validated only once every provider is attached. "
    "Deep independence of user models/listeners is Python's copy protocol and not decided."
    " Added after seeded batch 9: no process-wide mutable is written on the restore path (a memo there is a channel between the original and its clones)."
)
EXPLANATION += (
    " " + '(attach) the machine records in which pass each listener was attached (constructor pass vs. each later add_listener) and the restore replays those passes in order: equal-priority callbacks run in attachment order, so one kind of pass for all saved listeners reproduces only one of the two histories.'
)
ASSUMPTIONS = ["copy/pickle call __getstate__/__setstate__ as documented"]
TRUSTED = ["/verif/sa path enumerator"]

DERIVED = {"_callbacks", "_states_for_instance", "_engine"}


def _init_attrs(ctx: Ctx):
    fn = ctx.fn("StateMachine.__init__")
    attrs: Dict[str, str] = {}
    for p in ctx.paths(fn, inline=None, exc_edges="none"):
        if p.kind == "raise":
            continue
        for e in p.of("store"):
            if show(e.term.value) == "self":
                attrs[e.x["attr"]] = xshow(e.x["value"], p.events)
    return fn, attrs


def rule_carry(ctx: Ctx):
    rep = ctx.rep
    init, attrs = _init_attrs(ctx)
    rep.floor("C17.carry", "attributes assigned by the constructor", len(attrs), 6)
    gs = ctx.fn("StateMachine.__getstate__")
    ss = ctx.fn("StateMachine.__setstate__")
    deleted, added = set(), {}
    copied = False
    for p in ctx.paths(gs, inline=None, exc_edges="none"):
        evs = p.events
        if p.kind != "return":
            continue
        st = show(p.value)
        copied = xshow(p.value, evs) in ("self.__dict__.copy()", "dict(self.__dict__)")
        for e in evs:
            if e.kind == "delete" and isinstance(e.term, ast.Subscript) and show(e.term.value) == st and isinstance(e.term.slice, ast.Constant):
                deleted.add(e.term.slice.value)
            if e.kind == "call" and isinstance(e.term.func, ast.Attribute) and e.term.func.attr == "pop" and show(e.term.func.value) == st \
                    and e.term.args and isinstance(e.term.args[0], ast.Constant):
                deleted.add(e.term.args[0].value)
            if e.kind == "store" and e.x.get("subscript") and show(e.term.value) == st and isinstance(e.term.slice, ast.Constant):
                added[e.term.slice.value] = xshow(e.x["value"], evs)
    rep.check(copied, "C17.carry", gs.loc(), "the serialised state starts as a copy of the instance dict (custom attributes survive)", gs.key,
              "state is not self.__dict__.copy()")
    restored: Dict[str, str] = {}
    popped: Dict[str, str] = {}
    updated = False
    param = ss.params[1]
    for p in ctx.paths(ss, inline=None, exc_edges="none"):
        evs = p.events
        if p.kind == "raise":
            continue
        for e in evs:
            if e.kind == "call" and show(e.term.func) == f"{param}.pop" and e.term.args and isinstance(e.term.args[0], ast.Constant):
                popped[e.term.args[0].value] = f"$c{e.idx}"
            if e.kind == "call" and show(e.term.func) == "self.__dict__.update" and e.term.args and show(e.term.args[0]) == param:
                updated = True
            if e.kind == "store" and show(e.term.value) == "self":
                restored[e.x["attr"]] = xshow(e.x["value"], evs)
        break
    rep.check(updated, "C17.carry", ss.loc(), "the restore puts the serialised attributes back on the instance", ss.key, "no self.__dict__.update(state)")
    for a, expr in sorted(attrs.items()):
        if a in deleted or a in popped:
            # must be rebuilt the same way
            if a == "_engine":
                ok = restored.get(a, "").startswith("self._get_engine(") and expr.startswith("self._get_engine(")
                rep.check(ok, "C17.carry", ss.loc(), "the engine is rebuilt by _get_engine, as in the constructor", ss.key, f"self._engine = {restored.get(a)}")
            elif a == "_listeners":
                ok = restored.get(a) == expr
                rep.check(ok, "C17.carry", ss.loc(), "the listener table is rebuilt empty and refilled from the saved listeners", ss.key,
                          f"self._listeners = {restored.get(a)}")
            else:
                rep.check(restored.get(a) == expr, "C17.carry", ss.loc(), f"`{a}` is rebuilt on restore exactly as the constructor builds it", ss.key,
                          f"self.{a} = {restored.get(a)}  (constructor: {expr})")
        else:
            rep.check(a not in restored, "C17.carry", ss.loc(), f"`{a}` travels in the serialised state and is not reset on restore", ss.key,
                      f"self.{a} = {restored.get(a)}")
    # the rtc option round-trips
    rtc_key = next((k for k, v in added.items() if v.endswith("._rtc")), None)
    rep.check(rtc_key is not None and added[rtc_key] == "self._engine._rtc", "C17.carry", gs.loc(), "the processing mode of the live engine is saved", gs.key,
              f"added keys: {added}")
    if rtc_key is not None:
        ph = popped.get(rtc_key)
        eng = None
        for p in ctx.paths(ss, inline=None, exc_edges="none"):
            for e in p.calls():
                if show(e.term.func) == "self._get_engine":
                    eng = show(e.term.args[0]) if e.term.args else show(next((k.value for k in e.term.keywords if k.arg == "rtc"), None))
            break
        rep.check(ph is not None and eng == ph, "C17.carry", ss.loc(), "the saved processing mode is what the rebuilt engine gets", ss.key,
                  f"_get_engine({eng}) with saved value {ph}")
    # listeners: saved keys are re-attached
    from ..shapes import derives_from

    lkey = popped.get("_listeners")
    reattached = False
    for p in ctx.paths(ss, inline=None, exc_edges="none", unroll=1):
        pop = next((e for e in p.calls() if show(e.term.func) == f"{param}.pop" and e.term.args and isinstance(e.term.args[0], ast.Constant)
                    and e.term.args[0].value == "_listeners"), None)
        for e in p.calls():
            if show(e.term.func) in ("self.add_listener", "self._register_callbacks") and lkey and pop is not None and \
                    (f"$c{pop.idx}" in placeholder_closure(e.term, p.events) or
                     any(derives_from(p, a_, xshow(N(f"$c{pop.idx}"), p.events)) for a_ in e.term.args)):
                reattached = True
    rep.check(reattached, "C17.carry", ss.loc(), "the saved listeners are attached to the clone", ss.key, "saved `_listeners` not re-attached")


def rule_excluded(ctx: Ctx):
    rep = ctx.rep
    gs = ctx.fn("StateMachine.__getstate__")
    deleted = set()
    for p in ctx.paths(gs, inline=None, exc_edges="none"):
        for e in p.events:
            if e.kind == "delete" and isinstance(e.term, ast.Subscript) and isinstance(e.term.slice, ast.Constant):
                deleted.add(e.term.slice.value)
            if e.kind == "call" and isinstance(e.term.func, ast.Attribute) and e.term.func.attr == "pop" and e.term.args and isinstance(e.term.args[0], ast.Constant):
                deleted.add(e.term.args[0].value)
    rep.check(deleted == DERIVED, "C17.excluded", gs.loc(), "exactly the derived per-instance objects (registry, instance-state cache, engine) are left out",
              gs.key, f"removed from the state: {sorted(deleted)}", missing=sorted(DERIVED - deleted), extra=sorted(deleted - DERIVED))


def _steps(ctx: Ctx, fn) -> List[str]:
    out = []
    for p in ctx.paths(fn, inline=None, exc_edges="none"):
        if p.kind == "raise":
            continue
        for e in p.events:
            if e.kind == "call":
                f = show(e.term.func)
                if f == "self._register_callbacks":
                    out.append("register")
                elif f == "self.add_listener":
                    out.append("listeners")
                elif f == "self._get_engine":
                    out.append("engine")
                elif f.endswith(".start") and xshow(e.term.func.value, p.events).startswith("self._engine"):
                    out.append("start")
                elif f.endswith(".async_or_sync"):
                    out.append("flag")
        break
    return out


def _restore_start(ctx: Ctx, rule: str, ss) -> None:
    rep = ctx.rep
    param = ss.params[1]
    n_start = n_skip = 0
    # meaning of each saved flag: True = "the flag is truthy when the original WAS activated"
    meaning = {}
    gs0 = ctx.fn("StateMachine.__getstate__")
    for p in ctx.paths(gs0, inline=None, exc_edges="none"):
        for e in p.of("store"):
            if e.x.get("subscript") and isinstance(e.term.slice, ast.Constant):
                v = expand(e.x["value"], p.events)
                if isinstance(v, ast.Compare) and len(v.ops) == 1 and isinstance(v.ops[0], (ast.Is, ast.IsNot)) and show(v.left) == "self.current_state_value":
                    meaning[e.term.slice.value] = isinstance(v.ops[0], ast.IsNot)
    for p in ctx.paths(ss, inline=None, exc_edges="none", unroll=1):
        if p.kind == "raise":
            continue
        evs = p.events
        starts = [e for e in p.calls() if show(e.term.func).endswith(".start") and xshow(e.term.func.value, evs).startswith("self._engine")]
        # facts about values popped / read from the saved state
        saved = {}
        for b in p.of("branch"):
            t, pol = b.term, b.x["taken"]
            while isinstance(t, ast.UnaryOp) and isinstance(t.op, ast.Not):
                t, pol = t.operand, not pol
            x = expand1(t, evs)
            if isinstance(x, ast.Call) and show(x.func) in (f"{param}.pop", f"{param}.get") and x.args and isinstance(x.args[0], ast.Constant):
                saved[x.args[0].value] = (pol, b, x)
            elif isinstance(x, ast.Subscript) and show(x.value) == param and isinstance(x.slice, ast.Constant):
                saved[x.slice.value] = (pol, b, x)
        gates = [(k_, v) for k_, v in saved.items() if not starts or v[1].idx < starts[0].idx]
        if starts:
            n_start += 1
            rep.check(bool(gates), rule, starts[0].loc(),
                      "restore starts the engine only on what the saved state says about the original's activation (not unconditionally: "
                      "start() looks at the model, which may still be empty while a copy is being rebuilt)", ss.key, norm_stmt(starts[0].node))
            for k_, (pol, b, x) in gates:
                if k_ in meaning:
                    rep.check(pol is not meaning[k_], rule, starts[0].loc(), "start() runs on restore when the original was NOT activated", ss.key,
                              f"start() on the path where state[{k_!r}] is {pol}")
        else:
            n_skip += 1
            rep.check(bool(saved), rule, ss.loc(), "restore skips start() only when the saved state says the original was activated", ss.key,
                      "a restore path without start() and without a test of the saved state")
            for k_, (pol, b, x) in saved.items():
                if k_ in meaning:
                    rep.check(pol is meaning[k_], rule, ss.loc(), "start() is skipped on restore only when the original WAS activated", ss.key,
                              f"no start() on the path where state[{k_!r}] is {pol}")
    rep.check(n_start > 0, rule, ss.loc(), "a clone of a not-yet-activated machine still gets its initial activation (start() on restore)", ss.key,
              "no restore path calls start()")
    # what the flag records: computed by __getstate__ from the stored state value with a None-test
    gs = ctx.fn("StateMachine.__getstate__")
    flags = {}
    for p in ctx.paths(gs, inline=None, exc_edges="none"):
        for e in p.of("store"):
            if e.x.get("subscript") and isinstance(e.term.slice, ast.Constant):
                flags[e.term.slice.value] = expand(e.x["value"], p.events)
    act = [(k_, v) for k_, v in flags.items() if "current_state_value" in show(v)]
    rep.check(bool(act), rule, gs.loc(), "__getstate__ records whether the original was activated (decided on the complete original)", gs.key,
              f"saved keys: {sorted(flags)}")
    for k_, v in act:
        ok = isinstance(v, ast.Compare) and len(v.ops) == 1 and isinstance(v.ops[0], (ast.Is, ast.IsNot)) and \
            isinstance(v.comparators[0], ast.Constant) and v.comparators[0].value is None and show(v.left) == "self.current_state_value"
        rep.check(ok, rule, gs.loc(), "activation is decided with a None-test of the stored state value (0 and '' are states)", gs.key,
                  f"state[{k_!r}] = {show(v)}")


def rule_steps(ctx: Ctx, rule: str = "C17.steps"):
    rep = ctx.rep
    init = ctx.fn("StateMachine.__init__")
    ss = ctx.fn("StateMachine.__setstate__")
    a = _steps(ctx, init)
    b = _steps(ctx, ss)
    core_a = [x for x in a if x in ("register", "engine", "start")]
    core_b = [x for x in b if x in ("register", "engine", "start")]
    rep.check(core_a == ["register", "engine", "start"], rule, init.loc(), "constructor: register callbacks, choose engine, start", init.key, f"steps: {a}")
    # the restore registers and chooses the engine like the constructor; start() runs exactly when the *saved* state says
    # the original had not been activated (the model of a copy under construction may still be empty, so the restore must
    # not decide this by looking at the model)
    rep.check([x for x in core_b if x != "start"] == ["register", "engine"], rule, ss.loc(),
              "restore registers the callbacks and chooses the engine in the constructor's order", ss.key,
              f"restore steps: {b} vs constructor steps: {a}")
    _restore_start(ctx, rule, ss)
    if "listeners" in b and "engine" in b:
        rep.check(b.index("listeners") < b.index("engine"), rule, ss.loc(), "listeners are attached before the engine is chosen", ss.key, f"restore steps: {b}")
    c12.rule_engine(ctx, rule=rule, only={"__setstate__"})
    # validation must see every provider: constructor passes the listeners to _register_callbacks
    reg_arg = None
    for p in ctx.paths(ss, inline=None, exc_edges="none"):
        for e in p.calls():
            if show(e.term.func) == "self._register_callbacks":
                reg_arg = xshow(e.term.args[0], p.events) if e.term.args else None
        break
    late = "listeners" in b and "register" in b and b.index("register") < b.index("listeners")
    if late:
        rep.check(reg_arg not in ("[]", "()", None), rule, ss.loc(),
                  "callbacks are validated on restore only once every provider (incl. the saved listeners) is attached", ss.key,
                  f"self._register_callbacks({reg_arg}) validates before add_listener re-attaches the listeners")


def rule_attach(ctx: Ctx):
    """C17.attach: the clone re-attaches providers in the passes the original used.

    Callbacks of one group with equal priority run in attachment order.  The constructor attaches machine, model and the
    constructor-time listeners in ONE pass (spec by spec: every provider of a spec before the next spec); `add_listener`
    attaches late listeners in a LATER pass of their own.  A restore that uses one kind of pass for all saved listeners
    reproduces the order of only one of the two histories."""
    rep = ctx.rep
    init = ctx.fn("StateMachine.__init__")
    ss = ctx.fn("StateMachine.__setstate__")
    al = ctx.fn("StateMachine.add_listener")

    def passes(fn):
        joint, separate = {}, {}
        for p in ctx.paths(fn, inline=None, exc_edges="none", comps_for_loops=True, unroll=1):
            if p.kind == "raise":
                continue
            for e in p.calls():
                f = show(e.term.func)
                if f == "self._register_callbacks":
                    arg = xshow(e.term.args[0], p.events) if e.term.args else "[]"
                    raw = e.term.args[0] if e.term.args else None
                    filled = isinstance(raw, ast.Name) and raw.id.startswith("$l") and any(
                        c_.kind == "call" and isinstance(c_.term.func, ast.Attribute) and c_.term.func.attr in ("append", "extend", "insert")
                        and show(c_.term.func.value) == raw.id for c_ in p.events[: e.idx])
                    if arg not in ("[]", "()", "list()", "tuple()") or filled:
                        joint.setdefault(id(e.node), (e, arg, expand1(e.term.args[0], p.events)))
                elif f in ("self.add_listener", "self._add_listener"):
                    separate.setdefault(id(e.node), (e, ", ".join(xshow(a_, p.events) for a_ in e.term.args),
                                                     expand1(e.term.args[0], p.events) if e.term.args else None))
        return list(joint.values()), list(separate.values())

    ij, isep = passes(init)
    rep.check(bool(ij) and not isep, "C17.attach", init.loc(), "the constructor attaches its listeners in the same pass as machine and model", init.key,
              f"joint: {[x[1] for x in ij]} separate: {[x[1] for x in isep]}")
    late_api = any(show(e.term.func) == "self._add_listener" for p in ctx.paths(al, inline=None, exc_edges="none") for e in p.calls())
    rep.check(late_api, "C17.attach", al.loc(), "add_listener attaches late listeners in a pass of their own", al.key, "no self._add_listener call")
    sj, ssep = passes(ss)
    if not sj and not ssep:
        rep.violation("C17.attach", ss.loc(), "restore does not re-attach the saved listeners", ss.key, "no _register_callbacks(listeners) / add_listener call")
        return
    if sj and ssep:
        # both kinds of pass: they must select by what the attach sites recorded (a filter on the saved record)
        def filt(t):
            if isinstance(t, ast.Starred):
                t = t.value
            if isinstance(t, (ast.ListComp, ast.GeneratorExp, ast.SetComp)) and t.generators[0].ifs and ".items()" in show(t.generators[0].iter):
                return " and ".join(show(c) for c in t.generators[0].ifs)
            return None

        for p in ctx.paths(ss, inline=None, exc_edges="none", comps_for_loops=True):
            reg = [e.idx for e in p.calls() if show(e.term.func) == "self._register_callbacks"]
            late_ = [e.idx for e in p.calls() if show(e.term.func) in ("self.add_listener", "self._add_listener")]
            if reg and late_ and min(late_) < max(reg):
                rep.violation("C17.attach", ss.loc(), "restore replays a late pass before the constructor pass", ss.key,
                              "add_listener precedes _register_callbacks")
                break
        fj, fs = filt(sj[0][2]), filt(ssep[0][2])
        if fj is not None and fs is not None:
            rep.check(fj != fs, "C17.attach", ss.loc(),
                      "constructor-time and late listeners are restored by their own kind of pass, selected by the recorded attachment pass",
                      ss.key, f"joint pass over [{sj[0][1]}], separate pass over [{ssep[0][1]}]")
        else:
            # not written as two filters (e.g. one grouping loop): what must still hold is that both kinds of pass take their
            # listeners from the saved record and that the recorded marks are consulted to tell them apart
            saved = None
            consulted = False
            from_record = {"joint": False, "separate": False}
            for p in ctx.paths(ss, inline=None, exc_edges="none", unroll=1):
                evs = p.events
                pop = next((e for e in p.calls() if show(e.term.func) == f"{ss.params[1]}.pop" and e.term.args
                            and isinstance(e.term.args[0], ast.Constant) and e.term.args[0].value == "_listeners"), None)
                if pop is None:
                    continue
                saved = xshow(N(f"$c{pop.idx}"), evs)

                from ..shapes import derives_from

                def derived(t, evs=evs, p=p):
                    return derives_from(p, t, saved)

                for e in p.calls():
                    f = show(e.term.func)
                    if f == "self._register_callbacks" and e.term.args and derived(e.term.args[0]):
                        from_record["joint"] = True
                    if f in ("self.add_listener", "self._add_listener") and e.term.args and derived(e.term.args[0]):
                        from_record["separate"] = True
                for b in p.of("branch"):
                    if b.term is not None and saved in xshow(b.term, evs):
                        consulted = True
                for c_ in p.of("comp"):
                    if saved in xshow(c_.term, evs) and c_.term.generators[0].ifs:
                        consulted = True
            rep.check(all(from_record.values()) and consulted, "C17.attach", ss.loc(),
                      "constructor-time and late listeners are restored by their own kind of pass, selected by the recorded attachment pass",
                      ss.key, f"from the saved record: {from_record}; recorded marks consulted: {consulted}")
        # the attach sites must record different marks for the two kinds
        marks = {}
        for fn_ in (ctx.fn("StateMachine._register_callbacks"), al):
            for p in ctx.paths(fn_, inline=None, exc_edges="none", unroll=1):
                for e in p.calls():
                    f = e.term.func
                    if isinstance(f, ast.Attribute) and show(f.value) == "self._listeners" and f.attr in ("update", "setdefault"):
                        a0 = expand1(e.term.args[-1], p.events) if e.term.args else None
                        v = a0.value if isinstance(a0, ast.DictComp) else a0
                        if isinstance(a0, ast.Call) and show(a0.func) == "dict.fromkeys":
                            v = a0.args[1] if len(a0.args) > 1 else ast.Constant(value=None)
                        marks.setdefault(fn_.name, set()).add(xshow(v, p.events) if v is not None else "?")
                for e in p.of("store"):
                    if e.x.get("subscript") and show(e.term.value) == "self._listeners":
                        marks.setdefault(fn_.name, set()).add(xshow(e.x["value"], p.events))
        a_, b_ = marks.get("_register_callbacks", set()), marks.get("add_listener", set())
        rep.check(bool(a_) and bool(b_) and not (a_ & b_), "C17.attach", al.loc(), "constructor-time and late listeners are recorded with different marks",
                  al.key, f"constructor pass records {sorted(a_)}, add_listener records {sorted(b_)}")
        return
    if ssep:
        e, arg = ssep[0][:2]
        rep.violation("C17.attach", e.loc(), "restore re-attaches every saved listener in a later pass of its own: a clone of a machine built with "
                      "`listeners=[...]` runs equal-priority callbacks in another order than the original (machine's first, then the listener's, "
                      "instead of spec by spec)", ss.key, norm_stmt(e.node))
    else:
        e, arg = sj[0][:2]
        rep.violation("C17.attach", e.loc(), "restore re-attaches every saved listener in the same pass as machine and model: a clone of a machine whose "
                      "listener was attached later with add_listener() runs equal-priority callbacks in another order than the original", ss.key,
                      norm_stmt(e.node))


def rule_first_attachment(ctx: Ctx, rule: str = "C17.attach"):
    """C17.attach: the recorded pass of a listener is the pass of its FIRST attachment.  Attaching a listener again is a
    no-op on the live machine (its callbacks are de-duplicated by key), so the record must not move either - otherwise the
    clone replays it in a later pass and runs equal-priority callbacks in another order."""
    rep = ctx.rep
    al = ctx.fn("StateMachine.add_listener")
    n = 0
    for p in ctx.paths(al, inline=None, exc_edges="none", unroll=1):
        evs = p.events
        for e in p.calls():
            f = e.term.func
            if isinstance(f, ast.Attribute) and xshow(f.value, evs) == "self._listeners" and f.attr in ("update", "__setitem__"):
                n += 1
                rep.violation(rule, e.loc(), "add_listener overwrites the recorded attachment pass of a listener that is already attached "
                              "(the clone then replays it in a later pass than the original attached it in)", al.key, norm_stmt(e.node))
            elif isinstance(f, ast.Attribute) and xshow(f.value, evs) == "self._listeners" and f.attr == "setdefault":
                n += 1
                rep.ok(rule, e.loc(), "add_listener records a pass only for listeners not yet recorded (setdefault)")
        for e in p.of("store"):
            if e.x.get("subscript") and xshow(e.term.value, evs) == "self._listeners":
                n += 1
                key = xshow(e.term.slice, evs)
                guarded = any(b.kind == "branch" and b.idx < e.idx and isinstance(b.term, ast.Compare) and isinstance(b.term.ops[0], (ast.In, ast.NotIn))
                              and xshow(b.term.left, evs) == key and xshow(b.term.comparators[0], evs) == "self._listeners"
                              and (b.x["taken"] is isinstance(b.term.ops[0], ast.NotIn)) for b in evs)
                rep.check(guarded, rule, e.loc(), "add_listener records a pass only for listeners not yet recorded", al.key, norm_stmt(e.node))
    rep.floor(rule, "writes of the listener record in add_listener", n, 1)


def rule_no_snapshot(ctx: Ctx):
    """C17.carry: an engine keeps no copy of a machine option.  The original's engine is built in the constructor, the
    clone's in __setstate__: a value copied from the machine at engine construction is taken at two different times, so
    changing the option between them makes original and clone disagree.  Options are read through `self.sm` when needed."""
    rep, k = ctx.rep, ctx.k
    n = 0
    for cls_ in [k.base] + list(k.engines):
        init = cls_.method("__init__")
        if init is None:
            continue
        smp = init.params[1] if len(init.params) > 1 else "sm"
        for p in ctx.paths(init, inline=None, exc_edges="none"):
            for e in p.of("store"):
                if show(e.term.value) != "self":
                    continue
                n += 1
                v = expand(e.x["value"], p.events)
                snap = [a for a in ast.walk(v) if isinstance(a, ast.Attribute) and isinstance(a.value, ast.Name) and a.value.id == smp]
                rep.check(not snap, "C17.carry", e.loc(), f"{cls_.name}: no machine attribute is copied into the engine at construction", init.key,
                          norm_stmt(e.node), copied=[show(a) for a in snap])
            break
    rep.floor("C17.carry", "attributes set by engine constructors", n, 4)


def rule_restart_guard(ctx: Ctx):
    """C17.steps: `start()` on the restored machine must leave a stored state alone whatever its value (None-test)."""
    from . import c11

    c11.rule_guard(ctx, rule="C17.steps")


def rule_bound_triggers(ctx: Ctx):
    """C17.carry: triggers bound onto the model are BoundEvents holding the machine itself: copy/pickle remap them to the
    clone's machine (a weak proxy or a closure would be rebuilt as a phantom machine, or keep pointing at the original)."""
    from . import c13

    c13.rule_bind(ctx, rule="C17.carry")



def rule_listener_identity(ctx: Ctx):
    """C17.carry: the record of attached listeners must tell listeners apart by identity.  The live registry does (callback
    keys carry id(listener)), so two distinct listeners that compare equal (frozen dataclasses, named tuples) are both
    served by the original; a record keyed by the listener itself (== / hash) keeps one of them and the clone serves one."""
    rep = ctx.rep
    init = ctx.fn("StateMachine.__init__")
    rec = None
    for p in ctx.paths(init, inline=None, exc_edges="none"):
        for e in p.of("store"):
            if e.x.get("attr") == "_listeners":
                rec = xshow(e.x["value"], p.events)
        break
    keyed_by_object = []
    for fn in (ctx.fn("StateMachine._register_callbacks"), ctx.fn("StateMachine.add_listener")):
        for p in ctx.paths(fn, inline=None, exc_edges="none", unroll=1):
            evs = p.events
            for e in p.calls():
                f = e.term.func
                if isinstance(f, ast.Attribute) and xshow(f.value, evs) == "self._listeners" and f.attr in ("update", "setdefault") and e.term.args:
                    a0 = expand1(e.term.args[0], evs)
                    txt = xshow(e.term.args[0], evs)
                    by_id = "id(" in txt
                    if not by_id and id(e.node) not in {id(x.node) for x in keyed_by_object}:
                        keyed_by_object.append(e)
            for e in p.of("store"):
                if e.x.get("subscript") and xshow(e.term.value, evs) == "self._listeners" and "id(" not in xshow(e.term.slice, evs):
                    if id(e.node) not in {id(x.node) for x in keyed_by_object}:
                        keyed_by_object.append(e)
    mapping = rec in ("{}", "dict()")
    if mapping and keyed_by_object:
        e = keyed_by_object[0]
        rep.violation("C17.carry", e.loc(), "the record of attached listeners is a mapping keyed by the listener objects themselves: two distinct "
                      "listeners that compare equal collapse into one entry, so the clone re-attaches (and serves) only one of them while the "
                      "original serves both", "statemachine/statemachine.py::StateMachine._listeners", "listener record keyed by ==/hash of the listener")
    else:
        rep.ok("C17.carry", init.loc(), "the record of attached listeners tells them apart by identity", record=rec)


def rule_copy_hooks(ctx: Ctx, rule: str = "C17.carry"):
    """C17.carry: an object tied to one machine (it holds a reference to it, like a BoundEvent) is never shared between
    a machine and its clone: no class of the package whose instances reference a machine answers copy()/deepcopy() with
    the object itself.  (The machine's own __getstate__/__setstate__ are C17.steps' business.)"""
    rep = ctx.rep
    smc = ctx.p.cls("StateMachine")
    fam_sm = {smc.name} | {c.name for c in ctx.p.subclasses(smc)}
    scanned = 0
    for c in sorted(ctx.p.classes.values(), key=lambda c_: (c_.module.rel, c_.name)):
        if c.name in fam_sm:
            continue
        scanned += 1
        hooks = [(nm, c.method(nm)) for nm in ("__copy__", "__deepcopy__", "__reduce__", "__reduce_ex__") if c.method(nm) is not None]
        if not hooks:
            continue
        fam = [c] + list(ctx.p.subclasses(c))
        tied = []
        for k in fam:
            attrs = set(k.class_annots) | set(k.class_assigns)
            for ms in k.methods.values():
                for m in ms:
                    for n in own_nodes(m.node):
                        if isinstance(n, ast.Attribute) and isinstance(n.ctx, ast.Store) and isinstance(n.value, ast.Name):
                            attrs.add(n.attr)
            for a in sorted(attrs):
                if ctx.r.attr_type(k.name, a) & fam_sm:
                    tied.append(f"{k.name}.{a}")
        for nm, m in hooks:
            for p in ctx.paths(m, exc_edges="none"):
                if p.kind != "return" or p.value is None:
                    continue
                v = expand(p.value, p.events)
                same = isinstance(v, ast.Name) and v.id == m.params[0]
                if same:
                    rep.check(not tied, rule, m.loc(), f"{c.name}.{nm} hands out the object itself only when no instance of the class (or a subclass) "
                              "is tied to a machine: otherwise the clone's object graph keeps driving the original machine", m.key,
                              f"return {show(v)}", machine_references=sorted(set(tied)))
                elif tied:
                    raise AnalysisError(f"UNRECOGNISED-IDIOM {rule} at {m.loc()}: copy hook {c.name}.{nm} on a class tied to a machine "
                                        f"({', '.join(sorted(set(tied))[:3])}) is not analysed")
    rep.ok(rule, f"{smc.module.rel}:{smc.node.lineno}", "classes other than the machine scanned for copy hooks", classes=scanned)


def rule_clone_inspects_its_own(ctx: Ctx):
    """C17.attach: re-attaching on the clone inspects the clone's listeners: no memo in front of the inspection serves the
    record of the original's (equal) listener."""
    from ..wrappers import check_fresh
    from .c07 import _resolution_pipeline

    check_fresh(ctx, "C17.attach", _resolution_pipeline(ctx), "the clone's callbacks are bound to the clone's own listeners")


def rule_no_hidden_state(ctx: Ctx):
    """C17.excluded: what __getstate__ hands over is what the class stores by name - nothing tied to the original is slipped
    into the instance's __dict__ under a computed key."""
    from . import c16

    c16.rule_no_hidden_instance_state(ctx, rule="C17.excluded")


def rule_no_process_wide_channel(ctx: Ctx):
    """C17.carry: a clone is rebuilt by the restore path (`__setstate__` -> listener attachment -> inspection of each provider ->
    callback resolution). A process-wide mutable written on that path - a memo of inspected listeners, of bound events, of resolved
    callbacks - is a channel between the original and its clones: what the original put there is found again by the clone's equal
    (but distinct) copies, so the clone's callbacks end up bound to the original's objects."""
    from . import c16

    c16.rule_inventory(ctx, rule="C17.carry", writers_reachable_from=[ctx.p.find_fn("StateMachine.__setstate__"), ctx.p.find_fn("StateMachine.__getstate__"),
                                                                      ctx.p.find_fn("StateMachine.__deepcopy__"), ctx.p.find_fn("StateMachine.__copy__"),
                                                                      ctx.p.find_fn("StateMachine.__reduce__"), ctx.p.find_fn("StateMachine.__reduce_ex__")])


RULES = [rule_carry, rule_excluded, rule_steps, rule_attach, rule_first_attachment, rule_no_snapshot, rule_restart_guard, rule_bound_triggers, rule_listener_identity, rule_copy_hooks, rule_clone_inspects_its_own, rule_no_hidden_state, rule_no_process_wide_channel]
