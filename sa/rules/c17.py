"""C17 - deepcopy / pickle clones are equivalent and independent."""

from __future__ import annotations

import ast
from typing import Dict, List

from ..context import Ctx
from ..kernel import expand, placeholder_closure, xshow
from ..loader import AnalysisError, norm_stmt
from ..paths import show
from ..resolve import own_nodes
from . import c12

EXPLANATION = (
    "Sibling agreement between the constructor and the restore path, decided on __init__ / __getstate__ / __setstate__: "
    "(carry) every attribute the constructor assigns either stays in the serialised dict and is not overwritten on restore, "
    "or is removed and rebuilt on restore by the same expression as in the constructor (the rtc option round-trips through a "
    "saved key); (excluded) exactly the derived per-instance objects are left out of the state; (steps) the restore performs "
    "the constructor's steps in the constructor's order - fresh containers, register callbacks, attach listeners, recompute "
    "the coroutine flag, choose the engine, start it - and callbacks are validated only once every provider is attached. "
    "Deep independence of user models/listeners is Python's copy protocol and not decided."
)
ASSUMPTIONS = ["copy/pickle call __getstate__/__setstate__ as documented"]
TRUSTED = ["/verif/sa path enumerator"]

DERIVED = {"_callbacks", "_states_for_instance", "_engine"}


def _init_attrs(ctx: Ctx):
    fn = ctx.fn("StateMachine.__init__")
    attrs: Dict[str, str] = {}
    for p in ctx.paths(fn, inline=None, exc_edges="none"):
        if p.kind == "raise":
            continue
        for e in p.of("store"):
            if show(e.term.value) == "self":
                attrs[e.x["attr"]] = xshow(e.x["value"], p.events)
    return fn, attrs


def rule_carry(ctx: Ctx):
    rep = ctx.rep
    init, attrs = _init_attrs(ctx)
    rep.floor("C17.carry", "attributes assigned by the constructor", len(attrs), 6)
    gs = ctx.fn("StateMachine.__getstate__")
    ss = ctx.fn("StateMachine.__setstate__")
    deleted, added = set(), {}
    copied = False
    for p in ctx.paths(gs, inline=None, exc_edges="none"):
        evs = p.events
        if p.kind != "return":
            continue
        st = show(p.value)
        copied = xshow(p.value, evs) in ("self.__dict__.copy()", "dict(self.__dict__)")
        for e in evs:
            if e.kind == "delete" and isinstance(e.term, ast.Subscript) and show(e.term.value) == st and isinstance(e.term.slice, ast.Constant):
                deleted.add(e.term.slice.value)
            if e.kind == "call" and isinstance(e.term.func, ast.Attribute) and e.term.func.attr == "pop" and show(e.term.func.value) == st \
                    and e.term.args and isinstance(e.term.args[0], ast.Constant):
                deleted.add(e.term.args[0].value)
            if e.kind == "store" and e.x.get("subscript") and show(e.term.value) == st and isinstance(e.term.slice, ast.Constant):
                added[e.term.slice.value] = xshow(e.x["value"], evs)
    rep.check(copied, "C17.carry", gs.loc(), "the serialised state starts as a copy of the instance dict (custom attributes survive)", gs.key,
              "state is not self.__dict__.copy()")
    restored: Dict[str, str] = {}
    popped: Dict[str, str] = {}
    updated = False
    param = ss.params[1]
    for p in ctx.paths(ss, inline=None, exc_edges="none"):
        evs = p.events
        if p.kind == "raise":
            continue
        for e in evs:
            if e.kind == "call" and show(e.term.func) == f"{param}.pop" and e.term.args and isinstance(e.term.args[0], ast.Constant):
                popped[e.term.args[0].value] = f"$c{e.idx}"
            if e.kind == "call" and show(e.term.func) == "self.__dict__.update" and e.term.args and show(e.term.args[0]) == param:
                updated = True
            if e.kind == "store" and show(e.term.value) == "self":
                restored[e.x["attr"]] = xshow(e.x["value"], evs)
        break
    rep.check(updated, "C17.carry", ss.loc(), "the restore puts the serialised attributes back on the instance", ss.key, "no self.__dict__.update(state)")
    for a, expr in sorted(attrs.items()):
        if a in deleted or a in popped:
            # must be rebuilt the same way
            if a == "_engine":
                ok = restored.get(a, "").startswith("self._get_engine(") and expr.startswith("self._get_engine(")
                rep.check(ok, "C17.carry", ss.loc(), "the engine is rebuilt by _get_engine, as in the constructor", ss.key, f"self._engine = {restored.get(a)}")
            elif a == "_listeners":
                ok = restored.get(a) == expr
                rep.check(ok, "C17.carry", ss.loc(), "the listener table is rebuilt empty and refilled from the saved listeners", ss.key,
                          f"self._listeners = {restored.get(a)}")
            else:
                rep.check(restored.get(a) == expr, "C17.carry", ss.loc(), f"`{a}` is rebuilt on restore exactly as the constructor builds it", ss.key,
                          f"self.{a} = {restored.get(a)}  (constructor: {expr})")
        else:
            rep.check(a not in restored, "C17.carry", ss.loc(), f"`{a}` travels in the serialised state and is not reset on restore", ss.key,
                      f"self.{a} = {restored.get(a)}")
    # the rtc option round-trips
    rtc_key = next((k for k, v in added.items() if v.endswith("._rtc")), None)
    rep.check(rtc_key is not None and added[rtc_key] == "self._engine._rtc", "C17.carry", gs.loc(), "the processing mode of the live engine is saved", gs.key,
              f"added keys: {added}")
    if rtc_key is not None:
        ph = popped.get(rtc_key)
        eng = None
        for p in ctx.paths(ss, inline=None, exc_edges="none"):
            for e in p.calls():
                if show(e.term.func) == "self._get_engine":
                    eng = show(e.term.args[0]) if e.term.args else show(next((k.value for k in e.term.keywords if k.arg == "rtc"), None))
            break
        rep.check(ph is not None and eng == ph, "C17.carry", ss.loc(), "the saved processing mode is what the rebuilt engine gets", ss.key,
                  f"_get_engine({eng}) with saved value {ph}")
    # listeners: saved keys are re-attached
    lkey = popped.get("_listeners")
    reattached = False
    for p in ctx.paths(ss, inline=None, exc_edges="none"):
        for e in p.calls():
            if show(e.term.func) in ("self.add_listener", "self._register_callbacks") and lkey and \
                    lkey in placeholder_closure(e.term, p.events):
                reattached = True
        break
    rep.check(reattached, "C17.carry", ss.loc(), "the saved listeners are attached to the clone", ss.key, "saved `_listeners` not re-attached")


def rule_excluded(ctx: Ctx):
    rep = ctx.rep
    gs = ctx.fn("StateMachine.__getstate__")
    deleted = set()
    for p in ctx.paths(gs, inline=None, exc_edges="none"):
        for e in p.events:
            if e.kind == "delete" and isinstance(e.term, ast.Subscript) and isinstance(e.term.slice, ast.Constant):
                deleted.add(e.term.slice.value)
            if e.kind == "call" and isinstance(e.term.func, ast.Attribute) and e.term.func.attr == "pop" and e.term.args and isinstance(e.term.args[0], ast.Constant):
                deleted.add(e.term.args[0].value)
    rep.check(deleted == DERIVED, "C17.excluded", gs.loc(), "exactly the derived per-instance objects (registry, instance-state cache, engine) are left out",
              gs.key, f"removed from the state: {sorted(deleted)}", missing=sorted(DERIVED - deleted), extra=sorted(deleted - DERIVED))


def _steps(ctx: Ctx, fn) -> List[str]:
    out = []
    for p in ctx.paths(fn, inline=None, exc_edges="none"):
        if p.kind == "raise":
            continue
        for e in p.events:
            if e.kind == "call":
                f = show(e.term.func)
                if f == "self._register_callbacks":
                    out.append("register")
                elif f == "self.add_listener":
                    out.append("listeners")
                elif f == "self._get_engine":
                    out.append("engine")
                elif f.endswith(".start") and xshow(e.term.func.value, p.events).startswith("self._engine"):
                    out.append("start")
                elif f.endswith(".async_or_sync"):
                    out.append("flag")
        break
    return out


def rule_steps(ctx: Ctx):
    rep = ctx.rep
    init = ctx.fn("StateMachine.__init__")
    ss = ctx.fn("StateMachine.__setstate__")
    a = _steps(ctx, init)
    b = _steps(ctx, ss)
    core_a = [x for x in a if x in ("register", "engine", "start")]
    core_b = [x for x in b if x in ("register", "engine", "start")]
    rep.check(core_a == ["register", "engine", "start"], "C17.steps", init.loc(), "constructor: register callbacks, choose engine, start", init.key, f"steps: {a}")
    rep.check(core_b == core_a, "C17.steps", ss.loc(), "restore performs the constructor's steps in the constructor's order (incl. start(): a clone of a "
              "not-yet-activated machine still gets its initial activation)", ss.key, f"restore steps: {b} vs constructor steps: {a}")
    if "listeners" in b and "engine" in b:
        rep.check(b.index("listeners") < b.index("engine"), "C17.steps", ss.loc(), "listeners are attached before the engine is chosen", ss.key, f"restore steps: {b}")
    c12.rule_engine(ctx, rule="C17.steps", only={"__setstate__"})
    # validation must see every provider: constructor passes the listeners to _register_callbacks
    reg_arg = None
    for p in ctx.paths(ss, inline=None, exc_edges="none"):
        for e in p.calls():
            if show(e.term.func) == "self._register_callbacks":
                reg_arg = xshow(e.term.args[0], p.events) if e.term.args else None
        break
    late = "listeners" in b and "register" in b and b.index("register") < b.index("listeners")
    if late:
        rep.check(reg_arg not in ("[]", "()", None), "C17.steps", ss.loc(),
                  "callbacks are validated on restore only once every provider (incl. the saved listeners) is attached", ss.key,
                  f"self._register_callbacks({reg_arg}) validates before add_listener re-attaches the listeners")


def rule_restart_guard(ctx: Ctx):
    """C17.steps: `start()` on the restored machine must leave a stored state alone whatever its value (None-test)."""
    from . import c11

    c11.rule_guard(ctx, rule="C17.steps")


RULES = [rule_carry, rule_excluded, rule_steps, rule_restart_guard]
