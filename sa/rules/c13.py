"""C13 - send(), event methods and bound events are one and the same entry point."""

from __future__ import annotations

import ast

from ..context import Ctx
from ..kernel import expand, expand1, xshow
from ..loader import AnalysisError, norm_stmt
from ..paths import show
from ..resolve import own_nodes
from .c03 import callgraph

EXPLANATION = (
    "One entry point, decided on the code: (send) on every path of send() the object that gets called is either a BoundEvent "
    "constructed there from the given name, or an attribute looked up under a positive guard that the name is a declared event; "
    "an unguarded getattr(self, <user string>) reaching a call is a violation; (single) the engine's queue is fed only from "
    "Event.__call__ (through the machine's _put_nonblocking) and from start(); (lists) allowed_events is the order-preserving "
    "de-duplication of the events of the current state's transitions and `events` enumerates the class's declared events; "
    "(bind) the Event descriptor returns a BoundEvent with the same id/name tied to the instance and bind_events_to binds only "
    "declared events. Results of calling each style on arbitrary machines are not compared at run time."
)
ASSUMPTIONS = ["dict insertion order (language guarantee) for ordered de-duplication"]
TRUSTED = ["/verif/sa path enumerator, resolver and call graph"]


def rule_send(ctx: Ctx, rule: str = "C13.send"):
    rep = ctx.rep
    fn = ctx.fn("StateMachine.send")
    ev = fn.params[1]
    n = 0
    for p in ctx.paths(fn, inline=None, exc_edges="none"):
        evs = p.events
        facts = {xshow(b.term, evs): b.x["taken"] for b in p.of("branch")}
        declared = any(v is True and k in (f"{ev} in self.__class__._events", f"{ev} in self._events", f"{ev} in type(self)._events",
                                           f"{ev} in self.__class__._events.keys()") for k, v in facts.items())
        fired = 0
        for c in p.calls():
            f = c.term.func
            if not (isinstance(f, ast.Name) and f.id.startswith("$c") and f.id[2:].isdigit()):
                continue
            src = evs[int(f.id[2:])]
            if src.kind != "call":
                continue
            stxt = show(src.term.func)
            n += 1
            fired += 1
            if stxt in ("BoundEvent", "Event"):
                kw = {k.arg: show(k.value) for k in src.term.keywords}
                pos = [show(a) for a in src.term.args]
                ok = (kw.get("id") == ev or (pos and pos[0] == ev)) and kw.get("_sm") == "self"
                rep.check(ok, rule, c.loc(), "an unknown name becomes a fresh BoundEvent of that id on this machine "
                          "(processed as an unknown event)", fn.key, norm_stmt(src.node), kwargs=kw)
            elif stxt == "getattr":
                args = [show(a) for a in src.term.args]
                has_default = len(args) >= 3
                isinst = any(v is True and k.startswith("isinstance(") and "Event" in k for k, v in facts.items())
                ok = args[:2] == ["self", ev] and (declared or isinst)
                rep.check(ok, rule, c.loc(),
                          "an attribute looked up by the caller's string is called only when that string is a declared event",
                          fn.key, norm_stmt(src.node), guards=[f"{k}=={v}" for k, v in facts.items()], has_default=has_default)
            else:
                rep.violation(rule, c.loc(), f"send() calls the result of `{stxt}(...)`", fn.key, norm_stmt(src.node))
        if p.kind == "raise" and fired == 0:
            rep.violation(rule, fn.loc(), "send() raises on its own, before the event was called: what happens to an event (also an unknown "
                          "one) is decided when its turn comes in the queue - after the running transition, after the initial activation - "
                          "not at send time", fn.key, "; ".join(f"{xshow(b.term, evs)}={b.x['taken']}" for b in p.of("branch"))[:200])
        if p.kind in ("return", "fall") and fired != 1:
            rep.violation(rule, fn.loc(), "send() is the event call: every path that returns has called the looked-up (or freshly built) "
                          f"event exactly once - this one calls it {fired} time(s), so what happens to the event is decided differently from `sm.<event>()`",
                          fn.key, "; ".join(f"{xshow(b.term, evs)}={b.x['taken']}" for b in p.of("branch"))[:200])
    rep.floor(rule, "call sites through a looked-up/constructed event in send()", n, 2)
    # the caller's own object is never called as is (a trigger bound to another machine would fire there)
    for p in ctx.paths(fn, inline=None, exc_edges="none"):
        for c in p.calls():
            f = c.term.func
            if isinstance(f, ast.Name) and f.id == ev:
                rep.violation(rule, c.loc(), "send() calls the object it was given instead of resolving the name on *this* machine "
                              "(a BoundEvent of another machine fires on that machine)", fn.key, norm_stmt(c.node))


def rule_match(ctx: Ctx):
    from . import c01

    c01.rule_match(ctx, rule="C13.match")


def rule_single(ctx: Ctx):
    rep, k = ctx.rep, ctx.k
    g = callgraph(ctx)
    put = ctx.fn("BaseEngine.put")
    callers = [(c, node, how) for c, node, how in g.callers(put)
               if not (ctx.is_new(c) and c.name == "put" and c.cls is not None and k.base in ctx.p.mro(c.cls))]  # a later override delegating to it
    rep.floor("C13.single", "callers of engine.put", len(callers), 2)
    for c, node, how in callers:
        rep.check(c.qualname in ("StateMachine._put_nonblocking", "BaseEngine.start"), "C13.single", c.loc(node),
                  "the queue is fed only by the machine's enqueue facade and by start()", c.key, norm_stmt(node))
    pn = ctx.fn("StateMachine._put_nonblocking")
    callers = g.callers(pn)
    rep.floor("C13.single", "callers of _put_nonblocking", len(callers), 1)
    for c, node, how in callers:
        rep.check(c.qualname == "Event.__call__", "C13.single", c.loc(node), "every way of triggering goes through Event.__call__", c.key, norm_stmt(node))
    # subclasses do not override put
    for e in k.engines:
        if e.method("put") is not None and ctx.is_new(e.method("put")):
            # an override introduced later: what it does with the trigger is decided by the enqueue rule on the paths it is part of
            from . import c03

            c03.rule_put(ctx, rule="C13.single")
            continue
        rep.check(e.method("put") is None, "C13.single", f"{e.module.rel}:{e.node.lineno} {e.name}", f"{e.name} uses the base put()", f"{e.module.rel}::{e.name}",
                  "put overridden")
    # MachineMixin binds through bind_events_to
    mm = ctx.fn("MachineMixin.__init__")
    for p in ctx.paths(mm, inline=None, exc_edges="none"):
        b = [e for e in p.calls() if isinstance(e.term.func, ast.Attribute) and e.term.func.attr == "bind_events_to"]
        if b:
            rep.check(show(b[0].term.args[0]) == "self", "C13.single", b[0].loc(), "MachineMixin binds the machine's own triggers onto the model", mm.key,
                      norm_stmt(b[0].node))


def rule_lists(ctx: Ctx):
    rep = ctx.rep
    ae = ctx.p.find_fn("StateMachine.allowed_events")
    evp = ctx.p.find_fn("StateMachine.events")
    if ae is None or evp is None:
        raise AnalysisError("anchor lost: allowed_events / events")
    rep.note_fn(ae)
    rep.note_fn(evp)
    for fn, it_want, what in ((ae, "self.current_state.transitions.unique_events", "allowed_events lists the unique events of the current state's transitions"),
                              (evp, "self.__class__._events", "events lists every declared event of the class")):
        for p in ctx.paths(fn, inline=None, exc_edges="none", comps_for_loops=True):
            v = expand(p.value, p.events) if p.kind == "return" else None
            ok = isinstance(v, ast.ListComp) and len(v.generators) == 1 and not v.generators[0].ifs and show(v.generators[0].iter) == it_want
            if ok:
                t = v.generators[0].target.id
                ok = show(v.elt) == f"getattr(self, {t})"
            rep.check(bool(ok), "C13.lists", fn.loc(), what + " (one bound trigger each, in order, unfiltered)", fn.key, f"return {show(v)}")
    ue = ctx.p.find_fn("TransitionList.unique_events")
    rep.note_fn(ue)
    n = 0
    for p in ctx.paths(ue, inline=None, exc_edges="none", unroll=1, comps_for_loops=True):
        evs = p.events
        if p.kind != "return":
            continue
        n += 1
        vv = expand(p.value, evs)
        if isinstance(vv, ast.Call) and show(vv.func) == "list" and len(vv.args) == 1 and isinstance(vv.args[0], ast.Call) and \
                show(vv.args[0].func) == "dict.fromkeys" and isinstance(vv.args[0].args[0], (ast.GeneratorExp, ast.ListComp)):
            g = vv.args[0].args[0]
            gens = g.generators
            ok2 = len(gens) == 2 and not gens[0].ifs and not gens[1].ifs and show(gens[0].iter) == "self.transitions" and \
                isinstance(gens[0].target, ast.Name) and show(gens[1].iter) == f"{gens[0].target.id}.events" and \
                isinstance(gens[1].target, ast.Name) and show(g.elt) == gens[1].target.id and len(vv.args[0].args) == 1
            rep.check(ok2, "C13.lists", ue.loc(), "unique_events de-duplicates in first-occurrence order over transitions, then over each transition's events",
                      ue.key, f"return {show(vv)}")
            n += 1
            continue
        inner = vv.args[0] if isinstance(vv, ast.Call) and show(vv.func) == "list" and len(vv.args) == 1 else None
        if isinstance(inner, ast.Call) and show(inner.func) == "dict.fromkeys" and len(inner.args) == 1 and isinstance(inner.args[0], ast.Call) \
                and show(inner.args[0].func) in ("chain.from_iterable", "itertools.chain.from_iterable") and len(inner.args[0].args) == 1 \
                and isinstance(inner.args[0].args[0], (ast.GeneratorExp, ast.ListComp)):
            g = inner.args[0].args[0]
            gens = g.generators
            ok2 = len(gens) == 1 and not gens[0].ifs and show(gens[0].iter) == "self.transitions" and isinstance(gens[0].target, ast.Name) \
                and show(g.elt) == f"{gens[0].target.id}.events"
            rep.check(ok2, "C13.lists", ue.loc(), "unique_events de-duplicates in first-occurrence order over transitions, then over each transition's events",
                      ue.key, f"return {show(vv)}")
            n += 1
            continue
        if isinstance(inner, ast.Call) and isinstance(inner.func, ast.Attribute) and inner.func.attr == "keys" and not inner.args:
            inner = inner.func.value
        if isinstance(inner, ast.DictComp):
            gens = inner.generators
            ok2 = len(gens) == 2 and not gens[0].ifs and not gens[1].ifs and show(gens[0].iter) == "self.transitions" and \
                isinstance(gens[0].target, ast.Name) and show(gens[1].iter) == f"{gens[0].target.id}.events" and \
                isinstance(gens[1].target, ast.Name) and show(inner.key) == gens[1].target.id
            rep.check(ok2, "C13.lists", ue.loc(), "unique_events de-duplicates in first-occurrence order over transitions, then over each transition's events",
                      ue.key, f"return {show(vv)}")
            n += 1
            continue
        d = next((f"$l{e.idx}" for e in evs if e.kind == "alloc" and isinstance(e.term, ast.Dict)), None)
        v = xshow(p.value, evs)
        iters = [e for e in evs if e.kind == "iter" and e.x.get("loop") == "for"]
        ok = d is not None and (show(p.value) and expand1(p.value, evs) is not None)
        v1t = expand1(p.value, evs)
        if isinstance(v1t, ast.Call) and show(v1t.func) == "list" and len(v1t.args) == 1:
            v1 = f"list({show(expand1(v1t.args[0], evs))})"
        else:
            v1 = show(v1t)
        ok = ok and v1 in (f"list({d}.keys())", f"list({d})")
        if iters:
            ok = ok and show(iters[0].term) == "self.transitions"
            if len(iters) > 1:
                ok = ok and xshow(iters[1].term, evs) == f"{show(iters[0].x['elem'])}.events"
                st = [e for e in p.of("store") if e.x.get("subscript") and show(e.term.value) == d]
                ok = ok and bool(st) and show(st[0].term.slice) == show(iters[1].x["elem"])
        rep.check(bool(ok), "C13.lists", ue.loc(), "unique_events de-duplicates in first-occurrence order over transitions, then over each transition's events",
                  ue.key, f"return {v1}", loops=[show(i.term) for i in iters])
    rep.floor("C13.lists", "paths of unique_events", n, 2)
    te = ctx.p.find_fn("Transition.events")
    for p in ctx.paths(te, inline=None, exc_edges="none"):
        rep.check(p.kind == "return" and show(p.value) == "self._events", "C13.lists", te.loc(), "a transition's events are its stored Events collection",
                  te.key, f"return {show(p.value)}")


def rule_bind(ctx: Ctx, rule: str = "C13.bind"):
    rep = ctx.rep
    g = ctx.fn("Event.__get__")
    inst = g.params[1]
    n = 0
    for p in ctx.paths(g, inline=None, exc_edges="none"):
        if p.kind != "return":
            continue
        n += 1
        facts = {show(b.term): b.x["taken"] for b in p.of("branch")}
        v = expand(p.value, p.events)
        if facts.get(f"{inst} is None") is True:
            rep.check(show(v) == "self", rule, g.loc(), "on the class, the Event itself is returned", g.key, f"return {show(v)}")
        else:
            ok = isinstance(v, ast.Call) and show(v.func) == "BoundEvent"
            kw = {k.arg: show(k.value) for k in v.keywords} if ok else {}
            ok = ok and kw.get("id") == "self.id" and kw.get("name") == "self.name" and kw.get("_sm") == inst
            # ... and nothing else: a bound event that carried the class-level transitions would let `sm.event.after(f)` write into
            # the definition every instance shares
            ok = ok and not v.args and set(kw) <= {"id", "name", "_sm"}
            rep.check(bool(ok), rule, g.loc(), "on an instance, a BoundEvent with the same id and name, tied to that instance", g.key, f"return {show(v)}")
    rep.floor(rule, "paths of Event.__get__", n, 2)
    be = ctx.p.cls("BoundEvent")
    own = []
    for ms in be.methods.values():
        for m in ms:
            # a method that only hands its own arguments to the inherited one (and returns what that returns) changes nothing
            deleg = True
            for p in ctx.paths(m, inline=None, exc_edges="none"):
                calls = [e for e in p.calls() if not show(e.term.func).startswith(("logger.", "logging.", "log."))]
                a_ = m.node.args
                names = [x.arg for x in a_.posonlyargs + a_.args][1:]
                want_args = names + ([f"*{a_.vararg.arg}"] if a_.vararg else [])
                ok_p = p.kind == "return" and len(calls) == 1 and show(calls[0].term.func) == f"super().{m.name}" and \
                    [show(x) for x in calls[0].term.args] == want_args and \
                    [(k_.arg, show(k_.value)) for k_ in calls[0].term.keywords] == ([(None, a_.kwarg.arg)] if a_.kwarg else []) and \
                    isinstance(p.value, ast.Name) and p.value.id == f"$c{calls[0].idx}"
                deleg = deleg and ok_p
            if not deleg:
                own.append(m.name)
    rep.check("Event" in be.bases and not own, rule, f"{be.module.rel}:{be.node.lineno} BoundEvent",
              "a BoundEvent is an Event (same __call__)", f"{be.module.rel}::BoundEvent", f"class BoundEvent({', '.join(be.bases)}) with methods {sorted(own)}")
    b = ctx.fn("StateMachine.bind_events_to")
    n = 0
    for p in ctx.paths(b, inline=None, exc_edges="none", unroll=1):
        evs = p.events
        for e in p.calls():
            if show(e.term.func) == "setattr":
                n += 1
                its = [i for i in evs[: e.idx] if i.kind == "iter" and i.x.get("loop") == "for"]
                ok = len(its) >= 2 and xshow(its[0].term, evs) == "self.events" and len(e.term.args) == 3
                if ok:
                    evname = show(its[0].x["elem"])
                    ok = show(e.term.args[1]) == evname and xshow(e.term.args[2], evs) == f"getattr(self, {xshow(its[0].x['elem'], evs)})" and \
                        show(e.term.args[0]) == show(its[1].x["elem"])
                    guard = [x for x in evs[: e.idx] if x.kind == "branch" and xshow(x.term, evs).startswith("hasattr(") and x.x["taken"] is False]
                    ok = ok and bool(guard)
                rep.check(bool(ok), rule, e.loc(), "only declared events are bound onto a target, under their own name, and never over an existing attribute",
                          b.key, norm_stmt(e.node))
    rep.floor(rule, "binding sites in bind_events_to", n, 1)


def rule_bound_stays_bound(ctx: Ctx):
    """C13.bind: a bound event stays tied to the machine of the object graph it lives in - copying that graph does not
    leave it pointing at another machine (no copy hook on Event/BoundEvent answering with the object itself)."""
    from . import c17

    c17.rule_copy_hooks(ctx, rule="C13.bind")


RULES = [rule_send, rule_match, rule_single, rule_lists, rule_bind, rule_bound_stays_bound]
