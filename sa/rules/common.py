"""Obligations every property shares (run after the property's own rules by the check runner)."""

from __future__ import annotations

import ast

from ..context import Ctx
from ..loader import AnalysisError
from ..paths import show
from ..resolve import own_nodes

# special methods that no rule's reading of the code can be affected by
_HARMLESS = {"__init__", "__new__", "__post_init__", "__repr__", "__sizeof__", "__del__"}
# decided where they matter: copy hooks (C17.carry for machine-tied classes, shapes.shallow_copy_missing for specs),
# in-place operators of the transition list (C15.or)
_DECIDED_ELSEWHERE = {"__copy__", "__deepcopy__", "__reduce__", "__reduce_ex__"}
_DECIDED_PAIRS = {("TransitionList", "__ior__"), ("TransitionList", "__iadd__"), ("TransitionList", "__iand__"), ("TransitionList", "__ixor__")}


def _only_delegates(ctx: Ctx, m) -> bool:
    """Every path hands the method's own arguments to the inherited method and returns what it returns."""
    a = m.node.args
    names = [x.arg for x in a.posonlyargs + a.args][1:]
    want = names + ([f"*{a.vararg.arg}"] if a.vararg else [])
    want_kw = [(None, a.kwarg.arg)] if a.kwarg else []
    try:
        paths = ctx.paths(m, inline=None, exc_edges="none")
    except AnalysisError:
        return False
    for p in paths:
        calls = [e for e in p.calls() if not show(e.term.func).startswith(("logger.", "logging.", "log."))]
        if not (p.kind == "return" and len(calls) == 1 and show(calls[0].term.func) == f"super().{m.name}"
                and [show(x) for x in calls[0].term.args] == want
                and [(k.arg, show(k.value)) for k in calls[0].term.keywords] == want_kw
                and isinstance(p.value, ast.Name) and p.value.id == f"$c{calls[0].idx}"):
            return False
    return True


def rule_implicit_protocol(ctx: Ctx):
    """A special method added to a class of the package after the analysed baseline is called by operators and builtins
    (`if x`, `==`, `in`, `for`, `dir()`, attribute access ...) at sites whose text does not change: the rules read those
    sites with the baseline meaning.  Unless the method only delegates to the inherited one, or a rule decides it, the
    check does not pretend to know what those sites now do (no verdict, exit 2; a violation stated by any rule still wins)."""
    fresh = []
    for f in ctx.p.all_functions():
        if f.cls is None or f.parent is not None or not (f.name.startswith("__") and f.name.endswith("__")):
            continue
        if f.cls.name not in ctx.known_classes:
            continue  # a class introduced later: its instances are new objects, read through the engine's inlining
        if not ctx.is_new(f) or f.name in _HARMLESS or f.name in _DECIDED_ELSEWHERE or (f.cls.name, f.name) in _DECIDED_PAIRS:
            continue
        if f.is_property:
            continue
        if _only_delegates(ctx, f):
            continue
        fresh.append(f)
    if fresh:
        f = sorted(fresh, key=lambda x: x.key)[0]
        raise AnalysisError(f"UNRECOGNISED-IDIOM {ctx.prop}.anchor at {f.loc()}: special method {f.qualname} was added after the analysed "
                            f"baseline: operators and builtins applied to {f.cls.name} objects now run it, at sites the rules read with their "
                            "baseline meaning" + (f" (+{len(fresh) - 1} more)" if len(fresh) > 1 else ""))
    ctx.rep.extra["special_methods_added_since_baseline"] = 0


def rule_one_shot(ctx: Ctx):
    """<prop>.oneshot: in the code this property's rules read (the analysed functions and what they call), no one-shot iterator
    - a generator expression, the result of a generator function, map/filter/zip - is walked more than once: the second walk
    silently sees nothing (sa/oneshot.py).  The rules themselves read `for x in <expr>` as "every element", which is only true
    of the first walk."""
    from ..loader import norm_stmt
    from ..oneshot import OneShot
    from .c03 import callgraph

    rule = f"{ctx.prop}.oneshot"
    analysed = [f for f in ctx.p.all_functions() if f.key in ctx.rep.functions_analysed]
    scope = callgraph(ctx).reachable(analysed, hows=("typed", "prop", "closure"))
    found = OneShot(ctx).findings()
    n = 0
    for fn, node, what in found:
        if fn not in scope:
            continue
        n += 1
        ctx.rep.violation(rule, fn.loc(node), f"{what}: everything after the first walk sees an exhausted iterator", fn.key,
                          norm_stmt(node) if isinstance(node, ast.stmt) else ast.unparse(node)[:160])
    if not n:
        ctx.rep.ok(rule, "package", "no one-shot iterator is walked more than once in the code the rules read", functions_in_scope=len(scope),
                   findings_elsewhere=len(found))


_MUTATORS = {"append", "remove", "insert", "pop", "clear", "extend", "add", "discard", "popitem", "popleft", "appendleft", "sort", "reverse"}
_SNAPSHOTS = {"list", "tuple", "sorted", "set", "frozenset", "dict", "copy", "copy.copy", "reversed"}


def _self_containers_mutated(fnode) -> set:
    """Names F such that the function body calls `self.F.<mutator>(...)`, deletes or stores `self.F[...]`."""
    out = set()
    for n in ast.walk(fnode):
        t = None
        if isinstance(n, ast.Call) and isinstance(n.func, ast.Attribute) and n.func.attr in _MUTATORS:
            t = n.func.value
        elif isinstance(n, ast.Subscript) and isinstance(n.ctx, (ast.Store, ast.Del)):
            t = n.value
        if isinstance(t, ast.Attribute) and isinstance(t.value, ast.Name) and t.value.id == "self":
            out.add(t.attr)
    return out


def rule_live_iteration(ctx: Ctx):
    """<prop>.liveiter: in the code this property's rules read, no loop removes from / appends to the very container it is walking
    (directly, or through a method of a package class that mutates the field its `__iter__` walks): CPython's list iterator then
    skips or repeats elements, so "for every element" - which is how the rules read a `for` - is no longer what runs. A mutation
    that is the last thing the loop does (followed by break/return) and loops over a snapshot (`list(x)`, `tuple(x)`) are fine."""
    from ..loader import norm_stmt
    from ..paths import show
    from .c03 import callgraph

    rule = f"{ctx.prop}.liveiter"
    analysed = [f for f in ctx.p.all_functions() if f.key in ctx.rep.functions_analysed]
    scope = callgraph(ctx).reachable(analysed, hows=("typed", "prop", "closure"))
    # package classes: which fields does __iter__ walk, which methods mutate them
    iter_fields = {}
    for c in ctx.p.classes.values():
        for it in c.methods.get("__iter__", []):
            fs = {n.attr for n in ast.walk(it.node) if isinstance(n, ast.Attribute) and isinstance(n.value, ast.Name) and n.value.id == "self"}
            iter_fields[c.name] = fs
    mutating_methods = {}
    for c in ctx.p.classes.values():
        fs = iter_fields.get(c.name) or set()
        for b in ctx.p.mro(c) if hasattr(ctx.p, "mro") else []:
            fs = fs | (iter_fields.get(b.name) or set())
        if not fs:
            continue
        for nm, ms in c.methods.items():
            for m in ms:
                if nm not in ("__init__", "__new__") and _self_containers_mutated(m.node) & fs:
                    mutating_methods.setdefault(nm, set()).add(c.name)
    n_loops = n_bad = 0
    for fn in sorted(scope, key=lambda f: f.key):
        if isinstance(fn.node, ast.Lambda):
            continue
        for loop in own_nodes(fn.node):
            if not isinstance(loop, (ast.For, ast.AsyncFor)):
                continue
            it = loop.iter
            if isinstance(it, ast.Call) and show(it.func) in _SNAPSHOTS:
                continue
            if isinstance(it, ast.Call) and isinstance(it.func, ast.Attribute) and it.func.attr in ("items", "keys", "values") and not it.args:
                base = show(it.func.value)
            else:
                base = show(it)
            if not isinstance(it, (ast.Name, ast.Attribute, ast.Call)) or (isinstance(it, ast.Call) and base == show(it)):
                continue
            n_loops += 1

            def scan(stmts):
                nonlocal n_bad
                for i, st in enumerate(stmts):
                    nxt = stmts[i + 1] if i + 1 < len(stmts) else None
                    last_before_exit = isinstance(nxt, (ast.Break, ast.Return)) or (nxt is None and False)
                    for x in ast.walk(st) if not isinstance(st, (ast.If, ast.For, ast.While, ast.Try, ast.With)) else []:
                        if isinstance(x, ast.Call) and isinstance(x.func, ast.Attribute) and show(x.func.value) == base:
                            m = x.func.attr
                            direct = m in _MUTATORS or m in ("update", "setdefault", "__delitem__")
                            tys = ctx.r.typeof(x.func.value, fn, ())
                            via = {t for t in mutating_methods.get(m, set()) if t in tys or not tys}
                            if (direct and not (tys & set(ctx.p.classes))) or via:
                                if last_before_exit:
                                    continue
                                n_bad += 1
                                ctx.rep.violation(rule, fn.loc(x), f"{fn.qualname}: the loop over `{base}` calls `{show(x)[:70]}`, which changes the "
                                                  "container being walked: elements are skipped or visited twice", fn.key, norm_stmt(st))
                        elif isinstance(x, ast.Delete) and any(isinstance(t, ast.Subscript) and show(t.value) == base for t in x.targets):
                            if not last_before_exit:
                                n_bad += 1
                                ctx.rep.violation(rule, fn.loc(x), f"{fn.qualname}: the loop over `{base}` deletes from it", fn.key, norm_stmt(st))
                    for fld in ("body", "orelse", "finalbody"):
                        sub = getattr(st, fld, None)
                        if isinstance(sub, list) and sub and isinstance(sub[0], ast.stmt) and not isinstance(st, (ast.FunctionDef, ast.AsyncFunctionDef, ast.ClassDef)):
                            scan(sub)
                    for h in getattr(st, "handlers", []) or []:
                        scan(h.body)

            scan(loop.body)
    if not n_bad:
        ctx.rep.ok(rule, "package", "no loop mutates the container it walks in the code the rules read", loops_examined=n_loops,
                   functions_in_scope=len(scope))


COMMON_RULES = [rule_one_shot, rule_implicit_protocol, rule_live_iteration]
