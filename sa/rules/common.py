"""Obligations every property shares (run after the property's own rules by the check runner)."""

from __future__ import annotations

import ast

from ..context import Ctx
from ..loader import AnalysisError
from ..paths import show

# special methods that no rule's reading of the code can be affected by
_HARMLESS = {"__init__", "__new__", "__post_init__", "__repr__", "__sizeof__", "__del__"}
# decided where they matter: copy hooks (C17.carry for machine-tied classes, shapes.shallow_copy_missing for specs),
# in-place operators of the transition list (C15.or)
_DECIDED_ELSEWHERE = {"__copy__", "__deepcopy__", "__reduce__", "__reduce_ex__"}
_DECIDED_PAIRS = {("TransitionList", "__ior__"), ("TransitionList", "__iadd__"), ("TransitionList", "__iand__"), ("TransitionList", "__ixor__")}


def _only_delegates(ctx: Ctx, m) -> bool:
    """Every path hands the method's own arguments to the inherited method and returns what it returns."""
    a = m.node.args
    names = [x.arg for x in a.posonlyargs + a.args][1:]
    want = names + ([f"*{a.vararg.arg}"] if a.vararg else [])
    want_kw = [(None, a.kwarg.arg)] if a.kwarg else []
    try:
        paths = ctx.paths(m, inline=None, exc_edges="none")
    except AnalysisError:
        return False
    for p in paths:
        calls = [e for e in p.calls() if not show(e.term.func).startswith(("logger.", "logging.", "log."))]
        if not (p.kind == "return" and len(calls) == 1 and show(calls[0].term.func) == f"super().{m.name}"
                and [show(x) for x in calls[0].term.args] == want
                and [(k.arg, show(k.value)) for k in calls[0].term.keywords] == want_kw
                and isinstance(p.value, ast.Name) and p.value.id == f"$c{calls[0].idx}"):
            return False
    return True


def rule_implicit_protocol(ctx: Ctx):
    """A special method added to a class of the package after the analysed baseline is called by operators and builtins
    (`if x`, `==`, `in`, `for`, `dir()`, attribute access ...) at sites whose text does not change: the rules read those
    sites with the baseline meaning.  Unless the method only delegates to the inherited one, or a rule decides it, the
    check does not pretend to know what those sites now do (no verdict, exit 2; a violation stated by any rule still wins)."""
    fresh = []
    for f in ctx.p.all_functions():
        if f.cls is None or f.parent is not None or not (f.name.startswith("__") and f.name.endswith("__")):
            continue
        if f.cls.name not in ctx.known_classes:
            continue  # a class introduced later: its instances are new objects, read through the engine's inlining
        if not ctx.is_new(f) or f.name in _HARMLESS or f.name in _DECIDED_ELSEWHERE or (f.cls.name, f.name) in _DECIDED_PAIRS:
            continue
        if f.is_property:
            continue
        if _only_delegates(ctx, f):
            continue
        fresh.append(f)
    if fresh:
        f = sorted(fresh, key=lambda x: x.key)[0]
        raise AnalysisError(f"UNRECOGNISED-IDIOM {ctx.prop}.anchor at {f.loc()}: special method {f.qualname} was added after the analysed "
                            f"baseline: operators and builtins applied to {f.cls.name} objects now run it, at sites the rules read with their "
                            "baseline meaning" + (f" (+{len(fresh) - 1} more)" if len(fresh) > 1 else ""))
    ctx.rep.extra["special_methods_added_since_baseline"] = 0


def rule_one_shot(ctx: Ctx):
    """<prop>.oneshot: in the code this property's rules read (the analysed functions and what they call), no one-shot iterator
    - a generator expression, the result of a generator function, map/filter/zip - is walked more than once: the second walk
    silently sees nothing (sa/oneshot.py).  The rules themselves read `for x in <expr>` as "every element", which is only true
    of the first walk."""
    from ..loader import norm_stmt
    from ..oneshot import OneShot
    from .c03 import callgraph

    rule = f"{ctx.prop}.oneshot"
    analysed = [f for f in ctx.p.all_functions() if f.key in ctx.rep.functions_analysed]
    scope = callgraph(ctx).reachable(analysed, hows=("typed", "prop", "closure"))
    found = OneShot(ctx).findings()
    n = 0
    for fn, node, what in found:
        if fn not in scope:
            continue
        n += 1
        ctx.rep.violation(rule, fn.loc(node), f"{what}: everything after the first walk sees an exhausted iterator", fn.key,
                          norm_stmt(node) if isinstance(node, ast.stmt) else ast.unparse(node)[:160])
    if not n:
        ctx.rep.ok(rule, "package", "no one-shot iterator is walked more than once in the code the rules read", functions_in_scope=len(scope),
                   findings_elsewhere=len(found))


COMMON_RULES = [rule_one_shot, rule_implicit_protocol]
