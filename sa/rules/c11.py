"""C11 - Initial activation happens once; a stored state is resumed untouched."""

from __future__ import annotations

import ast

from ..context import Ctx
from ..kernel import expand, xshow
from ..loader import AnalysisError, norm_stmt
from ..paths import show
from ..resolve import own_nodes
from . import c03
from .c03 import callgraph

EXPLANATION = (
    "The only trigger of initial activation is decided structurally: (guard) on every path of BaseEngine.start on which "
    "`current_state_value is not None` holds, the function returns without enqueuing anything - the test is a None-test and "
    "can only be widened, never narrowed; (who) the `__initial__` trigger is built only in start(), start() is called only "
    "from the machine's constructor / __setstate__ (and the engines' own super().start()), and activate_initial_state only "
    "drains; (sentinel) initial activation yields the sentinel so it never becomes a caller's result; (target) the state "
    "entered is chosen by _get_initial_state with a None-test on start_value, unmapped values raise InvalidStateValue. "
    "That only the target's enter callbacks run is C02.initial. Callbacks fired by user code on its own are not decided."
    " Added after seeded batch 9: the map a stored value is resumed through is keyed by state values only and holds one state per value (shared with C10.access; F40)."
)
ASSUMPTIONS = ["a model whose state field reads None has no stored state (API contract)"]
TRUSTED = ["/verif/sa path enumerator and resolver"]


def _csv_test(term: ast.AST, evs):
    """Return 'none' if term is `<current_state_value> is None`, 'truth' if it is the value itself."""
    x = expand(term, evs)
    txt = show(x)
    if isinstance(x, ast.Compare) and len(x.ops) == 1 and isinstance(x.ops[0], ast.Is):
        sides = [show(x.left), show(x.comparators[0])]
        if "None" in sides and any(s.endswith("current_state_value") for s in sides):
            return "none"
    if txt.endswith("current_state_value"):
        return "truth"
    return None


def rule_guard(ctx: Ctx, rule: str = "C11.guard"):
    rep, k = ctx.rep, ctx.k
    fn = ctx.fn("BaseEngine.start")
    n_put = n_ret = 0
    for p in ctx.paths(fn, inline=None, exc_edges="none"):
        evs = p.events
        puts = [e for e in p.calls() if not ctx.is_new_call(e) and k.calls_method(e, "put") or (isinstance(e.term.func, ast.Attribute) and e.term.func.attr in ("append", "appendleft")
                                                                       and k.queue_attr in show(e.term.func))]
        stored = None
        for b in p.of("branch"):
            kind = _csv_test(b.term, evs)
            if kind == "none":
                stored = not b.x["taken"]  # `is None` false => a state is stored
            elif kind == "truth":
                rep.violation(rule, b.loc(), "start() tests the stored state value for truthiness: a stored falsy value (0, '') is re-initialised",
                              fn.key, norm_stmt(b.node))
                stored = b.x["taken"]
        if stored is None:
            rep.violation(rule, fn.loc(), "a path of start() never asks whether the model already holds a state", fn.key,
                          "path: " + " ; ".join(e.show() for e in evs if e.kind in ("branch", "call")))
            continue
        if stored:
            n_ret += 1
            rep.check(not puts and p.kind in ("return", "fall"), rule, fn.loc(),
                      "with a stored state start() enqueues nothing (the stored state is resumed untouched, whatever start_value says)",
                      fn.key, "stored-state path still enqueues: " + " ; ".join(e.show() for e in evs if e.kind in ("branch", "call")))
        else:
            n_put += 1
            rep.check(len(puts) == 1, rule, fn.loc(), "without a stored state start() enqueues the initial trigger exactly once", fn.key,
                      "no-state path: " + " ; ".join(e.show() for e in evs if e.kind in ("branch", "call")))
    rep.floor(rule, "stored-state paths of start()", n_ret, 1)
    rep.floor(rule, "enqueuing paths of start()", n_put, 1)


def _is_initial_literal(ctx: Ctx, a: ast.AST, fn) -> bool:
    """The literal '__initial__', written out or through a module-level constant."""
    if isinstance(a, ast.Name):
        c = ctx.r.constant_tuple(a.id, fn)
        a = c if c is not None else a
    return isinstance(a, ast.Constant) and a.value == "__initial__"


def rule_identity(ctx: Ctx):
    """C11.who: what makes a trigger THE initial activation is that start() queued it - not the name of its event, which
    `sm.send("__initial__")` can produce at any time (and would re-enter the initial state from any state)."""
    from ..kernel import initial_test

    rep, k = ctx.rep, ctx.k
    n = 0
    attrs = set()
    for eng in k.engines:
        tr = k.engine_fn(eng, "_trigger")
        seen = set()
        for p in ctx.paths(tr, exc_edges="none"):
            for b in p.of("branch"):
                if initial_test(b.term) is None or id(b.node) in seen:
                    continue
                seen.add(id(b.node))
                n += 1
                sides = [b.term.left, b.term.comparators[0]]
                by_name = any(isinstance(c, ast.Constant) and c.value == "__initial__" for c in sides)
                ident = [c for c in sides if isinstance(c, ast.Attribute) and isinstance(c.value, ast.Name) and c.value.id == "self"]
                rep.check(not by_name and bool(ident) and isinstance(b.term.ops[0], (ast.Is, ast.IsNot)), "C11.who", b.loc(),
                          f"{eng.name}: the initial activation is recognised by the identity of the trigger start() queued (an event merely "
                          "named like it is an ordinary event)", tr.key, norm_stmt(b.node))
                attrs |= {c.attr for c in ident}
        if not seen:
            rep.violation("C11.who", tr.loc(), f"{eng.name}._trigger never asks whether the trigger is the initial activation start() queued "
                          "(the machine is never activated through this engine, or any event is taken for the activation)", tr.key,
                          "no test of the trigger against the remembered initial trigger")
    rep.floor("C11.who", "initial-trigger tests in _trigger", n, 1)
    st = ctx.fn("BaseEngine.start")
    ok = False
    for p in ctx.paths(st, inline=None, exc_edges="none"):
        puts = [e for e in p.calls() if k.calls_method(e, "put")]
        stores = {e.x.get("attr"): show(e.x["value"]) for e in p.of("store") if show(e.term.value) == "self"}
        if puts:
            arg = show(puts[0].term.args[0]) if puts[0].term.args else None
            # the queued object is the stored one: the same term, or the attribute read back after the store
            ok = bool(attrs) and all(a in stores and arg in (stores[a], f"self.{a}") for a in attrs)
            rep.check(ok, "C11.who", puts[0].loc(), "start() remembers exactly the trigger it queues", st.key,
                      f"put({arg}); remembered: {stores}")
    if attrs and not ok:
        rep.violation("C11.who", st.loc(), "start() does not remember the trigger it queues", st.key, "no store of the queued trigger")


def rule_who(ctx: Ctx):
    rep, k = ctx.rep, ctx.k
    g = callgraph(ctx)
    sites = []
    for fn in ctx.p.all_functions():
        for n in own_nodes(fn.node):
            if isinstance(n, ast.Call) and show(n.func) in ("BoundEvent", "Event", "TriggerData") and any(
                    _is_initial_literal(ctx, a, fn) for a in list(n.args) + [kw.value for kw in n.keywords]):
                sites.append((fn, n))
    rep.floor("C11.who", "constructions of the initial trigger", len(sites), 1)
    for fn, n in sites:
        ok_site = fn.qualname == "BaseEngine.start" or (ctx.is_new(fn) and g.only_reached_through(fn, {"start"}, {c.name for c in [k.base] + k.engines})[0])
        rep.check(ok_site, "C11.who", fn.loc(n), "the `__initial__` trigger is created only by start()", fn.key, norm_stmt(n))
    starts = [k.base.method("start")] + [e.method("start") for e in k.engines if e.method("start") is not None]
    n_callers = 0
    for s in [x for x in starts if x is not None]:
        for c, node, how in g.callers(s):
            n_callers += 1
            ok = c.qualname in ("StateMachine.__init__", "StateMachine.__setstate__") or (c.name == "start" and c.cls is not None and k.base in ctx.p.mro(c.cls))
            if not ok and ctx.is_new(c):
                # a helper introduced later: fine when every chain of callers ends in the constructor / __setstate__
                cs = g.callers(c)
                ok = bool(cs) and all(x.qualname in ("StateMachine.__init__", "StateMachine.__setstate__") or
                                      (ctx.is_new(x) and all(y.qualname in ("StateMachine.__init__", "StateMachine.__setstate__") for y, _, _ in g.callers(x)))
                                      for x, _, _ in cs)
            rep.check(ok, "C11.who", c.loc(node), "start() is invoked only when a machine object is (re)built", c.key, norm_stmt(node))
    rep.floor("C11.who", "callers of start()", n_callers, 2)
    for eng in k.engines:
        ai = k.engine_fn(eng, "activate_initial_state")
        reach = g.reachable([ai])
        bad = [f.key for f in reach if f.name in ("start", "put")]
        rep.check(not bad, "C11.who", ai.loc(), f"{eng.name}.activate_initial_state only drains the queue: re-activating is a no-op once the trigger was consumed",
                  ai.key, "reaches " + ", ".join(bad))
    # the sync engine drains right away, in the constructor
    for eng in k.engines:
        s = eng.method("start")
        if s is None:
            continue
        for p in ctx.paths(s, inline=None, exc_edges="none"):
            calls = [show(e.term.func) for e in p.calls() if not show(e.term.func).startswith(("logger.", "logging.", "log.", "_logger.", "LOGGER."))]
            if ctx.is_new(s):
                # an override introduced later on an engine that had none: it may only delegate (an engine that cannot drain
                # synchronously must not start anything on its own here)
                ok = calls == ["super().start"]
                rep.check(ok, "C11.who", s.loc(), f"{eng.name}.start() (a later override) only delegates to the base start", s.key, "; ".join(calls))
                continue
            ok = len(calls) >= 2 and calls[0].endswith(".start") and "super" in calls[0] and calls[1] == "self.activate_initial_state"
            rep.check(ok, "C11.who", s.loc(), f"{eng.name}.start(): base start (enqueue), then immediate activation", s.key, "; ".join(calls))


def rule_constructor(ctx: Ctx):
    from . import c05

    c05.rule_start(ctx, rule="C11.who")


def rule_reactivation(ctx: Ctx):
    c03.rule_guarded_pop(ctx, rule="C11.who")


def rule_model(ctx: Ctx):
    """C11.target: the machine is built over the model it was given (None-test), so a stored state is seen."""
    from . import c10

    c10.rule_model_choice(ctx, rule="C11.target")


def rule_sentinel(ctx: Ctx):
    c03.rule_first(ctx, rule="C11.sentinel")


def rule_target(ctx: Ctx, rule: str = "C11.target"):
    rep = ctx.rep
    fn = ctx.fn("StateMachine._get_initial_state")
    n = 0
    for p in ctx.paths(fn, inline=None, exc_edges="try"):
        evs = p.events
        sv = None
        for b in p.of("branch"):
            x = expand(b.term, evs)
            if isinstance(x, ast.Compare) and len(x.ops) == 1 and isinstance(x.ops[0], ast.Is) and {show(x.left), show(x.comparators[0])} == {"self.start_value", "None"}:
                sv = not b.x["taken"]
            elif show(x) == "self.start_value":
                rep.violation(rule, b.loc(), "start_value is tested for truthiness: a falsy start value (0) is ignored", fn.key, norm_stmt(b.node))
                sv = b.x["taken"]
        if p.kind == "return":
            n += 1
            v = xshow(p.value, evs)
            if sv is True:
                rep.check(v == "self.states_map[self.start_value]", rule, fn.loc(), "a given start_value selects the starting state", fn.key, f"return {v}")
            elif sv is False:
                rep.check(v == "self.states_map[self.initial_state.value]", rule, fn.loc(), "without start_value the declared initial state is used",
                          fn.key, f"return {v}")
            else:
                rep.violation(rule, fn.loc(), "the starting state is chosen without asking whether start_value was given", fn.key, f"return {v}")
        elif p.kind == "raise" and any(e.kind == "handler" for e in evs):
            v = xshow(p.value, evs)
            rep.check(v.startswith("InvalidStateValue("), rule, fn.loc(), "an unmapped start value raises InvalidStateValue", fn.key, f"raise {v}")
    rep.floor(rule, "returning paths of _get_initial_state", n, 2)
    it = ctx.fn(f"BaseEngine.{ctx.k.initial_transition_name}")
    for p in ctx.paths(it, inline=None, exc_edges="none"):
        v = xshow(p.value, p.events) if p.kind == "return" else ""
        rep.check("self.sm._get_initial_state()" in v, rule, it.loc(), "initial activation enters the state chosen by _get_initial_state", it.key, f"return {v}")


def rule_resumed_by_value(ctx: Ctx):
    """C11.target: a stored state is resumed as the state whose *value* it is: the map the accessors and the start-value lookup use is
    keyed by state values only (an id stored there as well would win over an equal value of another state, or make an id resumable)."""
    from . import c10

    c10.rule_mapping(ctx, rule="C11.target")


def rule_restore_gate(ctx: Ctx):
    """C11.guard: a restored machine activates only when the saved state says the original had not been activated (the model
    of a copy under construction may still be empty, so looking at it would re-enter the initial state)."""
    from . import c17

    c17.rule_steps(ctx, rule="C11.guard")


def rule_activation_not_requeued(ctx: Ctx):
    """C11.who: the activation trigger is recognised by identity and enters the initial state when it is processed: it is
    processed once because it is queued once - nothing but put() adds to the queue."""
    from . import c03

    c03.rule_producers(ctx, "C11.who")


def rule_right_engine_activates(ctx: Ctx):
    """C11.who: a machine with coroutine callbacks is activated by the async engine (before the first event, awaiting its
    enter callbacks): the flag that selects the engine says "coroutine" for every callable whose call hands back a coroutine -
    it is asked of the callable itself, not of what it wraps."""
    from . import c05

    c05.rule_flag_chain(ctx, rule="C11.who")


def rule_first_event_goes_through_the_loop(ctx: Ctx):
    """C11.who: the first event of a not-yet-activated (async) machine reaches the processing loop, where the queued activation
    runs first: `send()` does not answer on its own for any event name."""
    from . import c13

    c13.rule_send(ctx, rule="C11.who")


RULES = [rule_identity, rule_guard, rule_who, rule_constructor, rule_reactivation, rule_sentinel, rule_target, rule_model, rule_restore_gate, rule_activation_not_requeued, rule_right_engine_activates, rule_first_event_goes_through_the_loop, rule_resumed_by_value]
