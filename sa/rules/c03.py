"""C03 - Run-to-completion: nested events are queued, FIFO, never interleaved."""

from __future__ import annotations

import ast
from typing import Dict, List

from ..callgraph import CallGraph
from ..context import Ctx
from ..kernel import expand, xshow
from ..loader import AnalysisError, norm_stmt
from ..paths import show
from ..resolve import own_nodes
from .engine_model import trigger_param
from .loop_model import loop_paths

EXPLANATION = (
    "The enqueue/try-acquire/drain protocol is checked on every path of `Event.__call__` and of each engine's "
    "`processing_loop` (exceptional edges included): the trigger is enqueued before the loop is entered; the queue "
    "is a deque consumed at the end opposite to the producer; the lock is a non-reentrant Lock acquired only "
    "non-blockingly, a failed acquire returns None without touching queue, trigger or lock; `_trigger` is called "
    "only under the lock and only from the drain; the value returned is the first trigger result that is not the "
    "initial-activation sentinel; the non-RTC branch pops and triggers immediately without the lock; the call graph "
    "of the event path has no cycle, so the drain is a loop and nested sends cannot deepen the stack. Decides the "
    "structural clauses; stack-depth numbers and user code that bypasses the Event entry point are not decided."
)
EXPLANATION += (
    " " + 'Every returning path of an event call enqueues and enters the loop (nothing is decided at send time), and the lock typestate of C04.release is shared: a lock left held, also by a BaseException exit, makes every later call look nested.'
)
ASSUMPTIONS = ["user callbacks re-enter the machine only through Event.__call__ (send / event methods / bound events)"]
TRUSTED = ["collections.deque and threading.Lock semantics", "/verif/sa path enumerator and resolver"]

_cg_cache: Dict[int, CallGraph] = {}


def callgraph(ctx: Ctx) -> CallGraph:
    hit = _cg_cache.get(id(ctx))
    if hit is not None and hit[0] is ctx:  # (the context is kept alive with its graph: an id() is only unique among live objects)
        return hit[1]
    g = CallGraph(ctx.p, ctx.r)
    _cg_cache.clear()
    _cg_cache[id(ctx)] = (ctx, g)
    ctx.rep.extra["call_graph_sites"] = dict(g.stats)
    return g


def _sm_inline(callee, depth, node):
    return callee.cls is not None and callee.cls.name == "StateMachine" and callee.name.startswith("_") and depth <= 2


def rule_put(ctx: Ctx, rule="C03.put"):
    rep, k = ctx.rep, ctx.k
    fn = ctx.fn("Event.__call__")
    n = 0
    for p in ctx.paths(fn, inline=_sm_inline, exc_edges="none"):
        evs = p.events
        puts = [e for e in evs if e.kind == "call" and not ctx.is_new_call(e) and k.calls_method(e, "put") and any(t.cls is k.base or (t.cls and k.base in ctx.p.mro(t.cls)) for t in e.x["callee"].targets)]
        loops = [e for e in evs if e.kind == "call" and k.calls_method(e, "processing_loop")]
        if not loops:
            if p.kind in ("return", "fall"):
                rep.violation(rule, fn.loc(), "an event call returns without enqueuing the trigger and entering the processing loop: what happens "
                              "to the event is decided at send time instead of in queue order", fn.key,
                              f"path returns {xshow(p.value, evs) if p.value is not None else None} after: " +
                              "; ".join(f"{xshow(b.term, evs)}={b.x['taken']}" for b in p.of("branch"))[:200])
            continue
        n += 1
        ok = len(puts) == 1 and len(loops) == 1 and puts[0].idx < loops[0].idx
        rep.check(ok, rule, fn.loc(loops[0].node), "the trigger is enqueued (exactly once) before the processing loop is entered",
                  fn.key, "enqueue/drain order: " + " ; ".join(e.show() for e in evs if e in puts or e in loops))
        if puts:
            arg = expand(puts[0].term.args[0], evs) if puts[0].term.args else None
            okc = isinstance(arg, ast.Call) and show(arg.func) == "TriggerData"
            kws = {kw.arg: show(kw.value) for kw in arg.keywords} if okc else {}
            okc = okc and kws.get("event") == "self" and kws.get("machine") == "self._sm" and kws.get("args") == "args"
            rep.check(bool(okc), rule, puts[0].loc(), "what is enqueued is this event on this machine with the caller's arguments",
                      fn.key, f"put({show(arg)})", kwargs=kws)
    rep.floor(rule, "paths of Event.__call__ entering the loop", n, 1)
    put = ctx.fn("BaseEngine.put")
    for p in ctx.paths(put, exc_edges="none"):
        ops = [e for e in p.calls() if k.self_attr_op(e, k.queue_attr)]
        ok = len(ops) == 1 and k.self_attr_op(ops[0], k.queue_attr) in ("append", "appendleft") and \
            show(ops[0].term.args[0]) == put.params[1]
        rep.check(ok, rule, put.loc(), "put() adds exactly the given trigger to the queue", put.key,
                  "; ".join(e.show() for e in ops) or "no queue operation")


def queue_ops(ctx: Ctx):
    """Every syntactic use of the queue attribute in the package: (fn, node, kind, op)."""
    k = ctx.k
    out = []
    for fn in ctx.p.all_functions():
        for n in own_nodes(fn.node):
            if isinstance(n, ast.Attribute) and n.attr == k.queue_attr:
                parent_call = None
                out.append((fn, n))
    return out


def rule_producers(ctx: Ctx, rule: str):
    """Only put() adds to the queue (a trigger that was taken out - e.g. the activation trigger - is never put back)."""
    rep, k = ctx.rep, ctx.k
    n = 0
    for fn in ctx.p.all_functions():
        for nd in own_nodes(fn.node):
            if isinstance(nd, ast.Call) and isinstance(nd.func, ast.Attribute) and isinstance(nd.func.value, ast.Attribute) \
                    and nd.func.value.attr == k.queue_attr and nd.func.attr in ("append", "appendleft", "insert", "extend", "extendleft"):
                n += 1
                rep.check(fn.name == "put" and fn.cls is k.base, rule, fn.loc(nd), "only put() adds to the queue: a trigger that was taken out "
                          "(the activation trigger included) is never queued a second time", fn.key, norm_stmt(nd))
    rep.floor(rule, "producer sites", n, 1)


def rule_fifo(ctx: Ctx):
    rep, k = ctx.rep, ctx.k
    rep.check(k.queue_ctor == "deque", "C03.fifo", ctx.p.cls("BaseEngine").method("__init__").loc(),
              "the event queue is a collections.deque", "BaseEngine.__init__", f"self.{k.queue_attr} = {k.queue_ctor}()")
    producers, consumers, others = [], [], []
    for fn in ctx.p.all_functions():
        for n in own_nodes(fn.node):
            if isinstance(n, ast.Call) and isinstance(n.func, ast.Attribute) and isinstance(n.func.value, ast.Attribute) \
                    and n.func.value.attr == k.queue_attr:
                op = n.func.attr
                if op in ("append", "appendleft"):
                    producers.append((fn, n, op))
                elif op in ("popleft", "pop"):
                    consumers.append((fn, n, op))
                else:
                    others.append((fn, n, op))
    rep.floor("C03.fifo", "producer sites", len(producers), 1)
    rep.floor("C03.fifo", "consumer sites", len(consumers), len(k.engines))
    pend = {op for _, _, op in producers}
    cend = {op for _, _, op in consumers}
    rep.check(len(pend) == 1, "C03.fifo", producers[0][0].loc(producers[0][1]), "all producers use the same end of the queue",
              producers[0][0].key, f"producer ends: {sorted(pend)}")
    for fn, n, op in consumers:
        want = {"append": "popleft", "appendleft": "pop"}.get(next(iter(pend)))
        rep.check(op == want and len(cend) == 1, "C03.fifo", fn.loc(n),
                  f"events are consumed at the end opposite to the producer ({next(iter(pend))}/{want}) => FIFO", fn.key, norm_stmt(n),
                  consumer=op)
    for fn, n, op in producers:
        rep.check(fn.name == "put" and fn.cls is k.base, "C03.fifo", fn.loc(n), "only put() adds to the queue", fn.key, norm_stmt(n))
    for fn, n, op in others:
        if op == "clear":
            inside_handler = any(isinstance(h, ast.ExceptHandler) and any(x is n for x in ast.walk(h)) for h in ast.walk(fn.node))
            in_drain = fn.name == "processing_loop" or (
                fn.cls is not None and k.base in ctx.p.mro(fn.cls) and
                callgraph(ctx).only_reached_through(fn, {"processing_loop"}, {c.name for c in [k.base] + k.engines})[0])
            rep.check(inside_handler and in_drain, "C03.fifo", fn.loc(n),
                      "the queue is emptied only by the failure handler of the drain", fn.key, norm_stmt(n))
        else:
            rep.violation("C03.fifo", fn.loc(n), f"unexpected queue operation `{op}` (can reorder or drop pending events)", fn.key, norm_stmt(n))


def rule_elect(ctx: Ctx, rule="C03.elect"):
    rep, k = ctx.rep, ctx.k
    rep.check(k.lock_ctor == "Lock", rule, ctx.p.cls("BaseEngine").method("__init__").loc(),
              "the drainer is elected with a non-reentrant threading.Lock", "BaseEngine.__init__",
              f"self.{k.lock_attr} = {k.lock_ctor}()")
    for eng in k.engines:
        fn, lps = loop_paths(ctx, eng)
        n_acq = 0
        for lp in lps:
            if lp.rtc is False:
                continue
            syms = lp.syms
            for i, s in enumerate(syms):
                if s.kind == "ACQ":
                    n_acq += 1
                    rep.check(s.info["op"] == "nonblocking", rule, s.ev.loc(), f"{eng.name}: the lock is only ever tried, never waited for",
                              fn.key, norm_stmt(s.ev.node), call=s.info["call"])
                if s.kind == "LOCKOP":
                    rep.violation(rule, s.ev.loc(), f"{eng.name}: unexpected lock operation {s.info['op']}", fn.key, norm_stmt(s.ev.node))
                if s.kind == "ACQ?" and s.info["taken"] is False:
                    rest = syms[i + 1:]
                    bad = [r for r in rest if r.kind in ("POP", "TRIG", "REL", "CLEAR", "QOP", "ACQ")]
                    rep.check(not bad, rule, s.ev.loc(),
                              f"{eng.name}: a caller that lost the election touches neither queue, trigger nor lock", fn.key,
                              "after failed acquire: " + " ".join(repr(r) for r in rest), path=lp.names())
            first_acq = next((i for i, s in enumerate(syms) if s.kind == "ACQ?"), None)
            if first_acq is None:
                if any(s.kind in ("POP", "TRIG") for s in syms):
                    rep.violation(rule, fn.loc(), f"{eng.name}: the run-to-completion branch drains without electing a drainer", fn.key,
                                  "path: " + " ".join(lp.names()))
                continue
            if syms[first_acq].info["taken"] is False:
                ret = syms[-1]
                ok = ret.kind == "RET" and ret.info["value"] == "None" and len(syms) == first_acq + 2
                rep.check(ok, rule, syms[first_acq].ev.loc(), f"{eng.name}: the losing caller returns None immediately", fn.key,
                          "path: " + " ".join(lp.names()))
            before = syms[:first_acq]
            bad = [r for r in before if r.kind in ("POP", "TRIG", "REL", "CLEAR")]
            rep.check(not bad, rule, fn.loc(), f"{eng.name}: nothing is consumed before the election", fn.key,
                      "before first acquire: " + " ".join(repr(r) for r in before))
        rep.floor(rule, f"acquire sites on paths of {eng.name}.processing_loop", n_acq, 1)


def rule_rtc(ctx: Ctx):
    rep, k = ctx.rep, ctx.k
    g = callgraph(ctx)
    fam = {c.name for c in [k.base] + k.engines}
    for eng in k.engines:
        tr = k.engine_fn(eng, "_trigger")
        ok, bad = g.only_reached_through(tr, {"processing_loop"}, fam)
        rep.check(ok, "C03.rtc", tr.loc(), f"{eng.name}._trigger is called only from the processing loop", tr.key,
                  "other callers: " + ", ".join(bad), callers=[c[0].key for c in g.callers(tr)])
        act = k.engine_fn(eng, "_activate")
        ok, bad = g.only_reached_through(act, {"_trigger"}, fam)
        rep.check(ok, "C03.rtc", act.loc(), f"{eng.name}._activate is called only from _trigger", act.key,
                  "other callers: " + ", ".join(bad), callers=[c[0].key for c in g.callers(act)])
        pl = k.engine_fn(eng, "processing_loop")
        allowed = {"_processing_loop", "activate_initial_state"}
        for c, node, how in g.callers(pl):
            rep.check(c.name in allowed or (c.cls is not None and c.cls.name in fam and c.name == "start"), "C03.rtc", c.loc(node),
                      f"{eng.name}.processing_loop is entered only through the machine's facade or initial activation", c.key,
                      norm_stmt(node))
        ai = k.engine_fn(eng, "activate_initial_state")
        for p in ctx.paths(ai, exc_edges="none"):
            calls = [e for e in p.calls() if e.x["callee"] and e.x["callee"].how in ("typed", "by_name")]
            ok = len(calls) == 1 and k.calls_method(calls[0], "processing_loop") and p.kind == "return" and \
                show(p.value) == f"$c{calls[0].idx}"
            rep.check(ok, "C03.rtc", ai.loc(), f"{eng.name}.activate_initial_state only drains the queue through processing_loop",
                      ai.key, "; ".join(e.show() for e in calls))
        # typestate: every _trigger in the RTC branch runs under the lock
        fn, lps = loop_paths(ctx, eng)
        n = 0
        for lp in lps:
            if lp.rtc is False:
                continue
            for s in lp.syms:
                if s.kind == "TRIG":
                    n += 1
                    rep.check(bool(s.locked), "C03.rtc", s.ev.loc(), f"{eng.name}: a transition only ever runs in the elected drainer (lock held)",
                              fn.key, norm_stmt(s.ev.node), path=lp.names())
        rep.floor("C03.rtc", f"_trigger sites on RTC paths of {eng.name}", n, 1)
    facade = ctx.fn("StateMachine._processing_loop")
    for c, node, how in g.callers(facade):
        rep.check(c.key.endswith("Event.__call__"), "C03.rtc", c.loc(node), "the machine's loop facade is reached only from Event.__call__",
                  c.key, norm_stmt(node))
    rep.floor("C03.rtc", "callers of StateMachine._processing_loop", len(g.callers(facade)), 1)
    # library code that calls an event from inside a transition is listed by name
    em = ctx.p.find_fn("statemachine/dispatcher.py::event_method.method")
    if em is None:
        raise AnalysisError("anchor lost: dispatcher.event_method.method")
    rep.ok("C03.rtc", em.loc(), "event-name-as-action adapter (`event_method`) re-enters through Event.__call__ by calling the Event object")


def rule_first(ctx: Ctx, rule: str = "C03.first"):
    rep, k = ctx.rep, ctx.k
    S = f"self.{k.sentinel_attr}"
    for eng in k.engines:
        fn, lps = loop_paths(ctx, eng, exc_edges="none")
        n = 0
        for lp in lps:
            if lp.rtc is False or lp.path.kind != "return":
                continue
            trigs = [s.info["id"] for s in lp.syms if s.kind == "TRIG"]
            facts = {}
            for b in lp.path.of("branch"):
                t = b.term
                if isinstance(t, ast.Compare) and len(t.ops) == 1 and isinstance(t.ops[0], (ast.Is, ast.IsNot)):
                    a, c = show(t.left), show(t.comparators[0])
                    other = a if c == S else (c if a == S else None)
                    if other is not None:
                        pol = b.x["taken"] if isinstance(t.ops[0], ast.Is) else (not b.x["taken"])
                        facts[other] = pol
            v = show(lp.path.value)
            n += 1
            if v == "None":
                ok = all(facts.get(t) is True for t in trigs)
                rep.check(ok, rule, fn.loc(), f"{eng.name}: None is returned only when no processed event produced a result",
                          fn.key, f"return None with trigger results {trigs} and sentinel facts {facts}")
            elif v in trigs:
                i = trigs.index(v)
                ok = all(facts.get(t) is True for t in trigs[:i]) and facts.get(v) is False
                rep.check(ok, rule, fn.loc(), f"{eng.name}: the caller gets the result of the first event it caused to be processed",
                          fn.key, f"return {v} with trigger results {trigs} and sentinel facts {facts}")
            else:
                rep.violation(rule, fn.loc(), f"{eng.name}: the loop returns `{xshow(lp.path.value, lp.path.events)}`, not a trigger result",
                              fn.key, f"return {v}")
        rep.floor(rule, f"normal exits of {eng.name}.processing_loop", n, 3)
        tr = k.engine_fn(eng, "_trigger")
        seen = False
        for p in ctx.paths(tr, exc_edges="none"):
            from ..kernel import initial_test

            init = [b for b in p.of("branch") if initial_test(b.term) is not None]
            if init and (init[0].x["taken"] is initial_test(init[0].term)) and p.kind == "return":
                seen = True
                rep.check(show(p.value) == S, rule, tr.loc(),
                          f"{eng.name}: initial activation yields the sentinel, so it never becomes a caller's result", tr.key,
                          f"return {show(p.value)}")
        if not seen:
            raise AnalysisError(f"anchor lost: initial branch of {tr.key}")


def rule_nonrtc(ctx: Ctx):
    rep, k = ctx.rep, ctx.k
    n_branches = 0
    for eng in k.engines:
        fn, lps = loop_paths(ctx, eng, exc_edges="none")
        for lp in lps:
            if lp.rtc is not False:
                continue
            n_branches += 1
            kinds = [s.kind for s in lp.syms if s.kind not in ("RTC?", "QTEST")]
            if kinds == ["RET"] and lp.syms[-1].info["value"] == "None" and any(s.kind == "QTEST" and s.info["taken"] is False for s in lp.syms):
                rep.ok("C03.nonrtc", fn.loc(), f"{eng.name}: with rtc=False and nothing queued the loop returns None")
                continue
            ok = kinds[:2] == ["POP", "TRIG"] and kinds[-1] == "RET" and not any(x in kinds for x in ("ACQ", "REL", "ACQ?"))
            core = [s for s in lp.syms if s.kind in ("POP", "TRIG")]
            pop, trig = (core[0], core[1]) if ok else (None, None)
            ok = ok and pop.info["op"] == "popleft" and trig.info["arg"] == pop.info["id"] and lp.syms[-1].info["value"] == trig.info["id"]
            rep.check(ok, "C03.nonrtc", fn.loc(), f"{eng.name}: with rtc=False the event is taken and run at once, returning its own result",
                      fn.key, "non-RTC path: " + " ".join(lp.names()))
        init = eng.method("__init__")
        has_rtc_branch = any(lp.rtc is not None for lp in lps)
        if not has_rtc_branch:
            ok = False
            if init is not None:
                for p in ctx.paths(init, exc_edges="none"):
                    if p.kind == "raise":
                        conds = [(show(b.term), b.x["taken"]) for b in p.of("branch")]
                        if ("rtc", False) in conds and "InvalidDefinition" in xshow(p.value, p.events):
                            ok = True
            rep.check(ok, "C03.nonrtc", (init or fn).loc(), f"{eng.name} has no immediate mode and refuses rtc=False at construction",
                      (init or fn).key, "no `if not rtc: raise InvalidDefinition`")
    rep.floor("C03.nonrtc", "non-RTC branches", n_branches, 1)
    ge = ctx.fn("StateMachine._get_engine")
    for p in ctx.paths(ge, exc_edges="none"):
        v = expand(p.value, p.events) if p.kind == "return" else None
        ok = isinstance(v, ast.Call) and any(kw.arg == "rtc" and show(kw.value) == "rtc" for kw in v.keywords)
        rep.check(ok, "C03.nonrtc", ge.loc(), "the engine is built with the machine's rtc option", ge.key, f"return {show(v)}")


def rule_guarded_pop(ctx: Ctx, rule: str = "C03.nonrtc"):
    """Every consumer operation is preceded, on its path, by an observation that the queue is non-empty
    since the previous pop (so activating with nothing queued is a no-op in both processing modes)."""
    rep, k = ctx.rep, ctx.k
    for eng in k.engines:
        fn, lps = loop_paths(ctx, eng, exc_edges="none")
        n = 0
        for lp in lps:
            nonempty_seen = False
            for s in lp.syms:
                if s.kind == "QTEST":
                    nonempty_seen = bool(s.info["taken"])
                elif s.kind == "POP":
                    n += 1
                    rep.check(nonempty_seen, rule, s.ev.loc(),
                              f"{eng.name}: an event is taken from the queue only after the queue was seen non-empty "
                              f"({'immediate' if lp.rtc is False else 'run-to-completion'} mode)", fn.key, norm_stmt(s.ev.node), path=lp.names()[:12])
                    nonempty_seen = False
        rep.floor(rule, f"pop sites on paths of {eng.name}.processing_loop", n, 2)


def rule_depth(ctx: Ctx):
    rep, k = ctx.rep, ctx.k
    g = callgraph(ctx)
    root = ctx.fn("Event.__call__")
    reach = g.reachable([root])
    rep.floor("C03.depth", "functions reachable from Event.__call__", len(reach), 30)
    for eng in k.engines:
        for nm in ("processing_loop", "_trigger", "_activate"):
            f = k.engine_fn(eng, nm)
            if f not in reach:
                raise AnalysisError(f"call graph lost the edge to {f.key}")
    cyc = g.cycles(reach)
    if not cyc:
        rep.ok("C03.depth", root.loc(), "the resolved call graph of the event path is acyclic: processing is a loop, not recursion",
               functions=len(reach), by_name_edges=g.stats.get("by_name", 0))
    for c in cyc:
        keys = sorted(f.key for f in c)
        rep.violation("C03.depth", c[0].loc(), "recursion on the event path (a chain of events would deepen the stack)",
                      keys[0], "cycle: " + " -> ".join(keys))
    # the only library-level ways back in are callback slots
    n_slots = sum(len(v) for f, v in g.slots.items() if f in reach)
    rep.ok("C03.depth", root.loc(), "re-entry is possible only through callback slots, i.e. through Event.__call__ again",
           callback_slot_sites=n_slots)
    rep.floor("C03.depth", "callback slot sites on the event path", n_slots, 4)


def rule_release(ctx: Ctx):
    """C03.release: a lock left held by any exit (incl. BaseException: CancelledError, KeyboardInterrupt) makes every later
    outermost call look nested - its event is queued and never run."""
    from . import c04

    c04.rule_release(ctx, rule="C03.release")
    # triggers left queued by a failure run in front of the next outermost call, which then returns THEIR result
    c04.rule_clear(ctx, rule="C03.first")


def rule_one_engine(ctx: Ctx, rule: str = "C03.elect"):
    """One queue and one lock per machine for its whole life: the engine (which owns both) is installed when the machine
    is built or restored and never replaced - a second engine would have a free lock and an empty queue while the first
    one is still draining (nested sends would start at once instead of being queued)."""
    rep = ctx.rep
    g = callgraph(ctx)
    sm = ctx.p.cls("StateMachine")
    family = {sm.name} | {c.name for c in ctx.p.subclasses(sm)}
    n = 0
    for fn in ctx.p.all_functions():
        if isinstance(fn.node, ast.Lambda):
            continue
        for nd in own_nodes(fn.node):
            is_store = isinstance(nd, ast.Attribute) and isinstance(nd.ctx, (ast.Store, ast.Del)) and nd.attr == "_engine"
            is_setattr = isinstance(nd, ast.Call) and isinstance(nd.func, ast.Name) and nd.func.id == "setattr" and len(nd.args) >= 2 \
                and isinstance(nd.args[1], ast.Constant) and nd.args[1].value == "_engine"
            if not (is_store or is_setattr):
                continue
            n += 1
            ok = fn.cls is not None and fn.cls.name in family and fn.name in ("__init__", "__setstate__")
            if not ok and ctx.is_new(fn):  # a helper introduced later (method or module function)
                ok = g.only_reached_through(fn, {"__init__", "__setstate__"}, family)[0]
            rep.check(ok, rule, fn.loc(nd), "the engine is installed only while the machine is built or restored", fn.key, norm_stmt(nd))
    rep.floor(rule, "sites that install the engine", n, 2)


def rule_result_is_the_events_own(ctx: Ctx):
    """C03.first: what the outermost call returns is the result of the first event as that event's transition produced it -
    `None`, the single value or the list, whatever the value is (0, False and '' are results, not "no result")."""
    from . import c14

    c14.rule_flow(ctx, flow="C03.first", unwrap="C03.first")


def rule_send_only_enqueues(ctx: Ctx):
    """C03.put: `send()` decides nothing itself (no early raise, no early return): every event, known or not, is called and so
    queued behind the transition in progress."""
    from . import c13

    c13.rule_send(ctx, rule="C03.put")


RULES = [rule_put, rule_fifo, rule_elect, rule_rtc, rule_first, rule_nonrtc, rule_guarded_pop, rule_depth, rule_release, rule_one_engine, rule_result_is_the_events_own, rule_send_only_enqueues]
