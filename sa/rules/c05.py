"""C05 - Async callbacks behave exactly like their synchronous counterparts."""

from __future__ import annotations

import ast
import os
import re
from typing import Dict, List, Set

from ..awaitflow import MA_SLOTS, SYNC_WORLD, AwaitFlow, effective_ma_slots
from ..context import Ctx
from ..kernel import expand, xshow
from ..loader import AnalysisError, FuncInfo, Program, norm_stmt
from ..paths import Path, show, N
from ..resolve import own_nodes
from . import c01, c14

EXPLANATION = (
    "Sibling agreement: the abstract traces (calls with substituted arguments, stores, branch decisions, loop and "
    "handler events, returns) of `processing_loop`, `_trigger`, `_activate` of the sync and async engines are compared "
    "path by path modulo {await, async_call<->call, async_all<->all}; the wrapper's `__call__`/`call` and the executors' "
    "async/sync pairs are held to the same specification. Await discipline: a maybe-awaitable effect analysis over the "
    "whole package proves that no value coming from an `async def`, from a callback slot or from a function that may "
    "return an un-awaited awaitable reaches a non-awaiting use (boolean context, operator, foreign call, drop) and that no "
    "started coroutine is abandoned by an early exit of an `as_completed` consumer. Flag propagation: every builder that can "
    "wrap a coroutine function must publish `is_coroutine`. Facade: send / Event.__call__ / activate_initial_state route "
    "awaitables through isawaitable -> run_async_from_sync (per-thread loop). Start: the constructor enqueues `__initial__` "
    "before any event. No fire-and-forget scheduling exists. The relational equivalence of user-visible traces for "
    "arbitrary machines is not decided."
)
ASSUMPTIONS = ["the sync world (CallbackWrapper.call, sync executors, SyncEngine) is entered only when no registered wrapper is a "
               "coroutine - turned into obligations C05.flag and C12.engine",
               "callback slots not listed in awaitflow.MA_SLOTS hold library-made synchronous callables (listed in evidence)"]
TRUSTED = ["asyncio.gather / as_completed semantics", "/verif/sa path enumerator and resolver"]

RENAMES = [("async_call", "call"), ("async_all", "all")]
SKIP_KINDS = {"bind", "enter", "leave", "def", "assume"}


PURE_BUILTINS = {"bool", "len", "isinstance", "str", "id", "hasattr", "callable", "iter", "list", "tuple"}


def _length_test(t: ast.AST, taken: bool):
    """(object term, admitted lengths among 0..3) when the branch asks about the length / emptiness of a list-valued term
    (a sum of results, a `$l`/`$c` collection); None otherwise."""
    import operator as _op

    ops = {ast.Eq: _op.eq, ast.NotEq: _op.ne, ast.Lt: _op.lt, ast.LtE: _op.le, ast.Gt: _op.gt, ast.GtE: _op.ge}
    while isinstance(t, ast.UnaryOp) and isinstance(t.op, ast.Not):
        t, taken = t.operand, not taken
    if isinstance(t, ast.Compare) and len(t.ops) == 1 and type(t.ops[0]) in ops:
        l, r = t.left, t.comparators[0]
        if isinstance(l, ast.Call) and isinstance(l.func, ast.Name) and l.func.id == "len" and len(l.args) == 1 and isinstance(r, ast.Constant) \
                and type(r.value) is int:
            f = ops[type(t.ops[0])]
            return l.args[0], [n for n in (0, 1, 2, 3) if f(n, r.value) == taken]
        if isinstance(r, ast.Call) and isinstance(r.func, ast.Name) and r.func.id == "len" and len(r.args) == 1 and isinstance(l, ast.Constant) \
                and type(l.value) is int:
            f = ops[type(t.ops[0])]
            return r.args[0], [n for n in (0, 1, 2, 3) if f(l.value, n) == taken]
        return None
    if isinstance(t, ast.Call) and isinstance(t.func, ast.Name) and t.func.id == "len" and len(t.args) == 1:
        return t.args[0], [n for n in (0, 1, 2, 3) if (n > 0) == taken]
    # truthiness of a value known to be a list: a concatenation of call results (`before + on` results)
    if isinstance(t, ast.BinOp) and isinstance(t.op, ast.Add):
        return t, [n for n in (0, 1, 2, 3) if (n > 0) == taken]
    return None


def _canon_trace(ctx: Ctx, p: Path, drop_rtc: bool) -> List[str]:
    """Semantic trace of a path: effectful calls, stores, decisions, loop heads, handlers, outcome - with helper
    artefacts (inlined calls, objects built by helpers, `finally`/`with` markers, pure builtins) removed, conditions
    written over what they test (`bool(q)` == `q`), and placeholders renumbered by first appearance."""
    from ..kernel import expand1

    out: List[str] = []
    ren: Dict[str, str] = {}
    evs = p.events
    inlined = {e.idx for e in evs if e.kind == "call" and e.idx + 1 < len(evs) and evs[e.idx + 1].kind == "enter"}
    pure = {f"$c{e.idx}" for e in evs if e.kind == "call" and isinstance(e.term.func, ast.Name) and e.term.func.id in PURE_BUILTINS
            and e.x.get("callee") is not None and e.x["callee"].how == "builtin"}

    class _Pure(ast.NodeTransformer):
        def visit_Name(self, n):
            if n.id in pure:
                t = self.visit(expand1(n, evs))
                if isinstance(t, ast.Call) and isinstance(t.func, ast.Name) and t.func.id == "bool" and len(t.args) == 1:
                    return t.args[0]
                return t
            return n

    def canon(t) -> str:
        if t is None:
            return ""
        import copy

        t = _Pure().visit(copy.deepcopy(t))
        if isinstance(t, ast.Call) and isinstance(t.func, ast.Name) and t.func.id == "bool" and len(t.args) == 1:
            t = t.args[0]
        txt = show(t)
        for a, b in RENAMES:
            txt = re.sub(rf"\b{a}\b", b, txt)

        def sub(m):
            nm = m.group(0)
            if nm not in ren:
                ren[nm] = f"${m.group(1)}#{len(ren)}"
            return ren[nm]

        return re.sub(r"\$([cpwkl])\d+|\$(exc)\d+", lambda m: sub(m) if m.group(1) else "$exc", txt)

    def push(item: str):
        if out and out[-1] == item and item.startswith("branch "):
            return  # the same decision observed twice in a row
        out.append(item)

    for e in evs:
        if e.kind in SKIP_KINDS or e.kind in ("finally", "with", "alloc"):
            continue
        if e.kind == "comp" and isinstance(e.term, ast.GeneratorExp):
            continue  # creating a generator does nothing yet: what it does shows where it is iterated
        if e.kind == "call":
            if e.idx in inlined or f"$c{e.idx}" in pure:
                continue
            push("call " + canon(e.term))
        elif e.kind == "prop":
            push("read " + canon(e.term))
        elif e.kind == "store":
            if isinstance(e.term, ast.Attribute) and isinstance(e.term.value, ast.Name) and e.term.value.id.startswith("$new:"):
                continue  # field of a helper object built on this path
            push("store " + canon(e.term) + " = " + canon(e.x.get("value")))
        elif e.kind == "branch":
            if drop_rtc and show(e.term) == "self._rtc":
                continue
            lt = _length_test(_Pure().visit(__import__("copy").deepcopy(e.term)), e.x["taken"])
            if lt is not None:
                # `len(x) == 0`, `not x`, `len(x) > 0` ... are the same question about x: written as the set of lengths it admits
                push(f"branch len({canon(lt[0])}) in {lt[1]}")
            else:
                push(f"branch {canon(e.term)} -> {e.x['taken']}")
        elif e.kind == "iter":
            if e.x.get("loop") == "for":
                push(f"iter {canon(e.term)}")
        elif e.kind == "exhaust":
            push("exhaust " + canon(e.term))
        elif e.kind == "handler":
            push("handler " + canon(e.term))
        elif e.kind == "throw":
            push("throw")
        elif e.kind == "await":
            push("await " + canon(e.term))
        elif e.kind == "return":
            if e.depth == 0:
                push("return " + canon(e.term))
        elif e.kind == "raise":
            push("raise " + canon(e.term))
        elif e.kind == "comp":
            push("comp " + canon(e.term))
        elif e.kind in ("yield", "delete"):
            push(e.kind + " " + canon(e.term))
    out.append(f"=> {p.kind} {canon(p.value) if p.value is not None else ''}")
    return out


def _param_bindings(fn: FuncInfo) -> Dict[str, ast.AST]:
    out = {}
    for i, nm in enumerate(fn.params):
        if nm != "self":
            out[nm] = N(f"arg{i}")
    return out


def rule_sibling(ctx: Ctx):
    rep, k = ctx.rep, ctx.k
    sync_engs = [e for e in k.engines if not k.engine_fn(e, "_activate").is_async]
    async_engs = [e for e in k.engines if k.engine_fn(e, "_activate").is_async]
    if not sync_engs or not async_engs:
        raise AnalysisError("anchor lost: need one sync and one async engine")
    s_eng, a_eng = sync_engs[0], async_engs[0]
    for name in ("_activate", "_trigger", "processing_loop"):
        fs, fa = k.engine_fn(s_eng, name), k.engine_fn(a_eng, name)
        exc = "try" if name == "processing_loop" else "none"
        ps = ctx.paths(fs, exc_edges=exc, bindings=_param_bindings(fs))
        pa = ctx.paths(fa, exc_edges=exc, bindings=_param_bindings(fa))
        rep.note_fn(fs)
        rep.note_fn(fa)
        ts: Dict[str, List[str]] = {}
        for p in ps:
            if name == "processing_loop" and any(e.kind == "branch" and show(e.term) == "self._rtc" and e.x["taken"] is False for e in p.events):
                continue  # the async engine is RTC-only: the single listed exception
            tr = _canon_trace(ctx, p, drop_rtc=True)
            ts["\n".join(tr)] = tr
        ta: Dict[str, List[str]] = {}
        for p in pa:
            tr = _canon_trace(ctx, p, drop_rtc=True)
            ta["\n".join(tr)] = tr
        only_s = [ts[x] for x in ts if x not in ta]
        only_a = [ta[x] for x in ta if x not in ts]
        if not only_s and not only_a:
            rep.ok("C05.sibling", fa.loc(), f"{a_eng.name}.{name} and {s_eng.name}.{name} have equal abstract traces modulo await",
                   traces=len(ts), sample=next(iter(ts.values()))[:12])
        else:
            # report the first point of divergence of the closest pair
            def closest(tr, pool):
                best, bi = None, -1
                for cand in pool:
                    i = 0
                    while i < min(len(tr), len(cand)) and tr[i] == cand[i]:
                        i += 1
                    if i > bi:
                        best, bi = cand, i
                return best, bi

            src = only_a[0] if only_a else only_s[0]
            other, i = closest(src, list(ts.values()) if only_a else list(ta.values()))
            a_side = src[i] if i < len(src) else "<end>"
            o_side = other[i] if other is not None and i < len(other) else "<end>"
            who = (a_eng.name, s_eng.name) if only_a else (s_eng.name, a_eng.name)
            rep.violation("C05.sibling", fa.loc(), f"{a_eng.name}.{name} deviates from {s_eng.name}.{name}: after {i} equal steps "
                          f"{who[0]} does `{a_side}` where {who[1]} does `{o_side}`", fa.key,
                          f"{name}: {who[0]} `{a_side}` vs {who[1]} `{o_side}`",
                          only_async=len(only_a), only_sync=len(only_s), common_prefix=src[max(0, i - 3):i])
        rep.floor("C05.sibling", f"traces of {name}", min(len(ts), len(ta)), 2)
    rule_wrapper(ctx)
    # executors: both held to the same all-of / filtered-collect specification
    c01.rule_allof(ctx, rule="C05.sibling")
    c14.rule_collect(ctx, rule="C05.sibling")


def rule_wrapper(ctx: Ctx, rule: str = "C05.sibling"):
    rep = ctx.rep
    # wrapper twins
    wc, wa = ctx.fn("CallbackWrapper.call"), ctx.fn("CallbackWrapper.__call__")
    ts = set()
    for p in ctx.paths(wc, exc_edges="none"):
        ts.add("\n".join(_wrapper_canon(p)))
    ta = set()
    for p in ctx.paths(wa, exc_edges="none"):
        ta.add("\n".join(_wrapper_canon(p)))
    rep.check(ts == ta, rule, wa.loc(), "CallbackWrapper.__call__ equals CallbackWrapper.call once awaitable results are awaited",
              wa.key, "wrapper twins differ: " + " | ".join(sorted(ta ^ ts))[:300])


def _wrapper_canon(p: Path) -> List[str]:
    """Trace of a wrapper twin with the isawaitable/await idiom folded away."""
    out = []
    evs = p.events
    guard_ids = set()
    for e in evs:
        if e.kind == "call" and show(e.term.func) in ("isawaitable", "inspect.isawaitable"):
            guard_ids.add(f"$c{e.idx}")

    def canon(t):
        txt = show(expand(t, evs)) if t is not None else ""
        return txt.replace("await ", "")

    for e in evs:
        if e.kind == "call" and f"$c{e.idx}" in guard_ids:
            continue
        if e.kind == "branch" and show(e.term) in guard_ids:
            continue
        if e.kind in ("await", "bind", "return"):
            continue
        if e.kind == "call":
            out.append("call " + canon(e.term))
        elif e.kind == "branch":
            out.append(f"branch {canon(e.term)} -> {e.x['taken']}")
        elif e.kind == "store":
            out.append("store " + canon(e.term))
    out.append(f"=> {p.kind} {canon(p.value)}")
    return out


def rule_await(ctx: Ctx):
    rep = ctx.rep
    af = AwaitFlow(ctx, sync_world_classes=[e.name for e in ctx.k.engines if not ctx.k.engine_fn(e, "_activate").is_async])
    af.run()
    rep.floor("C05.await", "functions containing maybe-awaitable sources", len(af.functions_with_sources), 12)
    rep.count("ma_functions_analysed", len(af.analysed))
    rep.count("ma_legal_uses", af.legal_uses)
    rep.count("sync_world_consumptions", len(af.sync_world_consumptions))
    rep.extra["ma_summaries_returning_awaitable"] = sorted(k.split("::")[1] for k in af.returns_ma)
    rep.extra["ma_slots"] = effective_ma_slots(ctx)
    rep.extra["sync_world"] = SYNC_WORLD
    flagged = {f.fn.key for f in af.findings}
    for fn in af.functions_with_sources:
        if fn.key not in flagged:
            rep.ok("C05.await", fn.loc(), f"every maybe-awaitable value in {fn.qualname} reaches an awaiting sink"
                   + (" (sync world: consumption legal under the engine-selection invariant)" if af.in_sync_world(fn) else ""))
    for f in af.findings:
        rep.violation("C05.await", f.fn.loc(f.node), f.what, f.fn.key, f.stmt, kind=f.kind)
    ctx._awaitflow = af


def rule_flag(ctx: Ctx, rule: str = "C05.flag"):
    """Every builder whose returned closure invokes an MA slot un-awaited... or awaited ... must
    publish `is_coroutine` on the closure (so has_async_callbacks, hence the engine choice, sees it)."""
    rep = ctx.rep
    exempt = {"event_method": "wraps an Event call: awaitable only under the async engine, where wrappers await awaitable results",
              "attr_method": "plain attribute read (attrgetter), not a call of a user function"}
    n = 0
    from ..shapes import closure_models

    slots = effective_ma_slots(ctx)
    for b in ctx.p.all_functions():
        if isinstance(b.node, ast.Lambda) or ctx.is_new(b):
            continue
        has_nested = any(c.parent is b for c in b.module.all_functions)
        returns_obj = any(isinstance(r, ast.Return) and isinstance(r.value, ast.Call) and isinstance(r.value.func, ast.Name)
                          and r.value.func.id in ctx.p.classes and ctx.p.lookup_method(ctx.p.classes[r.value.func.id], "__call__") is not None
                          for r in own_nodes(b.node))
        if not (has_nested or returns_obj):
            continue
        try:
            cms = closure_models(ctx, b)
        except AnalysisError:
            continue
        ma_models = []
        for m in cms:
            for node in own_nodes(m.fn.node):
                if isinstance(node, ast.Call):
                    res = ctx.r.resolve_in(node, m.fn)
                    if any(t in slots for t in res.tags):
                        ma_models.append(m)
                        break
        if not ma_models:
            continue
        names = {m.fn.name if m.obj.startswith("$def:") else m.obj.split(":")[1].split("@")[0] for m in ma_models}
        flagged = {}
        handed_out = True
        for m in ma_models:
            if "is_coroutine" in m.attrs:
                v, e = m.attrs["is_coroutine"]
                flagged[show(v)] = e
        if not handed_out:
            continue
        n += 1
        if b.name in exempt:
            rep.ok(rule, b.loc(), f"builder `{b.qualname}` is exempt: {exempt[b.name]}")
            continue
        rep.check(bool(flagged), rule, b.loc(),
                  f"builder `{b.qualname}` publishes `is_coroutine` on the callable it returns (engine selection can see async operands)",
                  b.key, f"return {sorted(names)[0]}  # no `.is_coroutine = ...`")
        for vtxt, e in flagged.items():
            rep.check(vtxt not in ("False", "None"), rule, e.loc(), f"`{b.qualname}` derives is_coroutine from what it wraps", b.key, norm_stmt(e.node))
    rep.floor(rule, "builders wrapping a callback slot", n, 5)
    rule_flag_chain(ctx, rule)


def rule_flag_chain(ctx: Ctx, rule: str = "C05.flag"):
    """From the callable to the engine: adapter flag = iscoroutinefunction(<the callable itself>), wrapper flag read from the
    adapter, `has_async_callbacks` = any wrapper flag, engine chosen from it."""
    rep = ctx.rep
    # the adapter's flag comes from the signature, which comes from iscoroutinefunction
    fc = ctx.fn("SignatureAdapter.from_callable")
    ok = False
    for s in own_nodes(fc.node):
        if isinstance(s, ast.Assign) and any(isinstance(t, ast.Attribute) and t.attr == "is_coroutine" for t in s.targets):
            ok = isinstance(s.value, ast.Call) and show(s.value.func) in ("iscoroutinefunction", "inspect.iscoroutinefunction", "asyncio.iscoroutinefunction")
            # of the callable that will be CALLED (the parameter itself): a coroutine function produced by a decorator is a
            # coroutine function whatever it wraps, and a plain wrapper around one is not
            ok = ok and len(s.value.args) == 1 and show(s.value.args[0]) == fc.params[1] and not any(
                isinstance(n_, (ast.Assign, ast.AnnAssign)) and any(isinstance(t_, ast.Name) and t_.id == fc.params[1]
                                                                    for t_ in (n_.targets if isinstance(n_, ast.Assign) else [n_.target]))
                for n_ in own_nodes(fc.node))
            rep.check(ok, rule, fc.loc(s), "SignatureAdapter.is_coroutine is iscoroutinefunction(<the callable itself>)", fc.key, norm_stmt(s))
    if not ok:
        rep.violation(rule, fc.loc(), "SignatureAdapter.from_callable does not compute is_coroutine", fc.key, "no is_coroutine assignment")
    wi = ctx.fn("CallbackWrapper.__init__")
    got = None
    for s in own_nodes(wi.node):
        if isinstance(s, ast.Assign) and any(isinstance(t, ast.Attribute) and t.attr == "_iscoro" for t in s.targets):
            got = show(s.value)
    rep.check(got is not None and "is_coroutine" in got and "callback" in got, rule, wi.loc(),
              "the wrapper's coroutine flag is read from the adapted callable", wi.key, f"self._iscoro = {got}")
    aos = ctx.fn("CallbacksRegistry.async_or_sync")
    for p in ctx.paths(aos, exc_edges="none", comps_for_loops=True):
        st = [e for e in p.of("store") if e.x.get("attr") == "has_async_callbacks"]
        v = xshow(st[0].x["value"], p.events) if st else ""
        vt = expand(st[0].x["value"], p.events) if st else None
        ok = False
        if isinstance(vt, ast.Call) and show(vt.func) == "any" and len(vt.args) == 1 and isinstance(vt.args[0], (ast.GeneratorExp, ast.ListComp)):
            g = vt.args[0]
            gens = g.generators
            if len(gens) == 2 and not gens[0].ifs and not gens[1].ifs and show(gens[0].iter) == "self._registry.values()" \
                    and isinstance(gens[0].target, ast.Name) and show(gens[1].iter) == gens[0].target.id \
                    and isinstance(gens[1].target, ast.Name) and show(g.elt) == f"{gens[1].target.id}._iscoro":
                ok = True
            # the same walk, flattened: any(cb._iscoro for cb in chain.from_iterable(self._registry.values()))
            if len(gens) == 1 and not gens[0].ifs and isinstance(gens[0].target, ast.Name) and show(g.elt) == f"{gens[0].target.id}._iscoro" \
                    and xshow(gens[0].iter, p.events).replace("itertools.", "") == "chain.from_iterable(self._registry.values())":
                ok = True
        rep.check(ok, rule, aos.loc(), "has_async_callbacks = any wrapper of any executor is a coroutine", aos.key,
                  f"self.has_async_callbacks = {v}")
    check_engine_choice(ctx, rule)


def check_engine_choice(ctx: Ctx, rule: str):
    rep = ctx.rep
    ge = ctx.fn("StateMachine._get_engine")
    seen = {}
    for p in ctx.paths(ge, exc_edges="none"):
        pol = [b.x["taken"] for b in p.of("branch") if xshow(b.term, p.events) == "self._callbacks.has_async_callbacks"]
        v = expand(p.value, p.events) if p.kind == "return" else None
        cls = show(v.func) if isinstance(v, ast.Call) else "?"
        if pol:
            seen[pol[0]] = cls
    a_names = {e.name for e in ctx.k.engines if ctx.k.engine_fn(e, "_activate").is_async}
    s_names = {e.name for e in ctx.k.engines if not ctx.k.engine_fn(e, "_activate").is_async}
    rep.check(seen.get(True) in a_names and seen.get(False) in s_names, rule, ge.loc(),
              "the engine is chosen from has_async_callbacks: async engine iff some callback is a coroutine", ge.key,
              f"has_async_callbacks -> {seen}")


def _facade_ok(ctx: Ctx, fn: FuncInfo, rule: str, what: str, via_event: bool = False):
    rep = ctx.rep
    n = 0
    for p in ctx.paths(fn, exc_edges="none"):
        if p.kind != "return":
            continue
        evs = p.events
        guards = [e for e in p.calls() if show(e.term.func) in ("isawaitable", "inspect.isawaitable")]
        if not guards and via_event:
            # handing out the result of calling an Event is enough: Event.__call__ is itself a checked facade
            ec = []
            for e in p.calls():
                f = e.term.func
                if isinstance(f, ast.Name) and f.id.startswith("$c") and f.id[2:].isdigit():
                    src = evs[int(f.id[2:])]
                    stxt = show(src.term.func) if src.kind == "call" else ""
                    if stxt in ("BoundEvent", "Event") or (stxt == "getattr" and len(src.term.args) >= 2 and show(src.term.args[0]) == "self"):
                        ec.append(e)
            if ec and show(p.value) == f"$c{ec[-1].idx}":
                n += 2
                rep.ok(rule, fn.loc(), f"{what}: returns the value of the Event call, which is already resolved by Event.__call__")
                continue
        if not guards:
            calls = [e for e in p.calls() if e.x["callee"] and e.x["callee"].how in ("typed", "slot", "by_name")]
            if not calls:
                continue
            rep.violation(rule, fn.loc(), f"{what}: the result is handed out without testing whether it is awaitable", fn.key,
                          f"return {xshow(p.value, evs)}")
            continue
        g = guards[-1]
        subject = show(g.term.args[0]) if g.term.args else "?"
        pol = [b.x["taken"] for b in p.of("branch") if show(b.term) == f"$c{g.idx}"]
        if not pol:
            rep.violation(rule, g.loc(), f"{what}: isawaitable() result is not tested", fn.key, norm_stmt(g.node))
            continue
        n += 1
        if pol[0]:
            v = expand(p.value, evs)
            ok = isinstance(v, ast.Call) and show(v.func) == "run_async_from_sync" and v.args and show(p.value) != subject
            raw = [e for e in p.calls() if show(e.term.func) == "run_async_from_sync"]
            ok = ok and raw and show(raw[-1].term.args[0]) == subject
            rep.check(bool(ok), rule, g.loc(), f"{what}: an awaitable result is driven by run_async_from_sync", fn.key,
                      f"return {show(v)}")
        else:
            rep.check(show(p.value) == subject, rule, g.loc(), f"{what}: a plain result is returned as is", fn.key,
                      f"return {xshow(p.value, evs)}")
    rep.floor(rule, f"guarded exits of {fn.qualname}", n, 2)


def rule_facade(ctx: Ctx):
    rep = ctx.rep
    _facade_ok(ctx, ctx.fn("StateMachine.send"), "C05.facade", "send()", via_event=True)
    _facade_ok(ctx, ctx.fn("Event.__call__"), "C05.facade", "Event.__call__")
    _facade_ok(ctx, ctx.fn("StateMachine.activate_initial_state"), "C05.facade", "activate_initial_state()")
    rs = ctx.fn("run_async_from_sync")
    param = rs.params[0]
    mod = rs.module
    n_ret = 0
    loop_holder = None
    for p in ctx.paths(rs, exc_edges="try"):
        evs = p.events
        running = [e for e in p.calls() if show(e.term.func) in ("asyncio.get_running_loop", "get_running_loop")]
        threw = any(e.kind == "throw" and e.idx == running[0].idx + 1 for e in evs) if running else False
        handled = [e for e in evs if e.kind == "handler"]
        if p.kind == "return":
            if not running:
                rep.violation("C05.facade", rs.loc(), "run_async_from_sync no longer asks whether a loop is running", rs.key,
                              f"return {xshow(p.value, evs)}")
                continue
            n_ret += 1
            if not threw:
                rep.check(show(p.value) == param, "C05.facade", rs.loc(),
                          "inside a running loop the coroutine itself is returned (to be awaited by the caller)", rs.key,
                          f"return {xshow(p.value, evs)}")
            elif handled:
                v = expand(p.value, evs)
                ok = isinstance(v, ast.Call) and isinstance(v.func, ast.Attribute) and v.func.attr == "run_until_complete" \
                    and v.args and show(v.args[0]) == param
                holder = show(v.func.value) if ok else "?"
                rep.check(ok, "C05.facade", rs.loc(), "with no running loop the coroutine is run to completion", rs.key,
                          f"return {show(v)}")
                if ok:
                    loop_holder = holder
    rep.floor("C05.facade", "return paths of run_async_from_sync", n_ret, 2)
    # the coroutine's own exceptions are the caller's: the call that runs it is not covered by an exception handler of the bridge (a
    # RuntimeError-family exception raised by a callback would be taken for "no loop"/"loop closed" and swallowed or retried)
    for t_ in own_nodes(rs.node):
        if isinstance(t_, ast.Try) and t_.handlers:
            covered = [c_ for b_ in t_.body for c_ in ast.walk(b_) if isinstance(c_, ast.Call) and isinstance(c_.func, ast.Attribute)
                       and c_.func.attr in ("run_until_complete", "run") and c_.args and show(c_.args[0]) == param]
            rep.check(not covered, "C05.facade", rs.loc(t_), "the call that runs the coroutine is not inside a `try` of the bridge: what a callback "
                      "raises reaches the caller as it is", rs.key, norm_stmt(covered[0]) if covered else "run_until_complete outside try bodies")
    if loop_holder is not None:
        root = loop_holder.split(".")[0]
        val = mod.assigns.get(root)
        is_local = isinstance(val, ast.Call) and show(val.func) in ("threading.local", "local")
        rep.check(is_local and loop_holder.count(".") >= 1, "C05.facade", rs.loc(),
                  "the fallback event loop lives in a threading.local (one loop per thread, usable from threads without a loop)",
                  rs.key, f"{loop_holder}  # {root} = {show(val) if val is not None else '?'}")
        created = [e for p in ctx.paths(rs, exc_edges="try") for e in p.calls() if show(e.term.func) in ("asyncio.new_event_loop", "new_event_loop")]
        rep.check(bool(created), "C05.facade", rs.loc(), "a fresh loop is created for a thread that has none", rs.key, "no new_event_loop()")


def rule_start(ctx: Ctx, rule: str = "C05.start"):
    rep, k = ctx.rep, ctx.k
    init = ctx.fn("StateMachine.__init__")
    n = 0
    for p in ctx.paths(init, inline=None, exc_edges="none"):
        if p.kind == "raise":
            continue
        n += 1
        evs = p.events
        eng_store = [e for e in p.of("store") if e.x.get("attr") == "_engine"]
        starts = [e for e in p.calls() if isinstance(e.term.func, ast.Attribute) and e.term.func.attr == "start"
                  and xshow(e.term.func.value, evs).startswith("self._engine")]
        reg = [e for e in p.calls() if k.calls_method(e, "_register_callbacks")]
        ok = len(eng_store) == 1 and len(starts) == 1 and eng_store[0].idx < starts[0].idx and reg and reg[0].idx < eng_store[0].idx
        rep.check(ok, rule, init.loc(), "the constructor registers callbacks, then builds the engine, then starts it (initial activation "
                  "is queued before any event can be sent)", init.key,
                  "constructor order: " + " ; ".join(e.show() for e in evs if e in eng_store or e in starts or e in reg))
        if eng_store:
            v = xshow(eng_store[0].x["value"], evs)
            rep.check(v.startswith("self._get_engine("), rule, eng_store[0].loc(), "the engine comes from _get_engine (chosen by has_async_callbacks)",
                      init.key, norm_stmt(eng_store[0].node))
    rep.floor(rule, "normal paths of StateMachine.__init__", n, 1)
    st = ctx.fn("BaseEngine.start")
    n_put = 0
    for p in ctx.paths(st, exc_edges="none"):
        puts = [e for e in p.calls() if k.calls_method(e, "put")]
        if puts:
            n_put += 1
            from ..kernel import through_self_attr

            arg = expand(through_self_attr(puts[0].term.args[0], p, puts[0].idx), p.events)
            ok = isinstance(arg, ast.Call) and show(arg.func) == "TriggerData" and "__initial__" in show(arg)
            rep.check(ok, rule, st.loc(), "start() enqueues the `__initial__` trigger (FIFO puts it before the first event)", st.key,
                      f"put({show(arg)})")
    rep.floor(rule, "enqueuing paths of BaseEngine.start", n_put, 1)
    for eng in k.engines:
        s = k.engine_fn(eng, "start")
        if s.cls is not k.base:
            for p in ctx.paths(s, inline=None, exc_edges="none"):
                sup = [e for e in p.calls() if "super" in show(e.term.func) and show(e.term.func).endswith(".start")]
                rep.check(bool(sup), rule, s.loc(), f"{eng.name}.start() still performs the base start (enqueue) first", s.key,
                          "; ".join(e.show() for e in p.calls()))


FIRE_AND_FORGET = {"create_task", "ensure_future", "call_soon", "call_soon_threadsafe", "call_later", "call_at",
                   "run_in_executor", "run_coroutine_threadsafe", "start_soon"}


def scan_fire_and_forget(program: Program):
    out = []
    for fn in program.all_functions():
        for n in own_nodes(fn.node):
            if isinstance(n, ast.Call):
                nm = n.func.attr if isinstance(n.func, ast.Attribute) else (n.func.id if isinstance(n.func, ast.Name) else None)
                if nm in FIRE_AND_FORGET:
                    out.append((fn, n, nm))
    for m in program.modules.values():
        for n in m.tree.body:
            for c in ast.walk(n) if not isinstance(n, (ast.FunctionDef, ast.AsyncFunctionDef, ast.ClassDef)) else []:
                if isinstance(c, ast.Call):
                    nm = c.func.attr if isinstance(c.func, ast.Attribute) else (c.func.id if isinstance(c.func, ast.Name) else None)
                    if nm in FIRE_AND_FORGET:
                        out.append((None, c, nm))
    return out


def rule_nofire(ctx: Ctx):
    rep = ctx.rep
    hits = scan_fire_and_forget(ctx.p)
    for fn, n, nm in hits:
        where = fn.loc(n) if fn is not None else f"module level line {n.lineno}"
        rep.violation("C05.nofire", where, f"`{nm}` schedules work without awaiting it: the next phase may begin before the callback has finished",
                      fn.key if fn is not None else "module", norm_stmt(n))
    if not hits:
        rep.ok("C05.nofire", "package", "no fire-and-forget scheduling primitive is used anywhere in the package",
               scanned_functions=len(ctx.p.all_functions()))
    # positive control: the same scanner must flag the fixture
    fx = os.path.join(os.path.dirname(os.path.dirname(os.path.dirname(os.path.abspath(__file__)))), "fixtures", "c05_nofire")
    fp = Program(fx, package="badpkg")
    rep.control("C05.nofire", len(scan_fire_and_forget(fp)) >= 2, "fixtures/c05_nofire/badpkg uses ensure_future and create_task")


def rule_restore_starts(ctx: Ctx):
    """C05.start: an async machine is activated lazily, so a clone of a not-yet-activated one must queue the initial
    activation again (the restore performs the constructor's steps, including start())."""
    from . import c17

    c17.rule_steps(ctx, rule="C05.start")


RULES = [rule_sibling, rule_await, rule_flag, rule_facade, rule_start, rule_nofire, rule_restore_starts]
