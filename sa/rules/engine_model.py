"""Abstract traces of the engine kernels, shared by C01-C06, C11, C14.

For every engine (subclass of BaseEngine) the three kernel functions are enumerated path by
path; each path is projected onto an alphabet of abstract events."""

from __future__ import annotations

import ast
from dataclasses import dataclass, field
from typing import Dict, List, Optional, Tuple

from ..context import Ctx
from ..kernel import GroupCall, expand, xshow
from ..loader import AnalysisError, ClassInfo, FuncInfo
from ..paths import Ev, Path, show, const_truth


@dataclass
class Sym:
    kind: str  # G | WRITE | VIEW | RET | RAISE | CALL
    name: str
    ev: Optional[Ev]
    gc: Optional[GroupCall] = None
    value: Optional[ast.AST] = None

    def __repr__(self):
        return self.name


@dataclass
class ActPath:
    path: Path
    syms: List[Sym]
    executing: Optional[bool]  # True: returns (True, ..), False: returns (False, ..), None: other
    internal: Optional[bool]  # polarity of `<t>.internal` on this path (None if not tested)
    src_present: Optional[bool]  # polarity of `<t>.source is not None`
    cond_pol: Optional[bool]  # polarity of the branch on the COND guard result
    ret: Optional[ast.AST]
    other_branches: List[str] = field(default_factory=list)

    def names(self) -> List[str]:
        return [s.name for s in self.syms]

    def groups(self) -> List[str]:
        return [s.name for s in self.syms if s.kind == "G"]


def transition_param(fn: FuncInfo) -> str:
    a = fn.node.args
    for arg in a.posonlyargs + a.args:
        if arg.annotation is not None and "Transition" in ast.unparse(arg.annotation):
            return arg.arg
    names = [x.arg for x in a.posonlyargs + a.args]
    if "transition" in names:
        return "transition"
    raise AnalysisError(f"anchor lost: transition parameter of {fn.key}")


def trigger_param(fn: FuncInfo) -> str:
    a = fn.node.args
    for arg in a.posonlyargs + a.args:
        if arg.annotation is not None and "TriggerData" in ast.unparse(arg.annotation):
            return arg.arg
    names = [x.arg for x in a.posonlyargs + a.args]
    if "trigger_data" in names:
        return "trigger_data"
    raise AnalysisError(f"anchor lost: trigger_data parameter of {fn.key}")


def activate_paths(ctx: Ctx, engine: ClassInfo) -> Tuple[FuncInfo, str, List[ActPath]]:
    k = ctx.k
    fn = k.engine_fn(engine, "_activate")
    tp = transition_param(fn)
    out: List[ActPath] = []
    for p in ctx.paths(fn, exc_edges="none"):
        if p.kind != "return":
            # explicit raise inside _activate: keep as non-executing path with RAISE symbol
            pass
        syms: List[Sym] = []
        internal = src = condpol = None
        others: List[str] = []
        cond_ids = set()
        for ev in p.events:
            gc = k.group_call(ev, p.events)
            if gc is not None:
                syms.append(Sym("G", gc.sym(), ev, gc))
                if gc.group == "COND":
                    cond_ids.add(f"$c{ev.idx}")
                continue
            w = k.state_write(ev, p.events)
            if w is not None:
                syms.append(Sym("WRITE", f"WRITE({xshow(w, p.events)})", ev, value=w))
                continue
            v = k.view_update(ev, p.events)
            if v is not None:
                syms.append(Sym("VIEW", f"VIEW[{v[0]}]({xshow(v[1], p.events)})", ev, value=v[1]))
                continue
            if ev.kind == "branch":
                t = expand(ev.term, p.events)
                txt = show(t)
                pol = ev.x["taken"]
                if txt == f"{tp}.internal":
                    internal = pol
                elif txt == f"{tp}.source is not None":
                    src = pol
                elif txt == f"{tp}.source is None":
                    src = not pol
                elif isinstance(ev.term, ast.Name) and ev.term.id in cond_ids:
                    condpol = pol
                elif isinstance(t, ast.Await) and False:
                    pass
                else:
                    others.append(f"{txt}=={pol}")
        executing = None
        ret = None
        if p.kind == "return":
            ret = p.value
            if isinstance(ret, ast.Tuple) and ret.elts:
                c = const_truth(ret.elts[0]) if isinstance(ret.elts[0], ast.Constant) else None
                executing = c
            syms.append(Sym("RET", f"RET({show(ret.elts[0]) if isinstance(ret, ast.Tuple) and ret.elts else show(ret)})", None, value=ret))
        elif p.kind == "raise":
            syms.append(Sym("RAISE", f"RAISE({show(p.value)})", None, value=p.value))
        out.append(ActPath(p, syms, executing, internal, src, condpol, ret, others))
    return fn, tp, out


def engine_kind(ctx: Ctx, engine: ClassInfo) -> str:
    fn = ctx.k.engine_fn(engine, "_activate")
    return "async" if fn.is_async else "sync"
