"""C09 - Class-definition validation accepts exactly the well-formed machines."""

from __future__ import annotations

import ast
from typing import Dict, List, Optional

from .. import boolfn
from ..context import Ctx
from ..kernel import expand, expand1, xshow
from ..loader import AnalysisError, FuncInfo, norm_stmt
from ..paths import Ev, N, Path, show
from ..resolve import own_nodes

EXPLANATION = (
    "The metaclass checks are decided as shapes: (calls) `_check` runs all five checks on every non-abstract path, after the "
    "states/events emptiness tests, and abstractness is `no states and no events`; (pred) each check's selecting predicate is "
    "interpreted over its atoms (initial, final, has-transitions, reaches-final) and its truth table must equal the specified "
    "one - so rewrites that are equal as boolean functions pass and anything else does not; the raise/warn outcome must depend "
    "on strict_states exactly for the trap and reach-final checks; (visit) in the reachability visit everything entering the "
    "worklist derives from `t.target for t in state.transitions`, unfiltered, and a state is yielded only after the visited-set "
    "test; (internal) an internal transition between different states is rejected before anything is registered; (any) "
    "from_.any() skips exactly the final states. The 'iff' over all graphs is an algorithmic claim: what is decided is the "
    "shape of a 14-line BFS and of five predicates."
)
ASSUMPTIONS = ["breadth-first visit over forward edges with a visited set computes reachability (textbook)"]
TRUSTED = ["/verif/sa path enumerator; sa/boolfn.py truth-table evaluator"]

META = "StateMachineMetaclass"
CHECKS = ["_check_initial_state", "_check_final_states", "_check_disconnected_state", "_check_trap_states", "_check_reachable_final_states"]


def _inline_meta(callee: FuncInfo, depth: int, node) -> bool:
    return callee.cls is not None and callee.cls.name == META and callee.name.startswith("_") and not callee.name.startswith("__") \
        and callee.name not in CHECKS and callee.name not in ("_check", "_setup", "_update_event_references", "_add_states_from_dict", "_add_unbounded_callback")


def rule_calls(ctx: Ctx):
    rep = ctx.rep
    fn = ctx.fn(f"{META}._check")
    n = 0
    for p in ctx.paths(fn, inline=None, exc_edges="none"):
        evs = p.events
        st = [e for e in p.of("store") if e.x.get("attr") == "_abstract"]
        if st:
            v = expand(st[0].x["value"], evs)
            try:
                def atom(x):
                    t = show(x)
                    if t in ("cls.states", "bool(cls.states)"):
                        return "STATES"
                    if t in ("cls._events", "bool(cls._events)"):
                        return "EVENTS"
                    return None

                dom = {"STATES": [True, False], "EVENTS": [True, False]}
                got = boolfn.table(v, atom, dom)
                want = boolfn.spec_table(lambda STATES, EVENTS: (not STATES) and (not EVENTS), dom)
                rep.check(got == want, "C09.calls", st[0].loc(), "a class is abstract exactly when it has neither states nor events", fn.key,
                          norm_stmt(st[0].node), value=show(v))
            except boolfn.Unrecognised as u:
                rep.unrecognised("C09.calls", st[0].loc(), f"abstractness expression `{show(v)}` ({u})")
        called = [e.term.func.attr for e in p.calls() if isinstance(e.term.func, ast.Attribute) and e.term.func.attr in CHECKS and show(e.term.func.value) == "cls"]
        facts = {xshow(b.term, evs): b.x["taken"] for b in p.of("branch")}
        if p.kind == "raise":
            v = xshow(p.value, evs)
            rep.check(v.startswith("InvalidDefinition("), "C09.calls", fn.loc(), "a class with states but no events (or the reverse) is an InvalidDefinition",
                      fn.key, f"raise {v}")
            rep.check(not called, "C09.calls", fn.loc(), "the emptiness tests come before the graph checks", fn.key, f"checks before raise: {called}")
            continue
        abstract = any("_abstract" in k and v for k, v in facts.items())
        if abstract:
            rep.check(not called, "C09.calls", fn.loc(), "abstract base classes are not validated", fn.key, f"checks on abstract path: {called}")
            continue
        n += 1
        rep.check(sorted(called) == sorted(CHECKS), "C09.calls", fn.loc(), "every concrete class goes through all five checks", fn.key,
                  f"checks called: {called}", missing=sorted(set(CHECKS) - set(called)))
        if "_check_initial_state" in called and "_check_disconnected_state" in called:
            rep.check(called.index("_check_initial_state") < called.index("_check_disconnected_state"), "C09.calls", fn.loc(),
                      "the initial-state check precedes the reachability check that starts from it", fn.key, f"order: {called}")
    rep.floor("C09.calls", "concrete paths of _check", n, 1)
    init = ctx.fn(f"{META}.__init__")
    for p in ctx.paths(init, inline=None, exc_edges="none", comps_for_loops=True):
        names = [e.term.func.attr for e in p.calls() if isinstance(e.term.func, ast.Attribute) and show(e.term.func.value) == "cls"]
        need = ["add_inherited", "add_from_attributes", "_update_event_references", "_check"]
        idx = [names.index(x) if x in names else -1 for x in need]
        rep.check(all(i >= 0 for i in idx) and idx == sorted(idx), "C09.calls", init.loc(),
                  "the class statement validates after all states and events (inherited, declared, re-wired) are registered", init.key,
                  f"metaclass steps: {names}")
        fs = [e for e in p.of("store") if e.x.get("attr") == "final_states"]
        if fs:
            v = expand(fs[0].x["value"], p.events)
            ok = isinstance(v, ast.ListComp) and show(v.generators[0].iter) == "cls.states" and len(v.generators[0].ifs) == 1 and \
                show(v.generators[0].ifs[0]) == f"{v.generators[0].target.id}.final" and show(v.elt) == v.generators[0].target.id
            rep.check(bool(ok), "C09.calls", fs[0].loc(), "final_states are exactly the states flagged final", init.key, norm_stmt(fs[0].node))
        break


def _atoms_for(t: str):
    def atom(x: ast.AST) -> Optional[str]:
        txt = show(x)
        if txt == f"{t}.final":
            return "FINAL"
        if txt == f"{t}.initial":
            return "INITIAL"
        if txt == f"{t}.transitions":
            return "HAS_TRANSITIONS"
        if isinstance(x, ast.Call) and show(x.func) == "any" and len(x.args) == 1 and isinstance(x.args[0], (ast.GeneratorExp, ast.ListComp)):
            g = x.args[0]
            if len(g.generators) == 1 and not g.generators[0].ifs and show(g.generators[0].iter) == f"visit_connected_states({t})" \
                    and isinstance(g.generators[0].target, ast.Name) and show(g.elt) == f"{g.generators[0].target.id}.final":
                return "REACHES_FINAL"
        return None

    return atom


def _filtered_view(pred: ast.AST, t: str) -> bool:
    """The predicate iterates over / filters the state's transitions instead of using the whole list."""
    for n in ast.walk(pred):
        if isinstance(n, ast.comprehension) and f"{t}.transitions" in show(n.iter):
            return True
        if isinstance(n, ast.Call) and show(n.func) in ("filter", "any", "all", "sum") and f"{t}.transitions" in show(n):
            if not (show(n.func) == "any" and "visit_connected_states" in show(n)):
                return True
    return False


def _selecting_comp(ctx: Ctx, p: Path, over: List[str]):
    for e in p.of("comp"):
        c = e.term
        if isinstance(c, (ast.ListComp, ast.SetComp, ast.GeneratorExp)) and len(c.generators) == 1 and show(c.generators[0].iter) in over:
            if isinstance(c.generators[0].target, ast.Name) and show(c.elt) == c.generators[0].target.id:
                return e, c
    return None, None


def _outcome(p: Path):
    if p.kind == "raise":
        return "raise:" + xshow(p.value, p.events).split("(")[0]
    if any(show(e.term.func) == "warnings.warn" for e in p.calls()):
        return "warn"
    return "pass"


def _check_pred(ctx: Ctx, name: str, over: List[str], domains, spec, what: str, feasible=None):
    rep = ctx.rep
    fn = ctx.fn(f"{META}.{name}")
    found = False
    results = {}
    for p in ctx.paths(fn, inline=_inline_meta, exc_edges="none", comps_for_loops=True):
        e, c = _selecting_comp(ctx, p, over)
        if c is None:
            # a path on which the check never looks at the states: only the documented skip is one
            if p.kind in ("return", "fall") and not any(x.kind in ("iter", "exhaust") for x in p.events):
                skip_ok = name == "_check_reachable_final_states" and any(
                    _no_final_fact(expand1(b.term, p.events), b.x["taken"]) for b in p.of("branch") if b.term is not None)
                # the trap-state check may leave machines WITH final states to the reach-final check (a sink that is not final
                # reaches no final state; that check's own table is verified separately): same verdict, other message
                if name == "_check_trap_states":
                    brs = [b for b in p.of("branch") if b.term is not None]
                    skip_ok = len(brs) == 1 and _no_final_fact(expand1(brs[0].term, p.events), not brs[0].x["taken"])
                if not skip_ok:
                    rep.violation("C09.pred", fn.loc(), f"{name}: the check returns without examining the states when "
                                  + (" and ".join(f"{xshow(b.term, p.events)} is {b.x['taken']}" for b in p.of("branch")) or "called"),
                                  fn.key, "early return before the selection")
            continue
        if not found:
            found = True
            t = c.generators[0].target.id
            pred = boolfn.conj(list(c.generators[0].ifs))
            if _filtered_view(pred, t):
                rep.violation("C09.pred", e.loc(), f"{name}: the check looks at a filtered view of the state's transitions "
                              "(e.g. ignoring self-loops) instead of all of them", fn.key, norm_stmt(e.node), predicate=show(pred))
            else:
                try:
                    # a predicate that looks at more than the specified atoms depends on them: give those atoms a domain
                    # too, so that the comparison of truth tables shows the dependence as a difference
                    extra = {}
                    for n_ in ast.walk(pred):
                        a_ = _atoms_for(t)(n_) if isinstance(n_, (ast.Attribute, ast.Call)) else None
                        if a_ is not None and a_ not in domains:
                            extra[a_] = [True, False]
                    if extra:
                        dom2 = {**domains, **extra}
                        names2 = sorted(dom2)
                        got2 = boolfn.table(pred, _atoms_for(t), dom2)
                        dep = any(got2[k1] != got2[k2] for k1 in got2 for k2 in got2
                                  if all(k1[i] == k2[i] for i, nm in enumerate(names2) if nm in domains)
                                  and (feasible is None or (feasible(**{nm: k1[names2.index(nm)] for nm in domains})
                                                            and feasible(**{nm: k2[names2.index(nm)] for nm in domains}))))
                        if dep:
                            rep.violation("C09.pred", e.loc(), f"{name}: the selection also depends on {sorted(extra)}: {what}", fn.key,
                                          f"selects states where: {show(pred)}")
                            raise boolfn.Unrecognised("__handled__")
                    got = boolfn.table(pred, _atoms_for(t), {**domains, **{k_: [True] for k_ in extra}})
                    if extra:
                        names3 = sorted({**domains, **extra})
                        got = {tuple(v for v, nm in zip(k_, names3) if nm in domains): val for k_, val in got.items()}
                    want = boolfn.spec_table(spec, domains)
                    if feasible is not None:
                        names = sorted(domains)
                        keep = {k for k in got if feasible(**dict(zip(names, k)))}
                        got = {k: v for k, v in got.items() if k in keep}
                        want = {k: v for k, v in want.items() if k in keep}
                    rep.check(got == want, "C09.pred", e.loc(), f"{name}: {what}", fn.key, f"selects states where: {show(pred)}",
                              truth_table={str(k): v for k, v in got.items()}, atoms=sorted(domains))
                except boolfn.Unrecognised as u:
                    if str(u) != "__handled__":
                        # a predicate that calls a helper: read the selection as the loop it abbreviates (helpers inlined)
                        return fn, _check_pred_loop(ctx, fn, name, over, domains, spec, what, feasible)
        # outcome by emptiness of the selection and strictness
        ph = None
        for b in p.of("branch"):
            if show(b.term) == f"$c{e.idx}" or (b.term is not None and show(expand1(b.term, p.events)) == show(c)):
                ph = b.x["taken"]
        sel_name = None
        for b in p.of("branch"):
            x = b.term
            if isinstance(x, ast.Name) and x.id.startswith("$") and p.events[int(x.id[2:])].kind == "comp" if (isinstance(x, ast.Name) and x.id[2:].isdigit()) else False:
                pass
        strict = None
        for b in p.of("branch"):
            if xshow(b.term, p.events) == "cls._strict_states":
                strict = b.x["taken"]
        results.setdefault((_nonempty(p, e, c), strict), set()).add(_outcome(p))
    if not found:
        return fn, _check_pred_loop(ctx, fn, name, over, domains, spec, what, feasible)
    return fn, results


def _segments(p: Path, over: List[str]):
    """Per-iteration segments of the explicit loop `for x in <over>` on this path: (iter event, element text, events)."""
    evs = p.events
    marks = [e for e in evs if e.kind in ("iter", "exhaust") and e.term is not None and xshow(e.term, evs) in over and e.x.get("loop", "for") == "for"]
    out = []
    for a, b in zip(marks, marks[1:]):
        if a.kind == "iter":
            out.append((a, show(a.x["elem"]), evs[a.idx + 1: b.idx]))
    return out


def _segment_row(p: Path, elem: str, seg, atom_of):
    """Facts established about one element while it is being considered: atom -> bool.  Raises Unrecognised."""
    evs = p.events
    facts: Dict[str, bool] = {}
    inner_true = False
    inner_done = False
    inner_seen = False
    for e in seg:
        if e.kind in ("iter", "exhaust") and e.term is not None and xshow(e.term, evs) == f"visit_connected_states({elem})":
            inner_seen = True
            if e.kind == "exhaust":
                inner_done = True
            continue
        if e.kind != "branch":
            continue
        t = expand1(e.term, evs)
        pol = e.x["taken"]
        while isinstance(t, ast.UnaryOp) and isinstance(t.op, ast.Not):
            t, pol = t.operand, not pol
        txt = show(t)
        if inner_seen and isinstance(t, ast.Attribute) and t.attr == "final" and isinstance(t.value, ast.Subscript) and show(t.value.slice).startswith("$k") \
                and xshow(t.value.value, evs) == f"visit_connected_states({elem})":
            inner_true = inner_true or pol
            continue
        a = atom_of(t)
        if a is None:
            a = atom_of(expand(t, evs))  # e.g. any(s.final for s in $cN) with $cN the visit of this element
        if a is None:
            raise boolfn.Unrecognised(txt)
        if a in facts and facts[a] != pol:
            return None  # contradictory (infeasible) path
        facts[a] = pol
    if inner_seen:
        if inner_true:
            facts["REACHES_FINAL"] = True
        elif inner_done:
            facts["REACHES_FINAL"] = False
    return facts


def _check_pred_loop(ctx: Ctx, fn: FuncInfo, name: str, over: List[str], domains, spec, what: str, feasible=None):
    """The selection written as an explicit loop (`for s in states: if ...: out.append(s)`): the truth table is read
    off the paths - one row per (facts established about the element, was it appended)."""
    import itertools
    rep = ctx.rep
    rows = []
    results = {}
    where = None
    for p in ctx.paths(fn, inline=_inline_meta, exc_edges="none", unroll=2, comps_for_loops=False, loops_for_comps=True):
        evs = p.events
        segs = _segments(p, over)
        outs = {show(e.term.func.value) for e in p.calls() if isinstance(e.term.func, ast.Attribute) and e.term.func.attr in ("append", "add")
                and show(e.term.func.value).startswith(("$l", "$c"))}
        if not any(e.kind in ("iter", "exhaust") and e.term is not None and xshow(e.term, evs) in over for e in evs):
            continue
        n_sel = 0
        feasible_path = True
        for it, elem, seg in segs:
            where = where or it
            try:
                facts = _segment_row(p, elem, seg, _atoms_for(elem))
            except boolfn.Unrecognised as u:
                rep.unrecognised("C09.pred", it.loc(), f"{name}: the selecting loop tests `{u}`")
                return results
            if facts is None:
                feasible_path = False
                break
            sel = [e for e in seg if e.kind == "call" and isinstance(e.term.func, ast.Attribute) and e.term.func.attr in ("append", "add")
                   and e.term.args and show(e.term.args[0]) == elem]
            n_sel += 1 if sel else 0
            rows.append((facts, bool(sel)))
        if not feasible_path:
            continue
        # outcome keyed by emptiness of the selection; paths whose emptiness test contradicts what was appended are infeasible
        ph = None
        for b in p.of("branch"):
            t = show(b.term)
            if t in outs or (t.startswith("$l") and not outs):
                ph = b.x["taken"]
        if ph is not None and ph != (n_sel > 0):
            continue
        strict = None
        for b in p.of("branch"):
            if xshow(b.term, evs) == "cls._strict_states":
                strict = b.x["taken"]
        results.setdefault((ph, strict), set()).add(_outcome(p))
    if not rows:
        raise AnalysisError(f"anchor lost: selecting comprehension or loop of {name}")
    names = sorted(domains)
    got = {}
    for combo in itertools.product(*[domains[n] for n in names]):
        val = dict(zip(names, combo))
        if feasible is not None and not feasible(**val):
            continue
        sels = {sel for facts, sel in rows if all(val.get(k) == v for k, v in facts.items())}
        if len(sels) != 1:
            rep.unrecognised("C09.pred", where.loc(), f"{name}: the selecting loop does not decide the row {val} ({sorted(sels)})")
            return results
        got[combo] = sels.pop()
    want = {k: v for k, v in boolfn.spec_table(spec, domains).items() if k in got}
    rep.check(got == want, "C09.pred", where.loc(), f"{name}: {what}", fn.key, "selecting loop: " + "; ".join(f"{dict(zip(names, k))}->{v}" for k, v in sorted(got.items())),
              truth_table={str(k): v for k, v in got.items()}, atoms=names)
    return results


def _nonempty(p: Path, e, c) -> Optional[bool]:
    """Polarity of the test 'the selection is non-empty' on this path."""
    for b in p.of("branch"):
        t = b.term
        if show(t) == show(c) or (isinstance(t, ast.Name) and t.id == f"$comp{e.idx}"):
            return b.x["taken"]
        if isinstance(t, (ast.ListComp, ast.SetComp)) and ast.dump(t) == ast.dump(c):
            return b.x["taken"]
    return None


def rule_pred(ctx: Ctx):
    rep = ctx.rep
    B = [True, False]
    # 1. exactly one initial state
    fn = ctx.fn(f"{META}._check_initial_state")
    sel = None
    raising, passing = set(), set()
    for p in ctx.paths(fn, inline=_inline_meta, exc_edges="none", comps_for_loops=True):
        e, c = _selecting_comp(ctx, p, ["cls.states"])
        if c is None:
            continue
        if sel is None:
            sel = c
            t = c.generators[0].target.id
            pred = boolfn.conj(list(c.generators[0].ifs))
            try:
                got = boolfn.table(pred, _atoms_for(t), {"INITIAL": B})
                rep.check(got == boolfn.spec_table(lambda INITIAL: INITIAL, {"INITIAL": B}), "C09.pred", e.loc(),
                          "_check_initial_state counts exactly the states flagged initial", fn.key, f"selects states where: {show(pred)}")
            except boolfn.Unrecognised as u:
                rep.unrecognised("C09.pred", e.loc(), f"initial predicate uses `{u}`")
        ns = []
        for n_ in (0, 1, 2, 3):
            ok = True
            for b in p.of("branch"):
                x = expand1(b.term, p.events)
                if isinstance(x, ast.Compare) and len(x.ops) == 1 and type(x.ops[0]) in boolfn.OPS and isinstance(x.left, ast.Call) and show(x.left.func) == "len" \
                        and isinstance(x.comparators[0], ast.Constant):
                    if boolfn.OPS[type(x.ops[0])](n_, x.comparators[0].value) != b.x["taken"]:
                        ok = False
            if ok:
                ns.append(n_)
        if p.kind == "raise":
            raising |= set(ns)
            rep.check(xshow(p.value, p.events).startswith("InvalidDefinition("), "C09.pred", fn.loc(), "a wrong number of initial states is an InvalidDefinition",
                      fn.key, f"raise {xshow(p.value, p.events)}")
        else:
            passing |= set(ns)
    rep.check(raising == {0, 2, 3} and passing == {1}, "C09.pred", fn.loc(), "the class is rejected unless there is exactly one initial state", fn.key,
              f"raises for counts {sorted(raising)}, accepts counts {sorted(passing)}")
    # 2. no transition leaves a final state (all transitions count)
    fn, res = _check_pred(ctx, "_check_final_states", ["cls.final_states"], {"HAS_TRANSITIONS": B}, lambda HAS_TRANSITIONS: HAS_TRANSITIONS,
                          "a final state is offending as soon as it has any outgoing transition")
    _expect_outcomes(ctx, fn, res, strict_matters=False)
    # 3. trap states
    fn, res = _check_pred(ctx, "_check_trap_states", ["cls.states"], {"FINAL": B, "HAS_TRANSITIONS": B},
                          lambda FINAL, HAS_TRANSITIONS: (not FINAL) and (not HAS_TRANSITIONS),
                          "a trap state is a non-final state without outgoing transitions")
    _expect_outcomes(ctx, fn, res, strict_matters=True)
    # 4. reachable final
    fn, res = _check_pred(ctx, "_check_reachable_final_states", ["cls.states"], {"FINAL": B, "REACHES_FINAL": B},
                          lambda FINAL, REACHES_FINAL: (not FINAL) and (not REACHES_FINAL),
                          "offending = non-final states from which no final state can be reached",
                          # the visit yields its start state first, so a final state always reaches a final state
                          feasible=lambda FINAL, REACHES_FINAL: (not FINAL) or REACHES_FINAL)
    _expect_outcomes(ctx, fn, res, strict_matters=True)
    early = False
    for p in ctx.paths(fn, inline=_inline_meta, exc_edges="none", comps_for_loops=True):
        if p.kind in ("return", "fall") and not any(e.kind in ("iter", "exhaust") for e in p.events) and _selecting_comp(ctx, p, ["cls.states"])[1] is None:
            for b in p.of("branch"):
                if _no_final_fact(expand1(b.term, p.events), b.x["taken"]):
                    early = True
    rep.check(early, "C09.pred", fn.loc(), "machines without final states skip the path-to-final check", fn.key, "no early return when there is no final state")
    # 5. disconnected states
    fn = ctx.fn(f"{META}._check_disconnected_state")
    seen = False
    outcomes = {}
    for p in ctx.paths(fn, inline=_inline_meta, exc_edges="none", comps_for_loops=True):
        for b in p.of("branch"):
            x = expand(b.term, p.events)
            if isinstance(x, ast.BinOp) and isinstance(x.op, ast.Sub):
                seen = True
                ok = show(x.left) == "set(cls.states)" and show(x.right) == "set(visit_connected_states(cls.initial_state))"
                rep.check(ok, "C09.pred", b.loc(), "disconnected = all states minus those visited from the initial state", fn.key,
                          f"disconnected = {show(x)}")
                outcomes.setdefault(b.x["taken"], set()).add(_outcome(p))
        if p.kind in ("return", "fall"):
            decided = any(isinstance(expand(b.term, p.events), ast.BinOp) and isinstance(expand(b.term, p.events).op, ast.Sub) and b.x["taken"] is False
                          for b in p.of("branch"))
            if not decided:
                rep.violation("C09.pred", fn.loc(), "a class is accepted as connected only after `all states - visited from the initial state` was found "
                              "empty: this path accepts it on other grounds", fn.key,
                              "; ".join(f"{show(expand1(b.term, p.events))[:70]}={b.x['taken']}" for b in p.of("branch"))[:240] or "no test")
    if not seen:
        rep.unrecognised("C09.pred", fn.loc(), "disconnected-state computation is not `set(all) - set(visited)`")
    rep.check(outcomes.get(True) == {"raise:InvalidDefinition"} and outcomes.get(False) == {"pass"}, "C09.pred", fn.loc(),
              "unreachable states always raise InvalidDefinition (independently of strict_states)", fn.key, f"outcomes: { {k: sorted(v) for k, v in outcomes.items()} }")


def _no_final_fact(t: ast.AST, taken: bool) -> bool:
    """The branch fact says 'the class has no final state'."""
    while isinstance(t, ast.UnaryOp) and isinstance(t.op, ast.Not):
        t, taken = t.operand, not taken
    if show(t) == "cls.final_states":
        return taken is False
    if isinstance(t, ast.Call) and show(t.func) in ("any", "all") and len(t.args) == 1 and isinstance(t.args[0], (ast.GeneratorExp, ast.ListComp)):
        g = t.args[0]
        if len(g.generators) != 1 or g.generators[0].ifs or show(g.generators[0].iter) != "cls.states" or not isinstance(g.generators[0].target, ast.Name):
            return False
        v = g.generators[0].target.id
        if show(t.func) == "any" and show(g.elt) == f"{v}.final":
            return taken is False
        if show(t.func) == "all" and show(g.elt) == f"not {v}.final":
            return taken is True
    return False


def _expect_outcomes(ctx: Ctx, fn: FuncInfo, res: Dict, strict_matters: bool):
    rep = ctx.rep
    flat = {k: sorted(v) for k, v in res.items()}
    nonempty = {k[1]: v for k, v in res.items() if k[0] is True}
    empty = set().union(*[v for k, v in res.items() if k[0] is False]) if any(k[0] is False for k in res) else set()
    if strict_matters:
        ok = nonempty.get(True) == {"raise:InvalidDefinition"} and nonempty.get(False) == {"warn"} and empty <= {"pass"}
        rep.check(ok, "C09.pred", fn.loc(), f"{fn.name}: offending states raise InvalidDefinition under strict_states and only warn otherwise",
                  fn.key, f"outcomes (selection non-empty, strict) -> {flat}")
    else:
        allv = set().union(*nonempty.values()) if nonempty else set()
        ok = allv == {"raise:InvalidDefinition"} and None in nonempty and empty <= {"pass"}
        rep.check(ok, "C09.pred", fn.loc(), f"{fn.name}: offending states always raise InvalidDefinition (strict_states plays no role)", fn.key,
                  f"outcomes (selection non-empty, strict) -> {flat}")


def rule_visit(ctx: Ctx):
    rep = ctx.rep
    fn = ctx.fn("visit_connected_states")
    start = fn.params[0]
    n_y = 0
    feeds = []
    for p in ctx.paths(fn, inline=None, exc_edges="none", unroll=2):
        evs = p.events
        wev = next((e for e in evs if e.kind == "call" and show(e.term.func) in ("deque", "list", "collections.deque")), None)
        work = f"$c{wev.idx}" if wev is not None else None
        if wev is not None and wev.term.args:
            # created with its first element(s): a feeding site like append
            init = expand1(wev.term.args[0], evs)
            feeds.append((Ev("call", ast.Call(func=ast.Attribute(value=N(work), attr="extend", ctx=ast.Load()),
                                              args=[init], keywords=[]), wev.node, wev.fn), p))
        if work is None:
            wal = next((e for e in evs if e.kind == "alloc" and isinstance(e.term, ast.List)), None)
            work = f"$l{wal.idx}" if wal is not None else None
            if wal is not None and wal.term.elts:
                feeds.append((Ev("call", ast.Call(func=ast.Attribute(value=N(work), attr="extend", ctx=ast.Load()),
                                                  args=[wal.term], keywords=[]), wal.node, wal.fn), p))
        visited = next((f"$c{e.idx}" for e in evs if e.kind == "call" and show(e.term.func) == "set" and not e.term.args), None)
        if work is None or visited is None:
            rep.unrecognised("C09.visit", fn.loc(), "worklist / visited set not found (expected deque()/[] and set())")
        for e in p.calls():
            f = e.term.func
            if isinstance(f, ast.Attribute) and show(f.value) == work and f.attr in ("append", "extend", "appendleft", "extendleft", "insert"):
                feeds.append((e, p))
        # index-based queue (`while i < len(work): cur = work[i]; i += 1`): the loop tests must count 0, 1, 2, ...
        idx_tests = []
        for b in p.of("branch"):
            t = expand1(b.term, evs) if b.term is not None else None
            if isinstance(t, ast.Compare) and len(t.ops) == 1 and isinstance(t.ops[0], ast.Lt) and isinstance(t.left, ast.Constant) \
                    and type(t.left.value) is int and show(t.comparators[0]) == f"len({work})":
                idx_tests.append((b, t.left.value))
        if idx_tests:
            rep.check([i for _, i in idx_tests] == list(range(len(idx_tests))), "C09.visit", fn.loc(),
                      "the index-based worklist is read front to back, one position per round", fn.key,
                      f"loop tests at positions {[i for _, i in idx_tests]}")
        for y in p.of("yield"):
            n_y += 1
            popped = [e for e in evs[: y.idx] if e.kind == "call" and isinstance(e.term.func, ast.Attribute) and show(e.term.func.value) == work
                      and e.term.func.attr in ("popleft", "pop")]
            if not popped and idx_tests:
                # the element at the position the last passed loop test admitted
                adm = [(b, i) for b, i in idx_tests if b.idx < y.idx and b.x["taken"]]
                cur = f"{work}[{adm[-1][1]}]" if adm else "?"
                seg = evs[adm[-1][0].idx: y.idx] if adm else []
                guard = [b for b in seg if b.kind == "branch" and isinstance(b.term, ast.Compare) and isinstance(b.term.ops[0], ast.In)
                         and show(b.term.left) == cur and show(b.term.comparators[0]) == visited and b.x["taken"] is False]
                added = [c for c in seg if c.kind == "call" and show(c.term.func) == f"{visited}.add" and show(c.term.args[0]) == cur]
                rep.check(show(y.term) == cur and bool(guard) and bool(added), "C09.visit", y.loc(),
                          "a state is yielded at most once: only when it was not in the visited set, which it then joins", fn.key, norm_stmt(y.node))
                continue
            cur = f"$c{popped[-1].idx}" if popped else "?"
            seg = evs[popped[-1].idx: y.idx] if popped else []
            guard = [b for b in seg if b.kind == "branch" and isinstance(b.term, ast.Compare) and isinstance(b.term.ops[0], ast.In)
                     and show(b.term.left) == cur and show(b.term.comparators[0]) == visited and b.x["taken"] is False]
            added = [c for c in seg if c.kind == "call" and show(c.term.func) == f"{visited}.add" and show(c.term.args[0]) == cur]
            rep.check(show(y.term) == cur and bool(guard) and bool(added), "C09.visit", y.loc(),
                      "a state is yielded at most once: only when it was not in the visited set, which it then joins", fn.key, norm_stmt(y.node))
    rep.floor("C09.visit", "yields on paths of the visit", n_y, 2)
    seen = set()
    n_feed = 0
    for e, p in feeds:
        key = (e.line, show(e.term))
        if key in seen:
            continue
        seen.add(key)
        n_feed += 1
        arg = e.term.args[-1] if e.term.args else None
        if arg is not None and not isinstance(arg, (ast.GeneratorExp, ast.ListComp)):
            arg = expand1(arg, p.events)
        if isinstance(arg, (ast.GeneratorExp, ast.ListComp)):
            g = arg.generators[0]
            t = g.target.id if isinstance(g.target, ast.Name) else "?"
            txt = show(arg)
            if ".source" in txt:
                rep.violation("C09.visit", e.loc(), "the visit also follows transitions backwards (`.source`): reachability becomes undirected", fn.key, norm_stmt(e.node))
                continue
            itx = g.iter
            ok = len(arg.generators) == 1 and not g.ifs and show(arg.elt) == f"{t}.target" and isinstance(itx, ast.Attribute) and \
                itx.attr == "transitions" and isinstance(itx.value, ast.Name) and itx.value.id.startswith("$c")
            rep.check(ok, "C09.visit", e.loc(), "what enters the worklist is the target of every outgoing transition of the state just visited (forward, unfiltered)",
                      fn.key, norm_stmt(e.node), feeds=txt)
        elif (isinstance(arg, ast.Attribute) and isinstance(arg.value, ast.Subscript) and isinstance(arg.value.value, ast.Attribute)
              and arg.value.value.attr == "transitions" and show(arg.value.slice).startswith("$k")):
            # explicit loop form: for t in <cur>.transitions: work.append(t.<attr>)
            src = expand1(arg.value.value.value, p.events)
            cur_ok = isinstance(src, ast.Call) and isinstance(src.func, ast.Attribute) and src.func.attr in ("popleft", "pop")
            cur_ok = cur_ok or (isinstance(src, ast.Subscript) and isinstance(src.slice, ast.Constant) and type(src.slice.value) is int
                                and show(src.value) == show(e.term.func.value))
            if not cur_ok:
                s2 = arg.value.value.value
                cur_ok = isinstance(s2, ast.Name) and s2.id.startswith("$c")
            it_ev = [x for x in p.events[: e.idx] if x.kind == "iter" and x.x.get("loop") == "for"]
            between = p.events[it_ev[-1].idx: e.idx] if it_ev else []
            unfiltered = bool(it_ev) and not any(b.kind == "branch" for b in between)
            if arg.attr == "source":
                rep.violation("C09.visit", e.loc(), "the visit also follows transitions backwards (`.source`): reachability becomes undirected", fn.key, norm_stmt(e.node))
                continue
            rep.check(cur_ok and unfiltered and arg.attr == "target" and e.term.func.attr in ("append", "appendleft"), "C09.visit", e.loc(),
                      "what enters the worklist is the target of every outgoing transition of the state just visited (forward, unfiltered)",
                      fn.key, norm_stmt(e.node), feeds=show(arg))
        elif arg is not None and (show(arg) == start or (isinstance(arg, (ast.List, ast.Tuple)) and [show(x) for x in arg.elts] == [start])):
            rep.ok("C09.visit", e.loc(), "the visit starts from the given state")
        else:
            txt = show(arg)
            if ".source" in txt:
                rep.violation("C09.visit", e.loc(), "the visit also follows transitions backwards (`.source`)", fn.key, norm_stmt(e.node))
            else:
                rep.unrecognised("C09.visit", e.loc(), f"worklist fed with `{txt}`")
    rep.floor("C09.visit", "distinct worklist feeding sites", n_feed, 2)


def rule_internal(ctx: Ctx):
    rep = ctx.rep
    fn = ctx.fn("Transition.__init__")
    n = 0
    for p in ctx.paths(fn, inline=None, exc_edges="none"):
        facts = {show(b.term): b.x["taken"] for b in p.of("branch")}
        internal = facts.get("internal")
        same = facts.get("source is target")
        if internal is True and same is False:
            n += 1
            regs = [e for e in p.calls() if isinstance(e.term.func, ast.Attribute) and e.term.func.attr in ("add", "grouper")]
            ok = p.kind == "raise" and xshow(p.value, p.events).startswith("InvalidDefinition(") and not regs
            rep.check(ok, "C09.internal", fn.loc(), "an internal transition between two different states is rejected before anything is registered",
                      fn.key, f"path ends with {p.kind} after {len(regs)} registrations")
        elif p.kind == "raise":
            rep.violation("C09.internal", fn.loc(), "Transition() rejects a definition that is not `internal and source is not target`", fn.key,
                          f"raise under {facts}")
    rep.check(n >= 1, "C09.internal", fn.loc(), "Transition() has a rejecting path for internal transitions between different states", fn.key,
              "no path tests `internal and source is not target`")
    ok_paths = [p for p in ctx.paths(fn, inline=None, exc_edges="none") if p.kind != "raise"]
    rep.check(len(ok_paths) >= 2, "C09.internal", fn.loc(), "external transitions and internal self-transitions are accepted", fn.key, f"{len(ok_paths)} accepting paths")


def rule_any(ctx: Ctx, rule: str = "C09.any"):
    rep = ctx.rep
    fn = ctx.fn("AnyState._on_event_defined")
    n = 0
    for p in ctx.paths(fn, inline=None, exc_edges="none", unroll=2):
        evs = p.events
        its = [e for e in evs if e.kind == "iter" and e.x.get("loop") == "for"]
        for i, it in enumerate(its):
            end = its[i + 1].idx if i + 1 < len(its) else len(evs)
            seg = evs[it.idx: end]
            elem = show(it.x["elem"])
            fin = [b for b in seg if b.kind == "branch" and show(expand1(b.term, evs)) == f"{elem}.final"]
            adds = [c for c in seg if c.kind == "call" and isinstance(c.term.func, ast.Attribute) and c.term.func.attr == "add_transitions"
                    and xshow(c.term.func.value, evs) == f"{elem}.transitions"]
            n += 1
            if not fin:
                rep.violation(rule, it.loc(), "from_.any() expansion does not look at the `final` flag of the state", fn.key, norm_stmt(it.node))
                continue
            if fin[0].x["taken"]:
                rep.check(not adds, rule, it.loc(), "from_.any() adds nothing to a final state", fn.key, "transition added to a final state")
            else:
                ok = len(adds) == 1
                if ok:
                    nt = expand(adds[0].term.args[0], evs)
                    ok = isinstance(nt, ast.Call) and show(nt.func).endswith("._copy_with_args") and any(
                        kw.arg == "source" and show(kw.value) == elem for kw in nt.keywords)
                rep.check(bool(ok), rule, it.loc(), "from_.any() adds one copy of the transition, sourced at that state, to every non-final state", fn.key,
                          "; ".join(c.show() for c in adds) or "nothing added to a non-final state")
        if its:
            rep.check(show(its[0].term) == fn.params[3] if len(fn.params) > 3 else True, rule, its[0].loc(),
                      "the expansion ranges over the states handed in by the metaclass", fn.key, norm_stmt(its[0].node))
    rep.floor(rule, "iterations of the any() expansion", n, 2)


def rule_any_expanded_for_every_event(ctx: Ctx):
    """C09.any: the graph that is validated contains the per-state copies of every from_.any() transition, whatever the event
    name (also one that another transition or a base class already registered)."""
    from . import c15

    c15.rule_events(ctx, rule="C09.any")
    c15.rule_wiring(ctx, rule="C09.any")


RULES = [rule_calls, rule_pred, rule_visit, rule_internal, rule_any, rule_any_expanded_for_every_event]
