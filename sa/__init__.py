"""Static-analysis framework for python-statemachine (see /verif/DESIGN.md).

Nothing under /repo is imported or executed by this package: every verdict is computed from
the parsed source of the package as it stands when a check is invoked.
"""
