"""Compositional, path-sensitive walker over function ASTs.

Python is goto-free, so the control-flow graph of a function can be realised compositionally:
every statement maps an abstract state to a list of (state, outcome) pairs with outcome in
{fall, break, continue, return, raise}; `finally` blocks run on every outcome.  Expressions are
evaluated in continuation-passing style so that short-circuit operators, conditional expressions,
inlined callees and *exceptional edges out of calls* can fork a path in the middle of an
expression.

No program value is ever computed: local variables are bound to *terms* (AST expressions over the
function's parameters, free names and call-result placeholders `$cN`), which gives def-use /
derives-from facts for free ("the value written to the state is `transition.target`").
Branch conditions are atomic terms; a condition already decided on the path (same term, not
rooted in mutable `self` state) is followed with the same polarity, which removes the infeasible
combinations; constant conditions are folded.  Loops are unrolled up to a bound.

The result of enumerating a function is a list of `Path`s, each with its ordered `Ev` events
(call / store / bind / branch / await / return / raise / iter / handler / yield / comp / def).
"""

from __future__ import annotations

import ast
import builtins
import sys
from dataclasses import dataclass, field
from typing import Callable, Dict, List, Optional, Tuple

from .loader import AnalysisError, FuncInfo, Program

sys.setrecursionlimit(20000)

FALL = ("fall",)
BREAK = ("break",)
CONTINUE = ("continue",)


@dataclass(eq=False)
class Ev:
    kind: str
    term: Optional[ast.AST]
    node: Optional[ast.AST]
    fn: Optional[FuncInfo]
    x: dict = field(default_factory=dict)
    depth: int = 0
    idx: int = -1

    @property
    def line(self) -> int:
        return getattr(self.node, "lineno", 0) or 0

    def loc(self) -> str:
        if self.fn is None:
            return "?"
        return f"{self.fn.module.rel}:{self.line} {self.fn.qualname}"

    def show(self) -> str:
        t = show(self.term) if self.term is not None else ""
        if self.kind == "call":
            return ("await " if self.x.get("awaited") else "") + t
        if self.kind == "store":
            return f"{t} = {show(self.x.get('value'))}"
        if self.kind == "bind":
            return f"{self.x.get('name')} := {t}"
        if self.kind == "branch":
            return f"[{t}]=={self.x.get('taken')}"
        return f"{self.kind} {t}".strip()

    def __repr__(self):
        return f"<{self.kind} {self.show()} @{self.line}>"


class St:
    """Abstract state on one path.  Copy-on-write: env/known dicts are never mutated in place."""

    __slots__ = ("env", "events", "known", "frames", "exc", "heap")

    def __init__(self, env, events, known, frames, exc=None, heap=None):
        self.env = env
        self.events = events
        self.known = known
        self.frames = frames  # tuple of FuncInfo, innermost last
        self.exc = exc  # exception being handled (term, cls) inside a handler
        self.heap = heap or {}  # fields of objects constructed on this path: ('$new:C@L', attr) -> term

    def bind(self, name: str, term: ast.AST) -> "St":
        env = dict(self.env)
        env[name] = term
        # a re-bound local invalidates memoised conditions that mention it only through
        # substitution, which already changed the term - nothing else to do.
        return St(env, self.events, self.known, self.frames, self.exc, self.heap)

    def emit(self, ev: Ev) -> "St":
        ev.idx = len(self.events)
        ev.depth = len(self.frames) - 1
        return St(self.env, self.events + (ev,), self.known, self.frames, self.exc, self.heap)

    def know(self, key: str, val: bool) -> "St":
        known = dict(self.known)
        known[key] = val
        return St(self.env, self.events, known, self.frames, self.exc, self.heap)

    def forget(self, pred) -> "St":
        known = {k: v for k, v in self.known.items() if not pred(k)}
        if len(known) == len(self.known):
            return self
        return St(self.env, self.events, known, self.frames, self.exc, self.heap)

    def with_env(self, env, frames) -> "St":
        return St(env, self.events, self.known, frames, self.exc, self.heap)

    def put_field(self, obj: str, attr: str, v) -> "St":
        heap = dict(self.heap)
        heap[(obj, attr)] = v
        return St(self.env, self.events, self.known, self.frames, self.exc, heap)

    def with_exc(self, exc) -> "St":
        return St(self.env, self.events, self.known, self.frames, exc, self.heap)

    @property
    def fn(self) -> FuncInfo:
        return self.frames[-1]


@dataclass
class Path:
    events: Tuple[Ev, ...]
    outcome: tuple  # ('return', term) | ('raise', term, cls) | ('fall',)
    env: dict
    fn: FuncInfo
    heap: dict = field(default_factory=dict)  # fields of the objects constructed on the path

    def calls(self, pred=None) -> List[Ev]:
        return [e for e in self.events if e.kind == "call" and (pred is None or pred(e))]

    def of(self, *kinds) -> List[Ev]:
        return [e for e in self.events if e.kind in kinds]

    @property
    def kind(self) -> str:
        return self.outcome[0]

    @property
    def value(self):
        return self.outcome[1] if len(self.outcome) > 1 else None

    def valuation(self) -> Dict[str, bool]:
        out = {}
        for e in self.events:
            if e.kind == "branch":
                out[show(e.term)] = e.x["taken"]
        return out

    def trace(self, depth: Optional[int] = None) -> List[str]:
        return [e.show() for e in self.events if depth is None or e.depth <= depth]


# ----------------------------------------------------------------------------- term helpers


def show(t) -> str:
    if t is None:
        return "None"
    if isinstance(t, str):
        return t
    try:
        return ast.unparse(t)
    except Exception:  # pragma: no cover
        return ast.dump(t)


def key_of(t: ast.AST) -> str:
    return ast.dump(t)


def N(name: str) -> ast.Name:
    return ast.Name(id=name, ctx=ast.Load())


def is_placeholder(t, prefix="$") -> bool:
    return isinstance(t, ast.Name) and t.id.startswith(prefix)


def mentions(t: ast.AST, name: str) -> bool:
    return any(isinstance(n, ast.Name) and n.id == name for n in ast.walk(t))


def subterms(t: ast.AST):
    return ast.walk(t)


def contains_call(node: ast.AST) -> bool:
    return any(isinstance(n, (ast.Call, ast.Await, ast.Yield, ast.YieldFrom)) for n in ast.walk(node))


def attr_chain(t: ast.AST) -> Optional[List[str]]:
    """`a.b.c` -> ['a','b','c'] for pure Name/Attribute chains, else None."""
    out = []
    while isinstance(t, ast.Attribute):
        out.append(t.attr)
        t = t.value
    if isinstance(t, ast.Name):
        out.append(t.id)
        return list(reversed(out))
    return None


def const_truth(t: ast.AST) -> Optional[bool]:
    """Truth value of a term when it is decided by its shape alone."""
    if isinstance(t, ast.Constant):
        return bool(t.value)
    if isinstance(t, (ast.Tuple, ast.List, ast.Set)) and not any(isinstance(e, ast.Starred) for e in t.elts):
        return len(t.elts) > 0
    if isinstance(t, ast.Dict) and all(k is not None for k in t.keys):
        return len(t.keys) > 0
    if isinstance(t, ast.UnaryOp) and isinstance(t.op, ast.Not):
        v = const_truth(t.operand)
        return None if v is None else (not v)
    if isinstance(t, ast.Compare) and len(t.ops) == 1:
        op, a, b = t.ops[0], t.left, t.comparators[0]
        if isinstance(op, (ast.Is, ast.IsNot)):
            same = None
            if key_of(a) == key_of(b) and not contains_call(a):
                same = True
            elif isinstance(a, ast.Constant) and isinstance(b, ast.Constant):
                same = a.value is b.value
            elif (isinstance(a, ast.Constant) and a.value is None and _is_fresh_object(b)) or (
                isinstance(b, ast.Constant) and b.value is None and _is_fresh_object(a)
            ):
                same = False
            if same is not None:
                return same if isinstance(op, ast.Is) else (not same)
    return None


def _is_fresh_object(t: ast.AST) -> bool:
    return isinstance(t, (ast.Tuple, ast.List, ast.Dict, ast.Set, ast.JoinedStr, ast.Lambda)) or (
        isinstance(t, ast.Name) and t.id.startswith("$def:")
    )


_BUILTIN_EXC = {n: getattr(builtins, n) for n in dir(builtins)
                if isinstance(getattr(builtins, n), type) and issubclass(getattr(builtins, n), BaseException)}


# ----------------------------------------------------------------------------- the enumerator


def _format_to_joinedstr(n: ast.Call):
    """`"lit{}…".format(a, b)` with plain positional fields is the f-string `f"lit{a}…"`: same value, same
    evaluation order of the arguments.  Anything else (keywords, format specs, attribute fields) -> None."""
    f = n.func
    if not (isinstance(f, ast.Attribute) and f.attr == "format" and isinstance(f.value, ast.Constant) and isinstance(f.value.value, str)):
        return None
    if n.keywords or any(isinstance(a, ast.Starred) for a in n.args):
        return None
    import string

    try:
        parts = list(string.Formatter().parse(f.value.value))
    except ValueError:
        return None
    values = []
    auto = 0
    used = []
    for lit, field, spec, conv in parts:
        if lit:
            values.append(ast.Constant(value=lit))
        if field is None:
            continue
        if spec:
            return None
        if field == "":
            idx = auto
            auto += 1
        elif field.isdigit():
            idx = int(field)
        else:
            return None
        if idx >= len(n.args):
            return None
        used.append(idx)
        values.append(ast.FormattedValue(value=n.args[idx], conversion=ord(conv) if conv else -1, format_spec=None))
    if used != list(range(len(n.args))):
        return None  # an argument reused, skipped or out of order: keep the call as it is
    node = ast.JoinedStr(values=values)
    return ast.copy_location(node, n)


def _percent_to_joinedstr(n: ast.BinOp):
    """`"lit%s…" % (a, b)` with plain %s / %r fields is the f-string `f"lit{a}…"` (for the str/int values these keys are
    built from); anything else -> None."""
    if not (isinstance(n.op, ast.Mod) and isinstance(n.left, ast.Constant) and isinstance(n.left.value, str)):
        return None
    args = list(n.right.elts) if isinstance(n.right, ast.Tuple) else [n.right]
    if any(isinstance(a, (ast.Starred, ast.Dict)) for a in args):
        return None
    import re as _re

    parts = _re.split(r"(%[srd%])", n.left.value)
    if "%" in "".join(p_ for p_ in parts if p_ not in ("%s", "%r", "%d", "%%")):
        return None
    values, i = [], 0
    for p_ in parts:
        if p_ in ("%s", "%r", "%d"):
            if i >= len(args):
                return None
            values.append(ast.FormattedValue(value=args[i], conversion=ord("r") if p_ == "%r" else -1, format_spec=None))
            i += 1
        elif p_ == "%%":
            values.append(ast.Constant(value="%"))
        elif p_:
            values.append(ast.Constant(value=p_))
    if i != len(args):
        return None
    return ast.copy_location(ast.JoinedStr(values=values), n)


def _literal_kwargs(v: ast.AST, events):
    """Keywords of `**v` when v is a dict display with constant string keys that nothing touched since."""
    if isinstance(v, ast.Dict) and v.values and all(
            k_ is None or (isinstance(k_, ast.Constant) and isinstance(k_.value, str) and k_.value.isidentifier()) for k_ in v.keys):
        # f(**{"a": x, **rest}) is f(a=x, **rest)
        return [ast.keyword(arg=(k_.value if k_ is not None else None), value=val) for k_, val in zip(v.keys, v.values)]
    if not (isinstance(v, ast.Name) and v.id.startswith("$l") and v.id[2:].isdigit()):
        return None
    i = int(v.id[2:])
    if i >= len(events) or events[i].kind != "alloc" or not isinstance(events[i].term, ast.Dict):
        return None
    d = events[i].term
    if any(k_ is None or not (isinstance(k_, ast.Constant) and isinstance(k_.value, str) and k_.value.isidentifier()) for k_ in d.keys):
        return None
    for e in events[i + 1:]:
        if e.term is None:
            continue
        if e.kind == "store" and e.x.get("subscript") and show(e.term.value) == v.id:
            return None
        if e.kind == "call" and isinstance(e.term.func, ast.Attribute) and show(e.term.func.value) == v.id:
            return None
        if e.kind == "call" and any(show(a) == v.id for a in list(e.term.args) + [kw.value for kw in e.term.keywords if kw.arg is not None]):
            return None  # handed to other code, which may mutate it
    return [ast.keyword(arg=k_.value, value=val) for k_, val in zip(d.keys, d.values)]


class Enumerator:
    def __init__(
        self,
        program: Program,
        resolver=None,
        inline: Optional[Callable[[FuncInfo, int, ast.Call], bool]] = None,
        max_depth: int = 3,
        unroll: int = 2,
        exc_edges: str = "try",  # 'none' | 'try' (calls inside try bodies) | 'all'
        base_exc: bool = False,  # also generate BaseException-only exceptional edges
        memo_self: bool = False,  # memoise conditions rooted in `self`
        max_results: int = 60000,
        may_raise: Optional[Callable[["Ev"], bool]] = None,  # which calls get an exceptional edge
        stable_self_attrs: Optional[set] = None,  # init-only, non-container attributes of `self`
    ):
        self.may_raise = may_raise
        self.stable_self_attrs = stable_self_attrs or set()
        self.p = program
        self.r = resolver
        self.inline_pred = inline
        self.max_depth = max_depth
        self.unroll = unroll
        self.exc_edges = exc_edges
        self.base_exc = base_exc
        self.memo_self = memo_self
        self.max_results = max_results
        self.truncated = 0
        self._try_depth = 0
        self._budget = 0

    # ------------------------------------------------------------------ public
    def paths(self, fn: FuncInfo, bindings: Optional[Dict[str, ast.AST]] = None) -> List[Path]:
        env = {}
        a = fn.node.args
        for arg in a.posonlyargs + a.args + a.kwonlyargs:
            env[arg.arg] = N(arg.arg)
        if a.vararg:
            env[a.vararg.arg] = N(a.vararg.arg)
        if a.kwarg:
            env[a.kwarg.arg] = N(a.kwarg.arg)
        heap0 = None
        if bindings:
            bindings = dict(bindings)
            heap0 = bindings.pop("$heap", None)
            env.update(bindings)
        st = St(env, (), {}, (fn,), None, dict(heap0) if heap0 else None)
        self.truncated = 0
        self._budget = 0
        self._try_depth = 1 if self.exc_edges == "all" else 0
        body = self._body_of(fn) if not isinstance(fn.node, ast.Lambda) else [ast.Return(value=fn.node.body)]
        out = []
        for s, oc in self.block(body, st):
            if oc[0] in ("break", "continue"):
                raise AnalysisError(f"{fn.key}: loop outcome escaped the function")
            out.append(Path(s.events, oc, s.env, fn, dict(s.heap)))
        return out

    # ------------------------------------------------------------------ statements
    def block(self, stmts, st: St):
        states = [(st, FALL)]
        for s in stmts:
            nxt = []
            for cur, oc in states:
                if oc is not FALL:
                    nxt.append((cur, oc))
                    continue
                nxt.extend(self.stmt(s, cur))
            states = nxt
            self._budget_check(len(states))
        return states

    def _budget_check(self, n):
        if n > self.max_results:
            raise AnalysisError(f"path explosion (> {self.max_results} partial paths)")

    def stmt(self, s: ast.stmt, st: St):
        m = getattr(self, "s_" + type(s).__name__, None)
        if m is None:
            raise AnalysisError(f"unsupported statement {type(s).__name__} at {st.fn.loc(s)}")
        return m(s, st)

    def s_Pass(self, s, st):
        return [(st, FALL)]

    s_Global = s_Nonlocal = s_Import = s_ImportFrom = s_Pass

    def s_Expr(self, s, st):
        return self.ev(s.value, st, lambda st2, v: [(st2, FALL)])

    def s_Assign(self, s, st):
        def k(st2, v):
            # a mutable display bound to a local keeps its identity (`$lN`), so later stores into it
            # and uses of it can be related to the variable
            if isinstance(v, (ast.Dict, ast.List, ast.Set)) and len(s.targets) == 1 and isinstance(s.targets[0], ast.Name) \
                    and isinstance(s.value, (ast.Dict, ast.List, ast.Set)):
                ev = Ev("alloc", v, s, st2.fn, {"name": s.targets[0].id})
                st2 = st2.emit(ev)
                v = N(f"$l{ev.idx}")
            return self.store_all(list(s.targets), v, st2, s, lambda st3: [(st3, FALL)])

        return self.ev(s.value, st, k)

    def s_AnnAssign(self, s, st):
        if s.value is None:
            return [(st, FALL)]

        def k(st2, v):
            if isinstance(v, (ast.Dict, ast.List, ast.Set)) and isinstance(s.target, ast.Name) and isinstance(s.value, (ast.Dict, ast.List, ast.Set)):
                ev = Ev("alloc", v, s, st2.fn, {"name": s.target.id})
                st2 = st2.emit(ev)
                v = N(f"$l{ev.idx}")
            return self.store(s.target, v, st2, s, lambda st3: [(st3, FALL)])

        return self.ev(s.value, st, k)

    def s_AugAssign(self, s, st):
        load = _as_load(s.target)

        def k(st2, cur):
            def k2(st3, v):
                new = ast.BinOp(left=cur, op=s.op, right=v)
                if isinstance(s.op, (ast.Add, ast.Sub)) and all(isinstance(x, ast.Constant) and type(x.value) is int for x in (cur, v)):
                    new = ast.Constant(value=cur.value + v.value if isinstance(s.op, ast.Add) else cur.value - v.value)
                return self.store(s.target, new, st3, s, lambda st4: [(st4, FALL)])

            return self.ev(s.value, st2, k2)

        return self.ev(load, st, k)

    def s_Return(self, s, st):
        if s.value is None:
            st = st.emit(Ev("return", ast.Constant(value=None), s, st.fn))
            return [(st, ("return", ast.Constant(value=None)))]

        def k(st2, v):
            st3 = st2.emit(Ev("return", v, s, st2.fn))
            return [(st3, ("return", v))]

        return self.ev(s.value, st, k)

    def s_Raise(self, s, st):
        if s.exc is None:
            exc = st.exc or (N("$exc"), "Exception*")
            st2 = st.emit(Ev("raise", exc[0], s, st.fn, {"cls": exc[1], "reraise": True}))
            return [(st2, ("raise", exc[0], exc[1]))]

        def k(st2, v):
            cls = _exc_class_of(v)
            st3 = st2.emit(Ev("raise", v, s, st2.fn, {"cls": cls, "reraise": False,
                                                      "cause": s.cause is not None}))
            return [(st3, ("raise", v, cls))]

        return self.ev(s.exc, st, k)

    def s_Assert(self, s, st):
        return self.ev(s.test, st, lambda st2, v: [(st2.emit(Ev("assume", v, s, st2.fn)), FALL)])

    def s_Delete(self, s, st):
        def k(st2, vals):
            for v in vals:
                st2 = st2.emit(Ev("delete", v, s, st2.fn))
            return [(st2, FALL)]

        return self.ev_list([_as_load(t) for t in s.targets], st, k)

    def s_Break(self, s, st):
        return [(st, BREAK)]

    def s_Continue(self, s, st):
        return [(st, CONTINUE)]

    def s_FunctionDef(self, s, st):
        qn = self._nested_qualname(st.fn, s.name)
        t = N(f"$def:{qn}")
        st2 = st.bind(s.name, t).emit(Ev("def", t, s, st.fn, {"name": s.name}))
        return [(st2, FALL)]

    s_AsyncFunctionDef = s_FunctionDef

    def s_ClassDef(self, s, st):
        t = N(f"$class:{s.name}")
        return [(st.bind(s.name, t), FALL)]

    def _nested_qualname(self, fn: FuncInfo, name: str) -> str:
        return f"{fn.qualname}.{name}"

    def s_If(self, s, st):
        return self.branch(s.test, st, s, lambda st2, taken: self.block(s.body if taken else s.orelse, st2))

    def s_While(self, s, st):
        def iterate(cur, i):
            def kb(st2, taken):
                if not taken:
                    return self.block(s.orelse, st2)
                if i == self.unroll:
                    self.truncated += 1
                    return []
                st2 = st2.emit(Ev("iter", None, s, st2.fn, {"k": i, "loop": "while"}))
                out = []
                for st3, oc in self.block(s.body, st2):
                    if oc is FALL or oc is CONTINUE:
                        out.extend(iterate(st3, i + 1))
                    elif oc is BREAK:
                        out.append((st3, FALL))
                    else:
                        out.append((st3, oc))
                self._budget_check(len(out))
                return out

            return self.branch(s.test, cur, s, kb, memo=False)

        return iterate(st, 0)

    def _body_of(self, fn: FuncInfo):
        if getattr(self, "comps_for_loops", False):
            from .normalize import comps_for_loops_body
            return comps_for_loops_body(fn.node)
        return fn.node.body

    def _gen_callee(self, call: ast.Call, st: St):
        """The package generator function `call` would be inlined as, or None."""
        if self.inline_pred is None or self.r is None or not isinstance(call, ast.Call):
            return None
        try:
            callees = self.r.resolve_call(_Subst(st.env).visit(_deepcopy(call)), st)
        except Exception:
            return None
        self._allow_generator = True
        try:
            target = self._inline_target(callees, st, call)
        finally:
            self._allow_generator = False
        if target is None or not any(isinstance(x, (ast.Yield, ast.YieldFrom)) for x in _own_nodes_of(target.node)):
            return None
        return target

    def _for_over_generator(self, s, st, callee: FuncInfo):
        """`for x in gen(...): body` with gen an inlined generator: gen's body runs, and at each of its yields the loop
        body runs with x bound to the yielded value (break stops the generator, continue resumes it)."""
        n = s.iter
        kwnodes = [kw.value for kw in n.keywords]
        if not hasattr(self, "_gen_ctx"):
            self._gen_ctx, self._yield_hooks = {}, []

        def save_caller(env, frames):
            key = f"$gc{len(self._gen_ctx)}"
            self._gen_ctx[key] = (env, frames)
            return N(key)

        def kf(st1, f):
            def kargs(st2, vals):
                args = vals[: len(n.args)]
                kws = [ast.keyword(arg=kw.arg, value=v) for kw, v in zip(n.keywords, vals[len(n.args):])]
                term = ast.Call(func=f, args=args, keywords=kws)
                ev = Ev("call", term, n, st2.fn, {"awaited": False, "callee": self.r.resolve_call(term, st2), "env": st2.env,
                                                  "try": self._try_depth > 0, "generator_loop": True})
                st3 = st2.emit(ev)
                genv = self._bind_params(callee, term, st3)
                caller_frames = st3.frames
                genv["$caller"] = save_caller(st3.env, caller_frames)
                st_in = st3.emit(Ev("enter", N(callee.qualname), term, st3.fn, {"callee": callee}))
                st_in = st_in.with_env(genv, caller_frames + (callee,))

                def hook(stg, v):
                    gen_env, gen_frames = stg.env, stg.frames
                    cenv, cframes = self._gen_ctx[gen_env["$caller"].id]
                    stc = stg.with_env(cenv, cframes)
                    self._yield_hooks.pop()
                    try:
                        results = self.store(s.target, v, stc, s, lambda st5: self.block(s.body, st5))
                    finally:
                        self._yield_hooks.append(hook)
                    out = []
                    for st6, oc in results:
                        env2 = dict(gen_env)
                        env2["$caller"] = save_caller(st6.env, cframes)
                        out.append((st6.with_env(env2, gen_frames), oc))
                    return out

                hook.callee = callee
                self._yield_hooks.append(hook)
                try:
                    body_res = self.block(self._body_of(callee), st_in)
                finally:
                    self._yield_hooks.pop()
                out = []
                for st7, oc in body_res:
                    cenv, cframes = self._gen_ctx[st7.env["$caller"].id] if "$caller" in st7.env else (st3.env, caller_frames)
                    back = st7.with_env(cenv, cframes)
                    if oc is FALL or oc[0] == "return":
                        back = back.emit(Ev("leave", None, term, st3.fn, {"callee": callee, "generator_loop": True}))
                        out.extend(self.block(s.orelse, back))
                    elif oc[0] == "genstop":
                        back = back.emit(Ev("leave", None, term, st3.fn, {"callee": callee, "generator_loop": True, "stopped": True}))
                        out.append((back, FALL if oc[1] is None else oc[1]))
                    else:
                        out.append((back, oc))
                return out

            return self.ev_list(list(n.args) + kwnodes, st1, kargs)

        return self.ev(n.func, st, kf)

    def s_For(self, s, st):
        if isinstance(s.iter, ast.Call) and not isinstance(s, ast.AsyncFor):
            it = s.iter
            if isinstance(it.func, ast.Name) and it.func.id == "map" and "map" not in st.env and len(it.args) == 2 and not it.keywords:
                # for x in map(f, xs): body   ==   for _m in xs: x = f(_m); body      (map is lazy)
                tmp = f"__map{getattr(s, 'lineno', 0)}"
                asg = ast.Assign(targets=[s.target], value=ast.Call(func=it.args[0], args=[ast.Name(id=tmp, ctx=ast.Load())], keywords=[]))
                new = ast.For(target=ast.Name(id=tmp, ctx=ast.Store()), iter=it.args[1], body=[asg] + list(s.body), orelse=list(s.orelse))
                for x_ in (asg, new):
                    ast.copy_location(x_, s)
                ast.fix_missing_locations(new)
                return self.s_For(new, st)
            callee = self._gen_callee(it, st)
            if callee is not None:
                return self._for_over_generator(s, st, callee)

        def k(st0, it):
            def _has_own_break(stmts):
                for x_ in stmts:
                    if isinstance(x_, ast.Break):
                        return True
                    if isinstance(x_, (ast.For, ast.While, ast.AsyncFor, ast.FunctionDef, ast.AsyncFunctionDef, ast.ClassDef)):
                        if _has_own_break(getattr(x_, "orelse", [])):
                            return True
                        continue
                    for fld in ("body", "orelse", "finalbody"):
                        if _has_own_break(getattr(x_, fld, []) or []):
                            return True
                    for h_ in getattr(x_, "handlers", []) or []:
                        if _has_own_break(h_.body):
                            return True
                return False

            if isinstance(it, ast.GeneratorExp) and not any(g_.is_async for g_ in it.generators) \
                    and not getattr(s, "_from_genexp", False) \
                    and (len(it.generators) == 1 or (not _has_own_break(s.body) and not s.orelse)):
                # for x in (elt for v in xs if c): body   ==   for v in xs: if not c: continue; x = elt; body   (lazy);
                # several `for` clauses nest (allowed when the body has no break of its own and there is no else)
                bound = {t.id for g_ in it.generators for t in ast.walk(g_.target) if isinstance(t, ast.Name)}
                ren = {b: f"__g{getattr(s, 'lineno', 0)}_{b}" for b in bound}

                class _R(ast.NodeTransformer):
                    def visit_Name(self, nd):
                        return ast.Name(id=ren[nd.id], ctx=nd.ctx) if nd.id in ren else nd

                inner = [ast.Assign(targets=[s.target], value=_R().visit(_deepcopy(it.elt)))] + list(s.body)
                new = None
                for gi, g in reversed(list(enumerate(it.generators))):
                    guards = [ast.If(test=ast.UnaryOp(op=ast.Not(), operand=_R().visit(_deepcopy(c))), body=[ast.Continue()], orelse=[]) for c in g.ifs]
                    iter_ = g.iter if gi == 0 else _R().visit(_deepcopy(g.iter))
                    new = ast.For(target=_R().visit(_deepcopy(g.target)), iter=iter_, body=guards + inner,
                                  orelse=list(s.orelse) if gi == 0 else [])
                    new._from_genexp = True
                    inner = [new]
                for x_ in ast.walk(new):
                    if isinstance(x_, (ast.stmt, ast.expr)) and not hasattr(x_, "lineno"):
                        ast.copy_location(x_, s)
                ast.copy_location(new, s)
                ast.fix_missing_locations(new)
                return self.s_For(new, st0)
            literal = None
            if isinstance(it, (ast.Tuple, ast.List)) and not any(isinstance(e, ast.Starred) for e in it.elts):
                literal = list(it.elts)
            bound = self.unroll if literal is None else len(literal)

            def iterate(cur, i):
                out = []
                if literal is None or i == len(literal):
                    st_ex = cur.emit(Ev("exhaust", it, s, cur.fn, {"k": i}))
                    out.extend(self.block(s.orelse, st_ex))
                if i == bound:
                    if literal is None:
                        self.truncated += 1
                    return out
                elem = literal[i] if literal is not None else ast.Subscript(
                    value=it, slice=N(f"$k{i}"), ctx=ast.Load())
                st2 = cur.emit(Ev("iter", it, s, cur.fn, {"k": i, "loop": "for", "elem": elem}))

                def kb(st3):
                    res = []
                    for st4, oc in self.block(s.body, st3):
                        if oc is FALL or oc is CONTINUE:
                            res.extend(iterate(st4, i + 1))
                        elif oc is BREAK:
                            res.append((st4, FALL))
                        else:
                            res.append((st4, oc))
                    return res

                out.extend(self.store(s.target, elem, st2, s, kb))
                self._budget_check(len(out))
                return out

            return iterate(st0, 0)

        return self.ev(s.iter, st, k)

    s_AsyncFor = s_For

    def s_With(self, s, st):
        """`with X [as y]: body`  ==  y = X.__enter__(); try: body; finally: X.__exit__(...)  (exceptions are not
        suppressed unless __exit__ is known to; package context managers are inlined like any new helper)."""
        def go(items, st1):
            if not items:
                return self.block(s.body, st1)
            item = items[0]

            def k(st2, v):
                st2 = st2.emit(Ev("with", v, s, st2.fn))
                tmp = f"__with{len(st2.events)}"
                st2 = St({**st2.env, tmp: v}, st2.events, st2.known, st2.frames, st2.exc, st2.heap)
                enter = ast.Call(func=ast.Attribute(value=ast.Name(id=tmp, ctx=ast.Load()), attr="__enter__", ctx=ast.Load()), args=[], keywords=[])
                exit_ = ast.Call(func=ast.Attribute(value=ast.Name(id=tmp, ctx=ast.Load()), attr="__exit__", ctx=ast.Load()),
                                 args=[ast.Constant(value=None)] * 3, keywords=[])
                ast.copy_location(enter, s)
                ast.copy_location(exit_, s)
                ast.fix_missing_locations(enter)
                ast.fix_missing_locations(exit_)

                def after_enter(st3, ev_):
                    def body(st4):
                        self._try_depth += 1
                        try:
                            res = go(items[1:], st4)
                        finally:
                            self._try_depth -= 1
                        out = []
                        for st5, oc in res:
                            st5 = st5.emit(Ev("finally", None, s, st5.fn, {"pending": oc[0], "with": True}))
                            # restore the temp binding (an inner frame may have replaced env)
                            st5 = St({**st5.env, tmp: v}, st5.events, st5.known, st5.frames, st5.exc, st5.heap)
                            for st6, oc6 in self.ev(exit_, st5, lambda st7, _x: [(st7, FALL)]):
                                out.append((st6, oc if oc6 is FALL else oc6))
                        return out

                    if item.optional_vars is not None:
                        return self.store(item.optional_vars, ev_, st3, s, body)
                    return body(st3)

                return self.ev(enter, st2, after_enter)

            return self.ev(item.context_expr, st1, k)

        return go(list(s.items), st)

    s_AsyncWith = s_With

    def s_Try(self, s, st):
        self._try_depth += 1
        try:
            body_res = self.block(s.body, st)
        finally:
            self._try_depth -= 1
        after_handlers = []
        for st2, oc in body_res:
            if oc is FALL:
                after_handlers.extend(self.block(s.orelse, st2))
            elif oc[0] == "raise":
                after_handlers.extend(self._dispatch(s, st2, oc))
            else:
                after_handlers.append((st2, oc))
        if not s.finalbody:
            return after_handlers
        out = []
        for st2, oc in after_handlers:
            st2f = st2.emit(Ev("finally", None, s, st2.fn, {"pending": oc[0]}))
            for st3, oc3 in self.block(s.finalbody, st2f):
                out.append((st3, oc if oc3 is FALL else oc3))
        return out

    s_TryStar = s_Try

    def _dispatch(self, s: ast.Try, st: St, oc):
        """Route a raise outcome through the handlers of `s`."""
        _, exc_term, cls = oc
        out = []
        for h in s.handlers:
            m = self._handler_match(h, cls, st)
            if m == "no":
                continue
            st_h = st.emit(Ev("handler", _as_term(h.type), h, st.fn, {"exc": cls, "match": m}))
            st_h = st_h.with_exc((exc_term, cls))
            if h.name:
                st_h = st_h.bind(h.name, exc_term)
            for st3, oc3 in self.block(h.body, st_h):
                out.append((st3.with_exc(st.exc), oc3))
            if m == "yes":
                return out
            # m == 'maybe': also continue to next handlers / propagation
        out.append((st, oc))
        return out

    def _handler_match(self, h: ast.ExceptHandler, cls: str, st: St) -> str:
        if h.type is None:
            return "yes"
        names = []
        ts = h.type.elts if isinstance(h.type, ast.Tuple) else [h.type]
        for t in ts:
            names.append(show(t).split(".")[-1])
        if "BaseException" in names:
            return "yes"
        if cls == "BaseException*":
            return "no"
        if "Exception" in names:
            return "yes"
        if cls == "Exception*":
            return "maybe"
        # concrete class name: use builtin hierarchy and package hierarchy
        for n in names:
            if self._exc_subclass(cls, n):
                return "yes"
        return "no"

    def _exc_subclass(self, cls: str, base: str) -> bool:
        if cls == base:
            return True
        if cls in _BUILTIN_EXC and base in _BUILTIN_EXC:
            return issubclass(_BUILTIN_EXC[cls], _BUILTIN_EXC[base])
        c = self.p.classes.get(cls)
        if c is not None:
            for m in self.p.mro(c):
                if m.name == base:
                    return True
                for b in m.bases:
                    bn = b.split(".")[-1]
                    if bn == base:
                        return True
                    if bn in _BUILTIN_EXC and base in _BUILTIN_EXC and issubclass(_BUILTIN_EXC[bn], _BUILTIN_EXC[base]):
                        return True
        return False

    # ------------------------------------------------------------------ stores
    def store_all(self, targets, v, st, node, k):
        if not targets:
            return k(st)
        return self.store(targets[0], v, st, node, lambda st2: self.store_all(targets[1:], v, st2, node, k))

    def store(self, target, v, st: St, node, k):
        if isinstance(target, ast.Name):
            st2 = st.bind(target.id, v).emit(Ev("bind", v, node, st.fn, {"name": target.id}))
            return k(st2)
        if isinstance(target, (ast.Tuple, ast.List)):
            elts = list(target.elts)

            def go(i, st1):
                if i == len(elts):
                    return k(st1)
                t = elts[i]
                if isinstance(t, ast.Starred):
                    sub = ast.Subscript(value=v, slice=N(f"$rest{i}"), ctx=ast.Load())
                    return self.store(t.value, sub, st1, node, lambda st2: go(i + 1, st2))
                if isinstance(v, (ast.Tuple, ast.List)) and len(v.elts) == len(elts) and not any(
                        isinstance(e, ast.Starred) for e in v.elts):
                    sub = v.elts[i]
                else:
                    sub = ast.Subscript(value=v, slice=ast.Constant(value=i), ctx=ast.Load())
                return self.store(t, sub, st1, node, lambda st2: go(i + 1, st2))

            return go(0, st)
        if isinstance(target, ast.Attribute):
            def ka(st2, base):
                t = ast.Attribute(value=base, attr=target.attr, ctx=ast.Load())
                st3 = st2.emit(Ev("store", t, node, st2.fn, {"value": v, "attr": target.attr}))
                st3 = st3.forget(lambda key, a=target.attr: f"attr='{a}'" in key)
                if isinstance(base, ast.Name) and base.id.startswith("$new:"):
                    st3 = st3.put_field(base.id, target.attr, v)
                return k(st3)

            return self.ev(target.value, st, ka)
        if isinstance(target, ast.Subscript):
            def ks(st2, vals):
                t = ast.Subscript(value=vals[0], slice=vals[1], ctx=ast.Load())
                st3 = st2.emit(Ev("store", t, node, st2.fn, {"value": v, "subscript": True}))
                return k(st3)

            return self.ev_list([target.value, target.slice], st, ks)
        if isinstance(target, ast.Starred):
            return self.store(target.value, v, st, node, k)
        raise AnalysisError(f"unsupported store target {type(target).__name__} at {st.fn.loc(node)}")

    # ------------------------------------------------------------------ branching
    def branch(self, test, st: St, node, k, memo=True):
        """Call k(state, bool) for each feasible polarity of `test`, splitting and/or/not."""
        if isinstance(test, ast.UnaryOp) and isinstance(test.op, ast.Not):
            return self.branch(test.operand, st, node, lambda s, b: k(s, not b), memo)
        if isinstance(test, ast.BoolOp):
            is_and = isinstance(test.op, ast.And)

            def go(i, st1):
                def kk(s, b):
                    last = i == len(test.values) - 1
                    if last or (is_and and not b) or (not is_and and b):
                        return k(s, b)
                    return go(i + 1, s)

                return self.branch(test.values[i], st1, node, kk, memo)

            return go(0, st)

        def kv(st2, v):
            out = []
            for s, b in self._decide(v, st2, node, memo):
                out.extend(k(s, b))
            return out

        return self.ev(test, st, kv)

    def _decide(self, v, st: St, node, memo):
        c = const_truth(v)
        if c is not None:
            return [(st, c)]
        neg = False
        t = v
        while True:
            if isinstance(t, ast.UnaryOp) and isinstance(t.op, ast.Not):
                neg = not neg
                t = t.operand
                continue
            # canonical polarity: `a is not b` == not (a is b), `!=` == not `==`, `not in` == not `in`
            if isinstance(t, ast.Compare) and len(t.ops) == 1 and isinstance(t.ops[0], (ast.IsNot, ast.NotEq, ast.NotIn)):
                pos = {ast.IsNot: ast.Is, ast.NotEq: ast.Eq, ast.NotIn: ast.In}[type(t.ops[0])]()
                t = ast.Compare(left=t.left, ops=[pos], comparators=list(t.comparators))
                neg = not neg
                continue
            break
        key = key_of(t)
        memoizable = (memo and not contains_call(t) and (self.memo_self or self._self_stable(t))) or _placeholder_only(t)
        if memoizable and key in st.known:
            b = st.known[key]
            return [(st, (not b) if neg else b)]
        out = []
        for b in (True, False):
            s2 = st.emit(Ev("branch", t, node, st.fn, {"taken": b}))
            if memoizable:
                s2 = s2.know(key, b)
            out.append((s2, (not b) if neg else b))
        return out

    def _self_stable(self, t: ast.AST) -> bool:
        """No part of `t` reads mutable state of `self`: every `self.<a>` in it is an init-only,
        non-container attribute, and `self` does not occur otherwise."""
        ok = True

        def walk(n, parent_attr_of_self=False):
            nonlocal ok
            if isinstance(n, ast.Attribute) and isinstance(n.value, ast.Name) and n.value.id == "self":
                if n.attr not in self.stable_self_attrs:
                    ok = False
                return
            if isinstance(n, ast.Name) and n.id == "self":
                ok = False
                return
            for c in ast.iter_child_nodes(n):
                walk(c)

        walk(t)
        # a stable attribute used as the root of a longer chain reads another object's state
        for n in ast.walk(t):
            if isinstance(n, ast.Attribute) and isinstance(n.value, ast.Attribute) and isinstance(n.value.value, ast.Name) \
                    and n.value.value.id == "self":
                ok = False
        return ok

    # ------------------------------------------------------------------ expressions (CPS)
    def ev_list(self, nodes, st, k, acc=None):
        acc = acc or []
        if len(acc) == len(nodes):
            return k(st, list(acc))
        return self.ev(nodes[len(acc)], st, lambda st2, v: self.ev_list(nodes, st2, k, acc + [v]))

    def ev(self, node, st: St, k):
        if node is None:
            return k(st, None)
        m = getattr(self, "e_" + type(node).__name__, None)
        if m is None:
            raise AnalysisError(f"unsupported expression {type(node).__name__} at {st.fn.loc(node)}")
        return m(node, st, k)

    def e_Constant(self, n, st, k):
        return k(st, n)

    def e_Name(self, n, st, k):
        if n.id in st.env:
            return k(st, st.env[n.id])
        if self.r is not None:
            c = self.r.constant_tuple(n.id, st.fn)
            if c is not None:
                return k(st, c)
        return k(st, n)

    def e_Attribute(self, n, st, k):
        def ka(st2, v):
            if isinstance(v, ast.Name) and v.id.startswith("$new:") and (v.id, n.attr) in st2.heap:
                return k(st2, st2.heap[(v.id, n.attr)])  # field of an object built on this path
            idx = self._namedtuple_field(v, n.attr, st2)
            if idx is not None:
                # `nt.field` is `nt[i]`
                if isinstance(v, ast.Tuple) and idx < len(v.elts):
                    return k(st2, v.elts[idx])
                return k(st2, ast.Subscript(value=v, slice=ast.Constant(value=idx), ctx=ast.Load()))
            t = ast.Attribute(value=v, attr=n.attr, ctx=ast.Load())
            getter = self.r.property_getter(t, st2) if self.r is not None else None
            if getter is None:
                return k(st2, t)
            # a property read is a call: keep the identity of its result (`$pN`) and its position
            ev = Ev("prop", t, n, st2.fn, {"callee": getter, "try": self._try_depth > 0})
            st3 = st2.emit(ev)
            return k(st3, N(f"$p{ev.idx}")) + self._raise_variants(st3, n)

        return self.ev(n.value, st, ka)

    def e_Subscript(self, n, st, k):
        def kk(st2, vals):
            base, sl = vals
            if isinstance(base, (ast.Tuple, ast.List)) and isinstance(sl, ast.Constant) and isinstance(sl.value, int):
                if -len(base.elts) <= sl.value < len(base.elts) and not any(
                        isinstance(e, ast.Starred) for e in base.elts):
                    return k(st2, base.elts[sl.value])
            return k(st2, ast.Subscript(value=base, slice=sl, ctx=ast.Load()))

        return self.ev_list([n.value, n.slice], st, kk)

    def e_Slice(self, n, st, k):
        return self.ev_list([n.lower, n.upper, n.step], st,
                            lambda st2, v: k(st2, ast.Slice(lower=v[0], upper=v[1], step=v[2])))

    def e_Starred(self, n, st, k):
        return self.ev(n.value, st, lambda st2, v: k(st2, ast.Starred(value=v, ctx=ast.Load())))

    def e_Tuple(self, n, st, k):
        return self.ev_list(list(n.elts), st, lambda st2, v: k(st2, ast.Tuple(elts=v, ctx=ast.Load())))

    def e_List(self, n, st, k):
        return self.ev_list(list(n.elts), st, lambda st2, v: k(st2, ast.List(elts=v, ctx=ast.Load())))

    def e_Set(self, n, st, k):
        return self.ev_list(list(n.elts), st, lambda st2, v: k(st2, ast.Set(elts=v)))

    def e_Dict(self, n, st, k):
        nodes = []
        for kk_, vv in zip(n.keys, n.values):
            nodes.extend([kk_, vv])

        def kd(st2, vals):
            return k(st2, ast.Dict(keys=vals[0::2], values=vals[1::2]))

        return self.ev_list(nodes, st, kd)

    def e_JoinedStr(self, n, st, k):
        def kj(st2, vals):
            out = []
            for v in vals:
                if isinstance(v, ast.FormattedValue) and isinstance(v.value, ast.Constant) and isinstance(v.value.value, str) \
                        and v.conversion == -1 and v.format_spec is None:
                    v = ast.Constant(value=v.value.value)
                if isinstance(v, ast.Constant) and isinstance(v.value, str) and out and isinstance(out[-1], ast.Constant) and isinstance(out[-1].value, str):
                    out[-1] = ast.Constant(value=out[-1].value + v.value)
                else:
                    out.append(v)
            if len(out) == 1 and isinstance(out[0], ast.Constant):
                return k(st2, out[0])
            return k(st2, ast.JoinedStr(values=out))

        return self.ev_list(list(n.values), st, kj)

    def e_FormattedValue(self, n, st, k):
        return self.ev(n.value, st, lambda st2, v: k(st2, ast.FormattedValue(
            value=v, conversion=n.conversion, format_spec=n.format_spec)))

    def e_BinOp(self, n, st, k):
        js = _percent_to_joinedstr(n)
        if js is not None:
            return self.ev(js, st, k)
        def kb(st2, v):
            l, r = v
            if isinstance(n.op, (ast.Add, ast.Sub)) and all(isinstance(x, ast.Constant) and type(x.value) is int for x in (l, r)):
                return k(st2, ast.Constant(value=l.value + r.value if isinstance(n.op, ast.Add) else l.value - r.value))
            return k(st2, ast.BinOp(left=l, op=n.op, right=r))

        return self.ev_list([n.left, n.right], st, kb)

    def e_UnaryOp(self, n, st, k):
        return self.ev(n.operand, st, lambda st2, v: k(st2, ast.UnaryOp(op=n.op, operand=v)))

    def e_Compare(self, n, st, k):
        return self.ev_list([n.left] + list(n.comparators), st,
                            lambda st2, v: k(st2, ast.Compare(left=v[0], ops=list(n.ops), comparators=v[1:])))

    def e_BoolOp(self, n, st, k):
        # value position: split only when a later operand has effects (calls), so that laziness
        # is visible in the trace; otherwise keep the expression as one term.
        if not any(contains_call(v) for v in n.values[1:]):
            return self.ev_list(list(n.values), st, lambda st2, v: k(st2, ast.BoolOp(op=n.op, values=v)))
        is_and = isinstance(n.op, ast.And)

        def go(i, st1):
            def kv(st2, v):
                if i == len(n.values) - 1:
                    return k(st2, v)
                out = []
                for st3, b in self._decide(v, st2, n, memo=True):
                    if (is_and and not b) or ((not is_and) and b):
                        out.extend(k(st3, v))
                    else:
                        out.extend(go(i + 1, st3))
                return out

            return self.ev(n.values[i], st1, kv)

        return go(0, st)

    def e_IfExp(self, n, st, k):
        return self.branch(n.test, st, n, lambda st2, taken: self.ev(n.body if taken else n.orelse, st2, k))

    def e_NamedExpr(self, n, st, k):
        return self.ev(n.value, st, lambda st2, v: k(st2.bind(n.target.id, v), v))

    def e_Lambda(self, n, st, k):
        t = N(f"$lambda:{st.fn.qualname}@{n.lineno}")
        return k(st.emit(Ev("def", t, n, st.fn, {"lambda": n})), t)

    def e_Yield(self, n, st, k):
        def ky(st2, v):
            hooks = getattr(self, "_yield_hooks", None)
            if hooks and st2.frames and st2.frames[-1] is hooks[-1].callee and "$caller" in st2.env:
                out = []
                for stg, oc in hooks[-1](st2, v if v is not None else ast.Constant(value=None)):
                    if oc is FALL or oc is CONTINUE:
                        out.extend(k(stg, ast.Constant(value=None)))
                    elif oc is BREAK:
                        out.append((stg, ("genstop", None)))
                    else:
                        out.append((stg, ("genstop", oc)))
                return out
            st3 = st2.emit(Ev("yield", v, n, st2.fn))
            return k(st3, N(f"$y{len(st3.events)}"))

        return self.ev(n.value, st, ky)

    def e_YieldFrom(self, n, st, k):
        hooks = getattr(self, "_yield_hooks", None)
        driven = bool(hooks and st.frames and st.frames[-1] is hooks[-1].callee and "$caller" in st.env)
        if driven and not (isinstance(n.value, ast.Call) and self._gen_callee(n.value, st) is not None):
            # inside a generator that a caller's `for` drives: `yield from xs`  ==  `for _v in xs: yield _v`
            tmp = f"__yf{getattr(n, 'lineno', 0)}"
            y = ast.Expr(value=ast.Yield(value=ast.Name(id=tmp, ctx=ast.Load())))
            loop = ast.For(target=ast.Name(id=tmp, ctx=ast.Store()), iter=n.value, body=[y], orelse=[])
            for x_ in (y, loop):
                ast.copy_location(x_, n)
            ast.fix_missing_locations(loop)
            out = []
            for st2, oc in self.s_For(loop, st):
                if oc is FALL:
                    out.extend(k(st2, ast.Constant(value=None)))
                else:
                    out.append((st2, oc))
            return out
        # `yield from helper(...)` where helper is an inlinable generator: its yields become ours
        if isinstance(n.value, ast.Call):
            self._allow_generator = True
            try:
                marker = len(st.events)
                res = self.e_Call(n.value, st, lambda st2, v: k(st2.emit(Ev("yield", v, n, st2.fn, {"from": True, "inlined": _was_inlined(st2, marker)})), N(f"$y{len(st2.events)}"))
                                  if not _was_inlined(st2, marker) else k(st2, ast.Constant(value=None)))
            finally:
                self._allow_generator = False
            return res

        def ky(st2, v):
            st3 = st2.emit(Ev("yield", v, n, st2.fn, {"from": True}))
            return k(st3, N(f"$y{len(st3.events)}"))

        return self.ev(n.value, st, ky)

    def _comp(self, n, st, k):
        # evaluate the outermost iterable in the enclosing scope, substitute free names elsewhere
        bound = set()
        for g in n.generators:
            for t in ast.walk(g.target):
                if isinstance(t, ast.Name):
                    bound.add(t.id)

        def kc(st2, it0):
            # a comprehension over a literal tuple/list of constants is the display it spells out
            g0 = n.generators[0]
            if len(n.generators) == 1 and not g0.ifs and isinstance(g0.target, ast.Name) and isinstance(it0, (ast.Tuple, ast.List)) \
                    and it0.elts and len(it0.elts) <= 8 and all(isinstance(e_, ast.Constant) for e_ in it0.elts) \
                    and isinstance(n, (ast.ListComp, ast.DictComp, ast.SetComp)):
                def inst(node, c_):
                    class _C(ast.NodeTransformer):
                        def visit_Name(self, nd):
                            return ast.Constant(value=c_.value) if nd.id == g0.target.id and isinstance(nd.ctx, ast.Load) else nd
                    return ast.fix_missing_locations(ast.copy_location(_C().visit(_deepcopy(node)), n))

                if isinstance(n, ast.DictComp):
                    disp = ast.Dict(keys=[inst(n.key, c_) for c_ in it0.elts], values=[inst(n.value, c_) for c_ in it0.elts])
                elif isinstance(n, ast.ListComp):
                    disp = ast.List(elts=[inst(n.elt, c_) for c_ in it0.elts], ctx=ast.Load())
                else:
                    disp = ast.Set(elts=[inst(n.elt, c_) for c_ in it0.elts])
                ast.copy_location(disp, n)
                return self.ev(disp, st2, k)
            env = {a: b for a, b in st2.env.items() if a not in bound}
            new = _Subst(env).visit(_deepcopy(n))
            new.generators[0].iter = it0
            for c_ in ast.walk(new):
                if isinstance(c_, ast.Call):
                    c_.func = self._canon_func(c_.func, st2)
            inner_calls = [c for c in ast.walk(new) if isinstance(c, ast.Call)]
            st3 = st2.emit(Ev("comp", new, n, st2.fn, {"calls": inner_calls, "orig": n}))
            return k(st3, new)

        return self.ev(n.generators[0].iter, st, kc)

    e_SetComp = e_DictComp = _comp

    def e_GeneratorExp(self, n, st, k):
        # (`loops_for_comps="all"`: also generator expressions, for consumers known to exhaust them, e.g. str.join)
        if getattr(self, "loops_for_comps", False) == "all":
            return self.e_ListComp(n, st, k)
        return self._comp(n, st, k)

    def e_ListComp(self, n, st, k):
        """With `loops_for_comps` a list comprehension is run as the loop it abbreviates
        (`tmp = []; for v in xs: if c: tmp.append(elt)`), so rules written for the loop form see the same events."""
        if not getattr(self, "loops_for_comps", False) or any(g.is_async for g in n.generators):
            return self._comp(n, st, k)
        tag = f"{getattr(n, 'lineno', 0)}_{getattr(n, 'col_offset', 0)}"
        tmp = f"__lc{tag}"
        bound = {t.id for g in n.generators for t in ast.walk(g.target) if isinstance(t, ast.Name)}
        ren = {b: f"__lc{tag}_{b}" for b in bound}

        class _R(ast.NodeTransformer):
            def visit_Name(self, nd):
                return ast.Name(id=ren[nd.id], ctx=nd.ctx) if nd.id in ren else nd

        body = [ast.Expr(value=ast.Call(func=ast.Attribute(value=ast.Name(id=tmp, ctx=ast.Load()), attr="append", ctx=ast.Load()),
                                        args=[_R().visit(_deepcopy(n.elt))], keywords=[]))]
        for g in reversed(n.generators):
            for c in reversed(g.ifs):
                body = [ast.If(test=_R().visit(_deepcopy(c)), body=body, orelse=[])]
            body = [ast.For(target=_R().visit(_deepcopy(g.target)), iter=_R().visit(_deepcopy(g.iter)), body=body, orelse=[])]
        init = ast.Assign(targets=[ast.Name(id=tmp, ctx=ast.Store())], value=ast.List(elts=[], ctx=ast.Load()))
        stmts = [init] + body
        for x_ in stmts:
            for y_ in ast.walk(x_):
                if isinstance(y_, (ast.stmt, ast.expr)) and not hasattr(y_, "lineno"):
                    ast.copy_location(y_, n)
            ast.fix_missing_locations(x_)
        out = []
        for st2, oc in self.block(stmts, st):
            if oc is FALL:
                out.extend(k(st2, st2.env.get(tmp, ast.List(elts=[], ctx=ast.Load()))))
            else:
                out.append((st2, oc))
        return out

    def e_Await(self, n, st, k):
        if isinstance(n.value, ast.Call):
            return self.e_Call(n.value, st, k, awaited=True)

        def ka(st2, v):
            st3 = st2.emit(Ev("await", v, n, st2.fn))
            ph = N(f"$w{st3.events[-1].idx}")
            res = k(st3, ph)
            return res + self._raise_variants(st3, n)

        return self.ev(n.value, st, ka)

    # ------------------------------------------------------------------ calls
    def e_Call(self, n: ast.Call, st: St, k, awaited=False):
        if isinstance(n.func, ast.Name) and n.func.id == "super" and not n.args and "super" not in st.env:
            return k(st, n)
        js = _format_to_joinedstr(n)
        if js is not None:
            return self.ev(js, st, k)
        if isinstance(n.func, ast.Name) and n.func.id == "getattr" and "getattr" not in st.env and len(n.args) == 2 and not n.keywords \
                and isinstance(n.args[1], ast.Constant) and isinstance(n.args[1].value, str) and n.args[1].value.isidentifier():
            # getattr(obj, "name") is obj.name
            return self.ev(ast.copy_location(ast.Attribute(value=n.args[0], attr=n.args[1].value, ctx=ast.Load()), n), st, k)
        if isinstance(n.func, ast.Attribute) and n.func.attr == "extend" and len(n.args) == 1 and not n.keywords \
                and isinstance(n.args[0], ast.Call) and self._gen_callee(n.args[0], st) is not None:
            # xs.extend(gen(...)) with gen an inlined generator   ==   for _v in gen(...): xs.append(_v)
            tmp = f"__ext{getattr(n, 'lineno', 0)}"
            app = ast.Expr(value=ast.Call(func=ast.Attribute(value=n.func.value, attr="append", ctx=ast.Load()),
                                          args=[ast.Name(id=tmp, ctx=ast.Load())], keywords=[]))
            loop = ast.For(target=ast.Name(id=tmp, ctx=ast.Store()), iter=n.args[0], body=[app], orelse=[])
            for x_ in (app, loop):
                ast.copy_location(x_, n)
            ast.fix_missing_locations(loop)
            out = []
            for st2, oc in self.s_For(loop, st):
                if oc is FALL:
                    out.extend(k(st2, ast.Constant(value=None)))
                else:
                    out.append((st2, oc))
            return out
        gen_args = [i for i, a in enumerate(n.args) if isinstance(a, ast.Call) and not getattr(n, "_gen_args_done", False)
                    and self._gen_callee(a, st) is not None]
        if gen_args:
            # f(gen(...)) with gen a generator introduced later and f not a loop of ours: what f walks is what gen yields -
            # collect it here (the one-shot analysis sees to it that f walks it once), then call f with the collected list
            pre = []
            new_args = list(n.args)
            for i in gen_args:
                tmp = f"__ga{getattr(n, 'lineno', 0)}_{i}"
                init = ast.Assign(targets=[ast.Name(id=tmp, ctx=ast.Store())], value=ast.List(elts=[], ctx=ast.Load()))
                app = ast.Expr(value=ast.Call(func=ast.Attribute(value=ast.Name(id=tmp, ctx=ast.Load()), attr="append", ctx=ast.Load()),
                                              args=[ast.Name(id=tmp + "_v", ctx=ast.Load())], keywords=[]))
                loop = ast.For(target=ast.Name(id=tmp + "_v", ctx=ast.Store()), iter=n.args[i], body=[app], orelse=[])
                pre.extend([init, loop])
                new_args[i] = ast.Name(id=tmp, ctx=ast.Load())
            call2 = ast.Call(func=n.func, args=new_args, keywords=n.keywords)
            call2._gen_args_done = True
            for x_ in pre + [call2]:
                ast.copy_location(x_, n)
                ast.fix_missing_locations(x_)
            out = []
            for st2, oc in self.block(pre, st):
                if oc is FALL:
                    out.extend(self.e_Call(call2, st2, k, awaited=awaited))
                else:
                    out.append((st2, oc))
            return out
        kwnodes = [kw.value for kw in n.keywords]

        def kf(st1, f):
            def kargs(st2, vals):
                args = vals[: len(n.args)]
                kws = []
                for kw, v in zip(n.keywords, vals[len(n.args):]):
                    lit = _literal_kwargs(v, st2.events) if kw.arg is None else None
                    if lit is not None:
                        kws.extend(lit)  # f(**{"a": x}) is f(a=x)
                    else:
                        kws.append(ast.keyword(arg=kw.arg, value=v))
                term = ast.Call(func=f, args=args, keywords=kws)
                tup = self._namedtuple_value(term, st2)
                if tup is not None:
                    return k(st2, tup)  # a NamedTuple instance is the tuple of its fields
                callees = self.r.resolve_call(term, st2) if self.r is not None else None
                cf = self._canon_func(f, st2)
                if cf is not f:
                    term = ast.Call(func=cf, args=args, keywords=kws)  # `module.func(...)` is shown as `func(...)`
                ev = Ev("call", term, n, st2.fn, {"awaited": awaited, "callee": callees,
                                                   "env": st2.env, "try": self._try_depth > 0})
                st3 = st2.emit(ev)
                ph = N(f"$c{ev.idx}")
                # receiver mutation invalidates memoised conditions over the receiver
                if isinstance(f, ast.Attribute) and not (isinstance(f.value, ast.Name) and f.value.id == "self"):
                    # (conditions memoised about `self` are restricted to init-only attributes,
                    # which a method call on self cannot change)
                    rk = key_of(f.value)
                    st3 = st3.forget(lambda key: rk in key)
                target = self._inline_target(callees, st3, n)
                if target is not None:
                    return self._inline(target, term, st3, k, ph)
                out = []
                for o in self._new_overrides(callees, st3):
                    # virtual dispatch: the receiver may be an instance of a subclass that (newly) overrides the method.  On this
                    # variant the call *is* a call of the override (a helper introduced later: its body is what counts)
                    ev_o = Ev("call", term, n, st2.fn, {"awaited": awaited, "callee": type(callees)("typed", [o]),
                                                      "env": st2.env, "try": self._try_depth > 0})
                    st_o = st2.emit(ev_o)
                    out.extend(self._inline(o, term, st_o.emit(Ev("dispatch", N(o.qualname), n, st_o.fn, {"callee": o})), k, ph))
                res = k(st3, ph)
                return out + res + self._raise_variants(st3, n)

            return self.ev_list(list(n.args) + kwnodes, st1, kargs)

        return self.ev(n.func, st, kf)

    def _canon_func(self, f: ast.AST, st: St):
        """`alias.func` where alias names a module of the package -> `func` (the way it is imported does not matter)."""
        if self.r is None or st.fn is None or not (isinstance(f, ast.Attribute) and isinstance(f.value, ast.Name)) or f.value.id in st.env:
            return f
        try:
            g = self.r.lookup_global(f.value.id, st.fn.module)
        except Exception:
            return f
        if g and g[0] == "module" and (f.attr in g[1].functions or f.attr in g[1].classes):
            return ast.Name(id=f.attr, ctx=ast.Load())
        return f

    def _namedtuple_value(self, term: ast.Call, st: St):
        if self.r is None or not isinstance(term.func, ast.Name) or st.fn is None:
            return None
        try:
            g = self.r.lookup_global(term.func.id, st.fn.module)
        except Exception:
            return None
        if not g or g[0] != "class":
            return None
        c = g[1]
        if not any(b.split(".")[-1] == "NamedTuple" for b in c.bases) or c.methods:
            return None
        fields = [st_.target.id for st_ in c.node.body if isinstance(st_, ast.AnnAssign) and isinstance(st_.target, ast.Name)]
        defaults = {st_.target.id: st_.value for st_ in c.node.body if isinstance(st_, ast.AnnAssign) and isinstance(st_.target, ast.Name) and st_.value is not None}
        if any(isinstance(a, ast.Starred) for a in term.args) or any(kw.arg is None for kw in term.keywords) or len(term.args) > len(fields):
            return None
        vals = dict(zip(fields, term.args))
        for kw in term.keywords:
            if kw.arg not in fields or kw.arg in vals:
                return None
            vals[kw.arg] = kw.value
        for f_ in fields:
            if f_ not in vals:
                if f_ not in defaults:
                    return None
                vals[f_] = defaults[f_]
        tup = ast.Tuple(elts=[vals[f_] for f_ in fields], ctx=ast.Load())
        tup._nt_fields = list(fields)
        return tup

    def _namedtuple_field(self, v: ast.AST, attr: str, st: St):
        """Index of `attr` when `v` is (typed as) an instance of a NamedTuple class of the package."""
        f = getattr(v, "_nt_fields", None)
        if f is not None:
            return f.index(attr) if attr in f else None
        if self.r is None or attr.startswith("_") or isinstance(v, ast.Name) and v.id in ("self", "cls"):
            return None
        if not any(attr in getattr(c, "class_annots", {}) for c in self.p.classes.values()):
            return None
        try:
            types = self.r.typeof(v, st.fn, st.events)
        except Exception:
            return None
        for tname in types:
            c = self.p.classes.get(tname)
            if c is None or not any(b.split(".")[-1] == "NamedTuple" for b in c.bases):
                continue
            fields = [s_.target.id for s_ in c.node.body if isinstance(s_, ast.AnnAssign) and isinstance(s_.target, ast.Name)]
            if attr in fields:
                return fields.index(attr)
        return None

    def _raise_variants(self, st: St, node):
        if self._try_depth <= 0 or self.exc_edges == "none":
            return []
        if self.may_raise is not None and st.events and not self.may_raise(st.events[-1]):
            return []
        out = []
        classes = ["Exception*"] + (["BaseException*"] if self.base_exc else [])
        for cls in classes:
            t = N(f"$exc{len(st.events)}")
            st2 = st.emit(Ev("throw", t, node, st.fn, {"cls": cls}))
            out.append((st2, ("raise", t, cls)))
        return out

    def _inline_target(self, callees, st: St, node) -> Optional[FuncInfo]:
        if self.inline_pred is None or callees is None:
            return None
        if callees.how != "typed" or len(callees.targets) != 1 or any(not t.startswith("ctor:") for t in callees.tags):
            return None
        callee = callees.targets[0]
        if callees.tags and callee.name != "__init__":
            return None
        depth = len(st.frames)
        if depth > self.max_depth or callee in st.frames:
            return None
        if isinstance(callee.node, ast.Lambda):
            return None
        if not getattr(self, "_allow_generator", False) and any(
                isinstance(x, (ast.Yield, ast.YieldFrom)) for x in _own_nodes_of(callee.node)):
            return None
        if not self.inline_pred(callee, depth, node):
            return None
        return callee

    def _new_overrides(self, callees, st: St) -> List[FuncInfo]:
        """Methods introduced after the analysed baseline that override a baseline method the call may dispatch to."""
        is_new = getattr(self, "is_new", None)
        if is_new is None or callees is None or callees.how not in ("typed", "by_name") or callees.tags or len(callees.targets) < 2:
            return []
        out = []
        for t in callees.targets:
            if t.cls is None or not is_new(t) or t in st.frames or len(st.frames) > self.max_depth or isinstance(t.node, ast.Lambda):
                continue
            if any(isinstance(x, (ast.Yield, ast.YieldFrom)) for x in _own_nodes_of(t.node)):
                continue
            mro = self.p.mro(t.cls)
            if any(o is not t and o.cls is not None and o.cls in mro and not is_new(o) for o in callees.targets):
                out.append(t)
        return out

    def _inline(self, callee: FuncInfo, call: ast.Call, st: St, k, ph):
        env = self._bind_params(callee, call, st)
        if callee.parent is not None and st.frames and callee.parent is st.frames[-1]:
            # a closure called by the function that defines it: its free variables are that function's locals
            env = {**{k_: v_ for k_, v_ in st.env.items() if not k_.startswith("$")}, **env}
        caller_env, caller_frames = st.env, st.frames
        st_in = st.emit(Ev("enter", N(callee.qualname), call, st.fn, {"callee": callee}))
        st_in = st_in.with_env(env, caller_frames + (callee,))
        out = []
        for st2, oc in self.block(self._body_of(callee), st_in):
            st_back = st2.with_env(caller_env, caller_frames)
            is_ctor = callee.name == "__init__" and isinstance(call.func, ast.Name) and isinstance(env.get("self"), ast.Name) \
                and env["self"].id.startswith("$new:")
            if is_ctor and (oc is FALL or oc[0] == "return"):
                st_back = st_back.emit(Ev("leave", env["self"], call, st.fn, {"callee": callee}))
                out.extend(k(st_back, env["self"]))
                continue
            if oc is FALL:
                st_back = st_back.emit(Ev("leave", None, call, st.fn, {"callee": callee}))
                out.extend(k(st_back, ast.Constant(value=None)))
            elif oc[0] == "return":
                st_back = st_back.emit(Ev("leave", oc[1], call, st.fn, {"callee": callee}))
                out.extend(k(st_back, oc[1]))
            elif oc[0] == "raise":
                out.append((st_back, oc))
            else:  # pragma: no cover
                raise AnalysisError(f"{callee.key}: loop outcome escaped the function")
        return out

    def _bind_params(self, callee: FuncInfo, call: ast.Call, st: St) -> dict:
        a = callee.node.args
        names = [x.arg for x in a.posonlyargs + a.args]
        env: Dict[str, ast.AST] = {}
        pos = list(call.args)
        is_method = callee.cls is not None and callee.parent is None and "staticmethod" not in callee.decorators
        f = call.func
        if is_method and isinstance(f, ast.Attribute):
            recv = f.value
            if isinstance(recv, ast.Call) and isinstance(recv.func, ast.Name) and recv.func.id == "super":
                recv = st.env.get("self", N("self"))
            if "classmethod" in callee.decorators:
                recv = N(f"$type:{callee.cls.name}")
            pos = [recv] + pos
        elif is_method and isinstance(f, ast.Name) and callee.name == "__init__":
            # the object is an instance of the class that was called (the __init__ may be inherited)
            pos = [N(f"$new:{f.id if f.id in self.p.classes else callee.cls.name}@{getattr(call, 'lineno', 0) or getattr(st.events[-1].node, 'lineno', 0) if st.events else 0}")] + pos
        star = [p for p in pos if isinstance(p, ast.Starred)]
        plain = [p for p in pos if not isinstance(p, ast.Starred)]
        for i, nm in enumerate(names):
            if i < len(plain):
                env[nm] = plain[i]
        rest = plain[len(names):]
        if a.vararg:
            if star and not rest and len(star) == 1:
                env[a.vararg.arg] = star[0].value
            else:
                env[a.vararg.arg] = ast.Tuple(elts=rest + star, ctx=ast.Load())
        dstar = None
        extra = []
        for kw in call.keywords:
            if kw.arg is None:
                dstar = kw.value
            elif kw.arg in names or kw.arg in [x.arg for x in a.kwonlyargs]:
                env[kw.arg] = kw.value
            else:
                extra.append(kw)
        if a.kwarg:
            if dstar is not None and not extra:
                env[a.kwarg.arg] = dstar
            else:
                env[a.kwarg.arg] = ast.Dict(keys=[ast.Constant(value=e.arg) for e in extra] + ([None] if dstar is not None else []),
                                            values=[e.value for e in extra] + ([dstar] if dstar is not None else []))
        # defaults
        defaults = list(a.defaults)
        for nm, d in zip(names[len(names) - len(defaults):], defaults):
            env.setdefault(nm, d)
        for kwarg, d in zip(a.kwonlyargs, a.kw_defaults):
            if d is not None:
                env.setdefault(kwarg.arg, d)
        for nm in names + [x.arg for x in a.kwonlyargs]:
            env.setdefault(nm, N(f"$param:{callee.qualname}.{nm}"))
        return env


class _Subst(ast.NodeTransformer):
    def __init__(self, env):
        self.env = env

    def visit_Name(self, node):
        if isinstance(node.ctx, ast.Load) and node.id in self.env:
            return self.env[node.id]
        return node


def _placeholder_only(t: ast.AST) -> bool:
    """The term is built from call/await results and constants only (no reads of mutable state): its value is fixed."""
    names = [n for n in ast.walk(t) if isinstance(n, ast.Name)]
    if not names:
        return False
    for n in ast.walk(t):
        if isinstance(n, ast.Name):
            if not (n.id.startswith("$c") or n.id.startswith("$w")):
                return False
        elif isinstance(n, ast.Attribute):
            return False
        elif isinstance(n, (ast.Call, ast.Await, ast.Lambda, ast.ListComp, ast.GeneratorExp, ast.DictComp, ast.SetComp)):
            return False
    return True


def _own_nodes_of(fnode):
    stack = list(ast.iter_child_nodes(fnode))
    while stack:
        n = stack.pop()
        yield n
        if isinstance(n, (ast.FunctionDef, ast.AsyncFunctionDef, ast.ClassDef, ast.Lambda)):
            continue
        stack.extend(ast.iter_child_nodes(n))


def _was_inlined(st, marker) -> bool:
    """An `enter` event directly follows the call emitted at/after `marker` => the callee body was inlined."""
    evs = st.events
    for i in range(marker, len(evs) - 1):
        if evs[i].kind == "call" and evs[i + 1].kind == "enter":
            return True
    return False


def _deepcopy(n):
    import copy

    return copy.deepcopy(n)


def _as_load(t):
    t = _deepcopy(t)
    for n in ast.walk(t):
        if hasattr(n, "ctx"):
            n.ctx = ast.Load()
    return t


def _as_term(t):
    return t


def _exc_class_of(v: ast.AST) -> str:
    if isinstance(v, ast.Call):
        f = v.func
        if isinstance(f, ast.Name):
            return f.id
        if isinstance(f, ast.Attribute):
            return f.attr
    if isinstance(v, ast.Name) and not v.id.startswith("$"):
        return v.id
    return "Exception*"
