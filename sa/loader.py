"""Loader: parses every module of the package under analysis and indexes it.

A syntax error or a missing package is an analysis error (exit 2), never a verdict.
"""

from __future__ import annotations

import ast
import hashlib
import os
import re
from dataclasses import dataclass, field
from typing import Dict, Iterator, List, Optional


class AnalysisError(Exception):
    """The analysis itself is broken (anchor lost, unparsable tree, resolver disagreement)."""


def repo_root() -> str:
    return os.environ.get("VERIF_REPO", "/repo")


@dataclass
class FuncInfo:
    module: "ModuleInfo"
    qualname: str  # e.g. 'SyncEngine._activate', 'custom_and.decorated'
    node: ast.AST  # FunctionDef | AsyncFunctionDef | Lambda
    cls: Optional["ClassInfo"]
    parent: Optional["FuncInfo"]
    decorators: List[str] = field(default_factory=list)

    @property
    def name(self) -> str:
        return self.qualname.rsplit(".", 1)[-1]

    @property
    def is_async(self) -> bool:
        return isinstance(self.node, ast.AsyncFunctionDef)

    @property
    def key(self) -> str:
        return f"{self.module.rel}::{self.qualname}"

    @property
    def lineno(self) -> int:
        return getattr(self.node, "lineno", 0)

    def loc(self, node: Optional[ast.AST] = None) -> str:
        line = getattr(node, "lineno", None) if node is not None else None
        if line is None:
            line = self.lineno
        return f"{self.module.rel}:{line} {self.qualname}"

    @property
    def is_property(self) -> bool:
        return "property" in self.decorators

    @property
    def is_setter(self) -> bool:
        return any(d.endswith(".setter") for d in self.decorators)

    @property
    def params(self) -> List[str]:
        a = self.node.args
        return [x.arg for x in a.posonlyargs + a.args]

    def __hash__(self):
        return hash(self.key + str(self.lineno))

    def __eq__(self, other):
        return self is other

    def __repr__(self):
        return f"<fn {self.key}>"


@dataclass
class ClassInfo:
    module: "ModuleInfo"
    name: str
    node: ast.ClassDef
    bases: List[str]
    methods: Dict[str, List[FuncInfo]] = field(default_factory=dict)  # getter/setter share a name
    class_assigns: Dict[str, ast.AST] = field(default_factory=dict)
    class_annots: Dict[str, ast.AST] = field(default_factory=dict)

    def method(self, name: str, setter: bool = False) -> Optional[FuncInfo]:
        for f in self.methods.get(name, []):
            if f.is_setter == setter:
                return f
        return None

    def __hash__(self):
        return hash((self.module.rel, self.name))

    def __eq__(self, other):
        return self is other

    def __repr__(self):
        return f"<class {self.name}>"


@dataclass
class ModuleInfo:
    name: str  # dotted
    rel: str  # path relative to repo root
    path: str
    source: str
    tree: ast.Module
    imports: Dict[str, tuple] = field(default_factory=dict)  # local -> (module, name|None)
    functions: Dict[str, FuncInfo] = field(default_factory=dict)  # by qualname (last def wins)
    all_functions: List[FuncInfo] = field(default_factory=list)
    classes: Dict[str, ClassInfo] = field(default_factory=dict)
    assigns: Dict[str, ast.AST] = field(default_factory=dict)  # module-level NAME = value

    def line(self, n: int) -> str:
        lines = self.source.splitlines()
        return lines[n - 1] if 0 < n <= len(lines) else ""


def _positional_only_by_unpacking(fn) -> None:
    """`def m(*args, **kw): self, key, *args = args` is the pre-3.8 spelling of `def m(self, key, /, *args, **kw)`:
    rewrite the node to the latter (in place), so that every rule sees ordinary parameters."""
    a = fn.args
    if a.posonlyargs or a.args or a.vararg is None or not fn.body:
        return
    first = fn.body[0]
    k = 0
    if isinstance(first, ast.Expr) and isinstance(first.value, ast.Constant) and isinstance(first.value.value, str) and len(fn.body) > 1:
        first, k = fn.body[1], 1
    if not (isinstance(first, ast.Assign) and len(first.targets) == 1 and isinstance(first.targets[0], ast.Tuple)
            and isinstance(first.value, ast.Name) and first.value.id == a.vararg.arg):
        return
    elts = first.targets[0].elts
    if not elts or not all(isinstance(e, ast.Name) for e in elts[:-1]) or not (
            isinstance(elts[-1], ast.Starred) and isinstance(elts[-1].value, ast.Name) and elts[-1].value.id == a.vararg.arg):
        return
    a.posonlyargs = [ast.copy_location(ast.arg(arg=e.id, annotation=None), e) for e in elts[:-1]]
    del fn.body[k]
    if not fn.body:
        fn.body.append(ast.copy_location(ast.Pass(), first))


def _decorator_name(d: ast.AST) -> str:
    try:
        return ast.unparse(d)
    except Exception:  # pragma: no cover
        return "?"


class Program:
    """All modules of the package, with indexes by class and function."""

    def __init__(self, root: Optional[str] = None, package: Optional[str] = None,
                 overrides: Optional[Dict[str, str]] = None):
        # overrides: {relative path: source text} analysed instead of the file on disk (used by the
        # thorough tier to apply an edit to the in-memory program; nothing is written)
        self.overrides = overrides or {}
        self.root = os.path.abspath(root or repo_root())
        self.package = package or self._discover_package()
        self.modules: Dict[str, ModuleInfo] = {}
        self.by_rel: Dict[str, ModuleInfo] = {}
        self.classes: Dict[str, ClassInfo] = {}
        self.duplicate_classes: Dict[str, List[ClassInfo]] = {}
        self.functions: Dict[str, FuncInfo] = {}
        self._load()

    # ------------------------------------------------------------------ discovery
    def _discover_package(self) -> str:
        pp = os.path.join(self.root, "pyproject.toml")
        if os.path.exists(pp):
            txt = open(pp, encoding="utf-8").read()
            m = re.search(r"packages\s*=\s*\[\s*\"([A-Za-z0-9_]+)/?\"", txt)
            if m and os.path.isdir(os.path.join(self.root, m.group(1))):
                return m.group(1)
        if os.path.isdir(os.path.join(self.root, "statemachine")):
            return "statemachine"
        raise AnalysisError(f"anchor lost: no package directory found under {self.root}")

    def _load(self) -> None:
        pkg_dir = os.path.join(self.root, self.package)
        count = 0
        for dirpath, dirnames, filenames in sorted(os.walk(pkg_dir)):
            dirnames[:] = sorted(d for d in dirnames if d != "__pycache__" and d != "locale")
            for fn in sorted(filenames):
                if not fn.endswith(".py"):
                    continue
                path = os.path.join(dirpath, fn)
                rel = os.path.relpath(path, self.root)
                dotted = rel[:-3].replace(os.sep, ".")
                if dotted.endswith(".__init__"):
                    dotted = dotted[: -len(".__init__")]
                try:
                    src = self.overrides[rel] if rel in self.overrides else open(path, encoding="utf-8").read()
                    tree = ast.parse(src, filename=rel)
                except SyntaxError as e:
                    raise AnalysisError(f"cannot parse {rel}: {e}") from e
                mod = ModuleInfo(dotted, rel, path, src, tree)
                self.modules[dotted] = mod
                self.by_rel[rel] = mod
                self._index(mod)
                count += 1
        if count == 0:
            raise AnalysisError(f"anchor lost: package {self.package} has no modules")

    # ------------------------------------------------------------------ indexing
    def _index(self, mod: ModuleInfo) -> None:
        for node in ast.walk(mod.tree):
            if isinstance(node, ast.ImportFrom):
                base = self._abs_module(mod, node.module, node.level)
                for a in node.names:
                    mod.imports[a.asname or a.name] = (base, a.name)
            elif isinstance(node, ast.Import):
                for a in node.names:
                    mod.imports[(a.asname or a.name).split(".")[0]] = (a.name, None)
        self._index_body(mod, mod.tree.body, prefix="", cls=None, parent=None)
        for st in mod.tree.body:
            self._module_assign(mod, st)
        # assignments under `if`/`try` at module level (e.g. registry's try/except import)
        for st in mod.tree.body:
            if isinstance(st, (ast.If, ast.Try)):
                for sub in ast.walk(st):
                    self._module_assign(mod, sub)

    @staticmethod
    def _module_assign(mod: ModuleInfo, st: ast.AST) -> None:
        if isinstance(st, ast.Assign):
            for t in st.targets:
                if isinstance(t, ast.Name):
                    mod.assigns[t.id] = st.value
        elif isinstance(st, ast.AnnAssign) and isinstance(st.target, ast.Name) and st.value is not None:
            mod.assigns[st.target.id] = st.value

    def _abs_module(self, mod: ModuleInfo, name: Optional[str], level: int) -> str:
        if level == 0:
            return name or ""
        parts = mod.name.split(".")
        is_pkg = mod.rel.endswith("__init__.py")
        base = parts if is_pkg else parts[:-1]
        if level > 1:
            base = base[: len(base) - (level - 1)]
        return ".".join(base + ([name] if name else []))

    def _index_body(self, mod, body, prefix, cls, parent) -> None:
        for st in body:
            if isinstance(st, (ast.FunctionDef, ast.AsyncFunctionDef)):
                qn = f"{prefix}{st.name}"
                if cls is not None and parent is None:
                    _positional_only_by_unpacking(st)
                fi = FuncInfo(mod, qn, st, cls if parent is None else None, parent,
                              [_decorator_name(d) for d in st.decorator_list])
                # a class body's direct methods keep cls; nested functions remember the enclosing fn
                if parent is not None:
                    fi.cls = parent.cls
                mod.all_functions.append(fi)
                mod.functions[qn] = fi
                if cls is not None and parent is None:
                    cls.methods.setdefault(st.name, []).append(fi)
                self.functions.setdefault(fi.key, fi)
                self._index_body(mod, st.body, qn + ".", None, fi)
            elif isinstance(st, ast.ClassDef):
                ci = ClassInfo(mod, st.name, st, [ast.unparse(b) for b in st.bases])
                mod.classes[st.name] = ci
                if st.name in self.classes:
                    self.duplicate_classes.setdefault(st.name, [self.classes[st.name]]).append(ci)
                else:
                    self.classes[st.name] = ci
                for cst in st.body:
                    if isinstance(cst, ast.Assign):
                        for t in cst.targets:
                            if isinstance(t, ast.Name):
                                ci.class_assigns[t.id] = cst.value
                    elif isinstance(cst, ast.AnnAssign) and isinstance(cst.target, ast.Name):
                        ci.class_annots[cst.target.id] = cst.annotation
                        if cst.value is not None:
                            ci.class_assigns[cst.target.id] = cst.value
                self._index_body(mod, st.body, f"{prefix}{st.name}.", ci, None)
            elif isinstance(st, (ast.If, ast.Try, ast.With, ast.For, ast.While)):
                # definitions nested in compound statements (e.g. `if TYPE_CHECKING:` stubs,
                # `if sig.is_coroutine: async def ...`)
                for blk in self._blocks(st):
                    self._index_body(mod, blk, prefix, cls, parent)

    @staticmethod
    def _blocks(st) -> Iterator[list]:
        for name in ("body", "orelse", "finalbody"):
            b = getattr(st, name, None)
            if b:
                yield b
        for h in getattr(st, "handlers", []) or []:
            yield h.body

    # ------------------------------------------------------------------ queries
    def module(self, rel_or_name: str) -> ModuleInfo:
        m = self.by_rel.get(rel_or_name) or self.modules.get(rel_or_name)
        if m is None:
            raise AnalysisError(f"anchor lost: module {rel_or_name} not found")
        return m

    def cls(self, name: str) -> ClassInfo:
        c = self.classes.get(name)
        if c is None:
            raise AnalysisError(f"anchor lost: class {name} not found")
        return c

    def fn(self, key: str) -> FuncInfo:
        """key: 'Class.method', 'module_function', or 'rel::qualname'."""
        f = self.find_fn(key)
        if f is None:
            raise AnalysisError(f"anchor lost: function {key} not found")
        return f

    def find_fn(self, key: str, setter: bool = False) -> Optional[FuncInfo]:
        if "::" in key:
            return self.functions.get(key)
        if "." in key:
            cname, rest = key.split(".", 1)
            c = self.classes.get(cname)
            if c is not None and "." not in rest:
                return c.method(rest, setter=setter)
        hits = [f for m in self.modules.values() for q, f in m.functions.items() if q == key]
        if len(hits) == 1:
            return hits[0]
        if len(hits) > 1:
            raise AnalysisError(f"ambiguous function key {key}: {[h.key for h in hits]}")
        return None

    def mro(self, cls: ClassInfo) -> List[ClassInfo]:
        """Linearisation restricted to classes of the package (single inheritance chains +
        mixins in declaration order; sufficient for this package, which has no diamonds)."""
        out, seen = [], set()

        def visit(c: ClassInfo):
            if c.name in seen:
                return
            seen.add(c.name)
            out.append(c)
            for b in c.bases:
                bn = b.split(".")[-1]
                if bn in self.classes:
                    visit(self.classes[bn])

        visit(cls)
        return out

    def subclasses(self, cls: ClassInfo) -> List[ClassInfo]:
        out = []
        for c in self.classes.values():
            if c is not cls and cls in self.mro(c):
                out.append(c)
        return out

    def lookup_method(self, cls: ClassInfo, name: str, setter: bool = False) -> Optional[FuncInfo]:
        for c in self.mro(cls):
            f = c.method(name, setter=setter)
            if f is not None:
                return f
        return None

    def all_functions(self) -> List[FuncInfo]:
        return [f for m in self.modules.values() for f in m.all_functions]

    def digest(self) -> str:
        h = hashlib.sha256()
        for rel in sorted(self.by_rel):
            h.update(rel.encode())
            h.update(self.by_rel[rel].source.encode())
        return h.hexdigest()[:16]

    def stats(self) -> dict:
        return {
            "units_parsed": len(self.modules),
            "functions": len(self.all_functions()),
            "classes": len(self.classes),
            "package": self.package,
            "root": self.root,
            "digest": self.digest(),
        }


def norm_stmt(node_or_text) -> str:
    """Normalised statement text used in known-finding keys (no line numbers, no comments,
    formatting-insensitive because it is re-generated from the AST)."""
    if isinstance(node_or_text, ast.AST):
        try:
            txt = ast.unparse(node_or_text)
        except Exception:  # pragma: no cover
            txt = ast.dump(node_or_text)
    else:
        txt = str(node_or_text)
    txt = txt.strip().split("\n")[0] if isinstance(node_or_text, ast.stmt) and isinstance(
        node_or_text, (ast.If, ast.For, ast.While, ast.Try, ast.With, ast.FunctionDef,
                       ast.AsyncFunctionDef, ast.ClassDef)) else txt
    return re.sub(r"\s+", " ", txt).strip()
