"""Maybe-awaitable (MA) effect analysis (rule kind K6).

Sources of MA values
  S1  a call resolved to an `async def` function of the package;
  S2  a call through a *callback slot* that may hold a user callable or an adapter of one
      (table MA_SLOTS, each entry with its reason);
  S3  a call to a package function whose summary says "may return an un-awaited MA value"
      (computed here as a fixpoint over return statements).

Legal uses of an MA value: `await`; the `isawaitable(x)` guard (on its false edge the value is
known to be plain); handing it to asyncio.gather / as_completed / run_until_complete or to the
package's `run_async_from_sync`; returning it (propagates into the summary); collecting it in a
comprehension that is itself handed to gather/as_completed.  Anything else - boolean context,
`not`, comparison, `bool()`, passing it to another callable, dropping it - is a violation, except
inside the *sync world* (SYNC_WORLD, with reasons), where consuming callback results directly is
legal under the engine-selection invariant that C05.flag / C12.engine turn into obligations.
"""

from __future__ import annotations

import ast
from dataclasses import dataclass, field
from typing import Dict, List, Optional, Set, Tuple

from .context import Ctx
from .kernel import expand1
from .loader import AnalysisError, FuncInfo, norm_stmt
from .paths import Ev, Path, show
from .resolve import own_nodes

# callback slots whose value may be a coroutine function (or an adapter around one)
MA_SLOTS = {
    "attr:CallbackWrapper._callback": "the adapted user callback held by a wrapper",
    "param:callable_method.a_callable": "the user callable wrapped by the signature adapter",
    "param:custom_not.predicate": "operand of a boolean-expression combinator (an adapter built by _take_callback)",
    "param:custom_and.left": "operand of a boolean-expression combinator",
    "param:custom_and.right": "operand of a boolean-expression combinator",
    "param:custom_or.left": "operand of a boolean-expression combinator",
    "param:custom_or.right": "operand of a boolean-expression combinator",
    "param:build_custom_operator.custom_comparator.left": "operand of a comparison combinator",
    "param:build_custom_operator.custom_comparator.right": "operand of a comparison combinator",
    "param:event_method.func": "an Event used as an action: awaitable under the async engine",
}

# functions that consume callback results directly; legal only under INV = "SyncEngine in use =>
# no registered wrapper is a coroutine"
SYNC_WORLD = {
    "CallbackWrapper.call": "sync twin of __call__",
    "CallbacksExecutor.call": "sync executor",
    "CallbacksExecutor.all": "sync guard executor",
    "CallbacksRegistry.call": "sync registry facade",
    "CallbacksRegistry.all": "sync registry facade",
}

LEGAL_SINK_CALLS = {"asyncio.gather", "asyncio.as_completed", "asyncio.wait", "asyncio.wait_for", "asyncio.shield"}
LEGAL_SINK_ATTRS = {"run_until_complete"}
LEGAL_PKG_SINKS = {"run_async_from_sync"}


@dataclass
class Finding:
    fn: FuncInfo
    node: ast.AST
    what: str
    stmt: str
    kind: str  # bool-context | operator | passed | dropped | early-exit


def _tags(res) -> List[str]:
    return list(res.tags) if res is not None else []


_slot_cache: Dict[int, tuple] = {}


def effective_ma_slots(ctx: Ctx) -> Dict[str, str]:
    """MA_SLOTS closed under 'the slot's value is handed on': an MA parameter passed to a package function or class makes
    the receiving parameter a slot; stored into `self.<attr>` by a constructor it makes that attribute a slot (of the
    class and its subclasses).  This is what lets a combinator be a closure or a small callable class alike."""
    hit = _slot_cache.get(id(ctx))
    if hit is not None and hit[0] is ctx:
        return hit[1]
    slots = dict(MA_SLOTS)
    by_q: Dict[str, List[FuncInfo]] = {}
    for f in ctx.p.all_functions():
        by_q.setdefault(f.qualname, []).append(f)
    changed = True
    rounds = 0
    while changed and rounds < 6:
        changed = False
        rounds += 1
        for tag in list(slots):
            if not tag.startswith("param:"):
                continue
            q, pname = tag[6:].rsplit(".", 1)
            for fn in by_q.get(q, []):
                scopes = [fn] + [g for g in fn.module.all_functions if g.parent is fn]
                for sc in scopes:
                    if sc is not fn and pname in sc.params:
                        continue  # shadowed
                    for n in ast.walk(sc.node) if sc is fn else own_nodes(sc.node):
                        # handed on as an argument
                        if isinstance(n, ast.Call):
                            passed = [(i, None) for i, a in enumerate(n.args) if isinstance(a, ast.Name) and a.id == pname] + \
                                     [(None, kw.arg) for kw in n.keywords if kw.arg and isinstance(kw.value, ast.Name) and kw.value.id == pname]
                            if not passed:
                                continue
                            try:
                                res = ctx.r.resolve_in(n, sc)
                            except Exception:
                                continue
                            if res.how != "typed":
                                continue
                            for t in res.targets:
                                if isinstance(t.node, ast.Lambda):
                                    continue
                                names = list(t.params)
                                is_method = t.cls is not None and t.parent is None and "staticmethod" not in t.decorators
                                if is_method and names and names[0] in ("self", "cls"):
                                    names = names[1:]
                                for i, kwn in passed:
                                    tp = kwn if kwn in t.params else (names[i] if i is not None and i < len(names) else None)
                                    if tp is None:
                                        continue
                                    nt = f"param:{t.qualname}.{tp}"
                                    if nt not in slots:
                                        slots[nt] = f"receives {tag} ({slots[tag]})"
                                        changed = True
                        # kept in a field by a method (constructor)
                        if isinstance(n, ast.Assign) and isinstance(n.value, ast.Name) and n.value.id == pname and sc is fn and fn.cls is not None:
                            for tg in n.targets:
                                if isinstance(tg, ast.Attribute) and isinstance(tg.value, ast.Name) and tg.value.id == "self":
                                    for c in [fn.cls] + list(ctx.p.subclasses(fn.cls)):
                                        nt = f"attr:{c.name}.{tg.attr}"
                                        if nt not in slots:
                                            slots[nt] = f"holds {tag} ({slots[tag]})"
                                            changed = True
    _slot_cache.clear()
    _slot_cache[id(ctx)] = (ctx, slots)
    return slots


class AwaitFlow:
    def __init__(self, ctx: Ctx, sync_world_classes=("SyncEngine",)):
        self.ctx = ctx
        self.p = ctx.p
        self.r = ctx.r
        self.sync_world_classes = set(sync_world_classes)
        self.returns_ma: Set[str] = set()  # FuncInfo.key
        self.functions_with_sources: List[FuncInfo] = []
        self.slot_sites_ma = 0
        self.slot_sites_other = 0
        self.findings: List[Finding] = []
        self.legal_uses = 0
        self.analysed: List[str] = []
        self.sync_world_consumptions: List[Tuple[FuncInfo, ast.AST, str]] = []
        self.ma_slots = effective_ma_slots(ctx)
        self._summaries()

    # ------------------------------------------------------------------ sources
    def is_source(self, ev: Ev) -> Optional[str]:
        if ev.kind != "call" or ev.x.get("awaited"):
            return None
        res = ev.x.get("callee")
        if res is None:
            return None
        for t in res.targets:
            if t.is_async:
                return f"async def {t.qualname}"
            if t.key in self.returns_ma:
                return f"{t.qualname} may return an un-awaited awaitable"
        for tag in res.tags:
            if tag in self.ma_slots:
                return f"callback slot {tag} ({self.ma_slots[tag]})"
        return None

    def _raw_source(self, call: ast.Call, fn: FuncInfo) -> Optional[str]:
        res = self.r.resolve_in(call, fn)
        for t in res.targets:
            if t.is_async or t.key in self.returns_ma:
                return t.qualname
        for tag in res.tags:
            if tag in self.ma_slots:
                return tag
        return None

    def _summaries(self) -> None:
        """Fixpoint: a non-async function returns MA if some return expression is (syntactically)
        an un-awaited source call, a name bound to one, or a conditional of those."""
        changed = True
        rounds = 0
        while changed and rounds < 8:
            changed = False
            rounds += 1
            for fn in self.p.all_functions():
                if fn.is_async or fn.key in self.returns_ma:
                    continue
                if isinstance(fn.node, ast.Lambda):
                    continue
                bound: Dict[str, bool] = {}
                for n in own_nodes(fn.node):
                    if isinstance(n, ast.Assign) and len(n.targets) == 1 and isinstance(n.targets[0], ast.Name) \
                            and isinstance(n.value, ast.Call) and self._raw_source(n.value, fn):
                        bound[n.targets[0].id] = True
                for n in own_nodes(fn.node):
                    if isinstance(n, ast.Return) and n.value is not None:
                        vals = [n.value]
                        if isinstance(n.value, ast.IfExp):
                            vals = [n.value.body, n.value.orelse]
                        for v in vals:
                            if (isinstance(v, ast.Call) and self._raw_source(v, fn)) or (isinstance(v, ast.Name) and bound.get(v.id)):
                                if fn.key not in self.returns_ma:
                                    self.returns_ma.add(fn.key)
                                    changed = True

    # ------------------------------------------------------------------ analysis
    def in_sync_world(self, fn: FuncInfo) -> bool:
        f = fn
        while f is not None:
            if f.qualname in SYNC_WORLD:
                return True
            if f.cls is not None and f.cls.name in self.sync_world_classes and f.parent is None:
                return True
            f = f.parent
        return False

    def run(self) -> None:
        for fn in self.p.all_functions():
            if isinstance(fn.node, ast.Lambda):
                continue
            has = False
            for n in own_nodes(fn.node):
                if isinstance(n, ast.Call) and self._raw_source(n, fn):
                    has = True
                    break
            if not has:
                continue
            self.functions_with_sources.append(fn)
            self._analyse(fn)

    def _analyse(self, fn: FuncInfo) -> None:
        paths = self.ctx.paths(fn, inline=None, exc_edges="none", unroll=2)
        self.analysed.append(fn.key)
        sync = self.in_sync_world(fn)
        seen_findings = set()
        for p in paths:
            evs = p.events
            ma: Dict[str, Tuple[Ev, str]] = {}
            plain: Set[str] = set()  # proven not awaitable on this path
            guards: Dict[str, str] = {}  # isawaitable-result placeholder -> guarded placeholder
            used: Set[str] = set()
            macoll: Dict[str, Ev] = {}  # comprehension holding MA values, by env name / placeholder
            for e in evs:
                src = self.is_source(e)
                # ---- uses of MA placeholders in this event
                self._uses(fn, p, e, ma, plain, guards, used, sync, seen_findings)
                if src is not None:
                    ma[f"$c{e.idx}"] = (e, src)
                    self.slot_sites_ma += 1
                if e.kind == "comp":
                    inner = [c for c in ast.walk(e.term) if isinstance(c, ast.Call)]
                    elt_calls = []
                    comp = e.term
                    elt = getattr(comp, "elt", None)
                    if elt is not None:
                        for c in ast.walk(elt):
                            if isinstance(c, ast.Call) and self._raw_source_in_comp(c, fn, e):
                                elt_calls.append(c)
                    if elt_calls:
                        macoll[f"comp@{e.idx}"] = e
                        e.x["ma_collection"] = True
            # ---- outcome
            if p.kind == "return" and p.value is not None:
                self._use_in_return(fn, p, ma, plain, used, sync, seen_findings)
            # ---- dropped MA values
            for name, (e, src) in ma.items():
                if name in used or name in plain:
                    continue
                if sync:
                    self.sync_world_consumptions.append((fn, e.node, "dropped"))
                    continue
                self._add(fn, e.node, f"awaitable from {src} is never awaited on this path (dropped)", "dropped", seen_findings)
            # ---- early exit from an as_completed/gather consumer
            self._early_exit(fn, p, seen_findings)

    def _raw_source_in_comp(self, c: ast.Call, fn: FuncInfo, e: Ev) -> bool:
        try:
            return self._raw_source(c, fn) is not None
        except Exception:  # substituted terms inside comprehensions may not resolve; fall back to the original node
            return False

    def _add(self, fn, node, what, kind, seen):
        key = (fn.key, getattr(node, "lineno", 0) if kind != "early-exit" else 0, kind, what)
        if key in seen:
            return
        seen.add(key)
        stmt = norm_stmt(_stmt_of(fn, node))
        if kind == "early-exit":
            # identified by what it leaves, not by the spelling of the exit (return False / flag + break ...)
            stmt = "early exit from the as_completed loop"
        self.findings.append(Finding(fn, node, what, stmt, kind))

    def _uses(self, fn, p, e: Ev, ma, plain, guards, used, sync, seen):
        if not ma:
            return
        live = {n for n in ma if n not in plain}
        if not live:
            return

        def names_in(t):
            return {n.id for n in ast.walk(t) if isinstance(n, ast.Name) and n.id in live} if t is not None else set()

        if e.kind == "await":
            for n in names_in(e.term):
                used.add(n)
                self.legal_uses += 1
            return
        if e.kind == "call":
            f = e.term.func
            ftxt = show(f)
            argnames = set()
            for a in list(e.term.args) + [kw.value for kw in e.term.keywords]:
                argnames |= names_in(a)
            recvnames = names_in(f)
            if not argnames and not recvnames:
                return
            res = e.x.get("callee")
            evs_ = p.events
            if e.idx + 1 < len(evs_) and evs_[e.idx + 1].kind == "enter":
                return  # the callee was inlined: its body (with this value substituted) is analysed instead
            if ftxt in ("isawaitable", "inspect.isawaitable", "asyncio.iscoroutine", "iscoroutine", "inspect.iscoroutine"):
                for n in argnames:
                    guards[f"$c{e.idx}"] = n
                    used.add(n)
                return
            if ftxt in LEGAL_SINK_CALLS or (isinstance(f, ast.Attribute) and f.attr in LEGAL_SINK_ATTRS) or (
                    res is not None and any(t.name in LEGAL_PKG_SINKS for t in res.targets)):
                for n in argnames:
                    used.add(n)
                    self.legal_uses += 1
                return
            for n in argnames | recvnames:
                used.add(n)
                if sync:
                    self.sync_world_consumptions.append((fn, e.node, f"passed to {ftxt}"))
                else:
                    kind = "operator" if ftxt in ("bool", "operator") or (res is not None and any(t.startswith("param:") for t in res.tags)) else "passed"
                    self._add(fn, e.node, f"awaitable from {ma[n][1]} is passed to `{ftxt}(...)` without being awaited", kind, seen)
            return
        if e.kind == "branch":
            t = e.term
            if isinstance(t, ast.Name) and t.id in guards:
                g = guards[t.id]
                if e.x["taken"] is False:
                    plain.add(g)  # known to be a plain value on this edge
                return
            for n in names_in(t):
                used.add(n)
                if sync:
                    self.sync_world_consumptions.append((fn, e.node, "boolean context"))
                else:
                    self._add(fn, e.node, f"awaitable from {ma[n][1]} is used in a boolean context without being awaited "
                              "(a coroutine object is always truthy)", "bool-context", seen)
            return
        if e.kind in ("store", "bind"):
            v = e.x.get("value") if e.kind == "store" else e.term
            if isinstance(v, ast.Name):
                return  # plain aliasing; tracked through the placeholder itself
            for n in names_in(v):
                used.add(n)
                if sync:
                    self.sync_world_consumptions.append((fn, e.node, "operator"))
                else:
                    self._add(fn, e.node, f"awaitable from {ma[n][1]} is combined by an operator (`{show(v)}`) without being awaited", "operator", seen)
            return
        if e.kind in ("raise", "yield", "assume", "delete"):
            for n in names_in(e.term):
                used.add(n)

    def _use_in_return(self, fn, p: Path, ma, plain, used, sync, seen):
        v = p.value
        live = {n for n in ma if n not in plain}
        inside = {n.id for n in ast.walk(v) if isinstance(n, ast.Name) and n.id in live}
        if not inside:
            return
        for n in inside:
            used.add(n)
        if isinstance(v, ast.Name):
            self.legal_uses += 1  # returned as is: the caller's obligation (summary)
            return
        ret_node = next((e.node for e in reversed(p.events) if e.kind == "return"), fn.node)
        for n in inside:
            if sync:
                self.sync_world_consumptions.append((fn, ret_node, "operator in return"))
            else:
                self._add(fn, ret_node, f"awaitable from {ma[n][1]} is combined by an operator in `return {show(v)}` without being awaited",
                          "operator", seen)

    def _early_exit(self, fn, p: Path, seen):
        evs = p.events
        for e in evs:
            if e.kind != "iter" or e.x.get("loop") != "for" or e.term is None:
                continue
            t = expand1(e.term, evs)
            if not (isinstance(t, ast.Call) and show(t.func) in ("asyncio.as_completed",)):
                continue
            exhausted = any(x.kind == "exhaust" and x.node is e.node for x in evs[e.idx:])
            if not exhausted and p.kind == "return":
                ret = next((x.node for x in reversed(evs) if x.kind == "return"), e.node)
                self._add(fn, ret, "leaves the `as_completed` loop early: the remaining started coroutines are neither awaited nor cancelled",
                          "early-exit", seen)


def _stmt_of(fn: FuncInfo, node: ast.AST) -> ast.AST:
    """Innermost simple statement of fn containing node."""
    best = None
    for st in ast.walk(fn.node):
        if isinstance(st, ast.stmt) and not isinstance(st, (ast.FunctionDef, ast.AsyncFunctionDef, ast.ClassDef)):
            if any(x is node for x in ast.walk(st)):
                if best is None or (getattr(st, "lineno", 0) >= getattr(best, "lineno", 0) and not isinstance(
                        st, (ast.If, ast.For, ast.While, ast.Try, ast.With))):
                    best = st
                elif best is None:
                    best = st
    return best if best is not None else node
