"""Thorough-tier extras shared by all properties (filled in later)."""


def run(ctx, mod):
    return None
