"""Thorough-tier extras, run after the property's own rules (which already ran with deeper bounds).

1. Obligation sensitivity: every corpus edit that names this property (selftest/corpus.py) is applied
   to the *in-memory* sources of the tree under analysis and the property's rules are re-run on the
   edited program.  A breaking edit that applies but is not reported means some "held" verdict does
   not depend on the construct it names (vacuous obligation) -> ANALYSIS-ERROR.  A behaviour-preserving
   rewrite that applies and *is* reported means a rule is stricter than the property -> ANALYSIS-ERROR.
   Edits that do not apply to the current tree (because it has been changed) are skipped and counted.
   Nothing is written to disk and nothing from the repository is executed.
2. mypy receiver-type cross-check (when mypy is importable in this interpreter): the classes my
   resolver infers for the receivers of the kernel's lock / queue / registry / engine calls are
   compared with the types mypy exports for the same expressions.  Disagreement = ANALYSIS-ERROR.
3. Package-wide sweeps of the generic rules (handler discipline) over all functions.
"""

from __future__ import annotations

import ast
import json
import os
import subprocess
import sys
import time
from typing import Dict, List

from .context import Ctx
from .loader import AnalysisError, Program
from .report import VERIF


def _corpus():
    sys.path.insert(0, os.path.join(VERIF, "selftest"))
    try:
        import corpus  # type: ignore

        return corpus.CORPUS
    finally:
        sys.path.pop(0)


def _apply(program: Program, edits) -> Dict[str, str]:
    out: Dict[str, str] = {}
    for e in edits:
        rel = e["file"]
        mod = program.by_rel.get(rel)
        if mod is None:
            return {}
        src = out.get(rel, mod.source)
        if src.count(e["old"]) != e.get("count", 1):
            return {}
        out[rel] = src.replace(e["old"], e["new"])
    for rel, src in out.items():
        try:
            ast.parse(src)
        except SyntaxError:
            return {}
    return out


def _refactor_overrides(program: Program, diff_path: str) -> Dict[str, str]:
    """Apply a unified diff to a throw-away copy of the files it touches (outside /repo and /verif) and return
    {relative path: new source}; {} when the diff does not apply to the current tree."""
    import re
    import shutil
    import tempfile

    txt = open(diff_path, encoding="utf-8").read()
    files = sorted(set(re.findall(r"^\+\+\+ b/(\S+)", txt, re.M)))
    tmp = tempfile.mkdtemp(prefix="pysm-thorough-")
    try:
        for rel in files:
            mod = program.by_rel.get(rel)
            if mod is None:
                return {}
            os.makedirs(os.path.dirname(os.path.join(tmp, rel)), exist_ok=True)
            open(os.path.join(tmp, rel), "w", encoding="utf-8").write(mod.source)
        r = subprocess.run(["patch", "-p1", "-s", "--no-backup-if-mismatch", "-i", diff_path], cwd=tmp, capture_output=True, text=True)
        if r.returncode != 0:
            return {}
        out = {rel: open(os.path.join(tmp, rel), encoding="utf-8").read() for rel in files}
        for src in out.values():
            ast.parse(src)
        return out
    except (SyntaxError, OSError):
        return {}
    finally:
        shutil.rmtree(tmp, ignore_errors=True)


def _replay(job):
    """Worker: run the property's rules on the tree with `overrides`; -> (label, violated rule ids, analysis error or None)."""
    prop, root, package, overrides, label = job
    import importlib

    mod = importlib.import_module(f"sa.rules.{prop.lower()}")
    prog = Program(root, package=package, overrides=overrides)
    sub = Ctx(prop, "quick", program=prog, write_evidence=False)
    err = None
    from .rules.common import COMMON_RULES

    for rule in list(mod.RULES) + COMMON_RULES:
        try:
            rule(sub)
        except AnalysisError as ex:
            err = err or str(ex)
        except Exception as ex:  # a crash of the analysis on an edited tree is an analysis error of that replay
            err = err or f"internal error: {type(ex).__name__}: {ex}"
    viol = sorted({o.rule for o in sub.rep.obligations if o.status == "violation"})
    return label, viol, (None if viol else err)


def _replay_all(jobs):
    """Replays are independent: run them on all cores (fork), in submission order."""
    if not jobs:
        return []
    import multiprocessing as mp

    n = min(len(jobs), max(1, (os.cpu_count() or 2)))
    if n <= 1:
        return [_replay(j) for j in jobs]
    with mp.get_context("fork").Pool(n) as pool:
        return pool.map(_replay, jobs, chunksize=1)


def refactor_silence(ctx: Ctx, mod) -> None:
    """Behaviour-preserving refactorings written by independent agents (selftest/refactors/*.diff) are applied to the
    in-memory tree; the property's rules must stay silent on every one that applies."""
    import glob

    rep = ctx.rep
    if any(o.status == "violation" for o in rep.obligations):
        return
    applied = skipped = relocated = 0
    exp_path = os.path.join(VERIF, "selftest", "refactors", "EXPECTED.json")
    expected = json.load(open(exp_path)) if os.path.exists(exp_path) else {}
    jobs = []
    for d in sorted(glob.glob(os.path.join(VERIF, "selftest", "refactors", "*.diff"))):
        over = _refactor_overrides(ctx.p, d)
        if not over:
            skipped += 1
            continue
        jobs.append((ctx.prop, ctx.p.root, ctx.p.package, over, os.path.basename(d)))
    for label, viol, err in _replay_all(jobs):
        exp = expected.get(label, {}).get(ctx.prop)
        if exp and viol and set(viol) <= set(exp["rules"]):
            relocated += 1  # a known genuine defect reported at its relocated construct (see EXPECTED.json)
            continue
        if err:
            raise AnalysisError(f"refactoring `{label}` (behaviour-preserving) makes {ctx.prop} inconclusive: {err}")
        if viol:
            raise AnalysisError(f"over-strict rule: behaviour-preserving refactoring `{label}` is reported by {viol}")
        applied += 1
    rep.extra["refactor_silence"] = {"refactorings_applied_and_silent": applied, "not_applicable_to_this_tree": skipped,
                                     "known_defect_reported_at_relocated_construct": relocated}


def sensitivity(ctx: Ctx, mod) -> None:
    rep = ctx.rep
    prop = ctx.prop
    entries = [e for e in _corpus() if prop in e["props"]]
    applied = flipped = skipped = 0
    benign_applied = 0
    samples = []
    if any(o.status == "violation" for o in rep.obligations):
        rep.extra["sensitivity"] = "skipped: the tree under analysis already violates the property"
        return
    jobs, by_id = [], {}
    for e in entries:
        over = _apply(ctx.p, e["edits"])
        if not over:
            skipped += 1
            continue
        by_id[e["id"]] = e
        jobs.append((prop, ctx.p.root, ctx.p.package, over, e["id"]))
    for label, viol, err in _replay_all(jobs):
        e = by_id[label]
        if e["kind"] == "mutant":
            applied += 1
            hit = bool(viol)
            if hit:
                flipped += 1
                if len(samples) < 6:
                    samples.append({"edit": e["id"], "reported_by": viol[:4]})
            else:
                raise AnalysisError(f"vacuous obligation: breaking edit `{e['id']}` applied to the in-memory tree is not reported by {prop}"
                                    + (f" (analysis error: {err})" if err else ""))
        else:
            benign_applied += 1
            if viol or err:
                raise AnalysisError(f"over-strict rule: behaviour-preserving rewrite `{e['id']}` is reported by {viol} {err or ''}")
    rep.extra["sensitivity"] = {"breaking_edits_applied": applied, "verdict_flipped": flipped, "benign_rewrites_silent": benign_applied,
                                "edits_not_applicable_to_this_tree": skipped, "samples": samples}
    rep.count("sensitivity_edits", applied + benign_applied)


MYPY_SNIPPET = r'''
import json, os, sys
os.chdir(sys.argv[1])
from mypy import build
from mypy.options import Options
from mypy.find_sources import create_source_list
from mypy.nodes import CallExpr, MemberExpr, NameExpr
opts = Options()
opts.preserve_asts = True; opts.export_types = True; opts.incremental = False; opts.cache_dir = os.devnull
opts.check_untyped_defs = True; opts.ignore_missing_imports = True
srcs = create_source_list([sys.argv[2]], opts)
res = build.build(srcs, opts)
out = []
seen = set()
def walk(node, path):
    if id(node) in seen: return
    seen.add(id(node))
    if isinstance(node, CallExpr) and isinstance(node.callee, MemberExpr):
        t = res.types.get(node.callee.expr)
        out.append({"file": path, "line": node.line, "method": node.callee.name, "type": str(t) if t is not None else None})
    for name in dir(type(node)):
        if name.startswith("_") or name in ("info", "node", "type", "analyzed", "fullname", "defs_module"): continue
        try: v = getattr(node, name)
        except Exception: continue
        vs = v if isinstance(v, (list, tuple)) else [v]
        for x in vs:
            if hasattr(x, "accept") and hasattr(x, "line") and type(x).__module__ == "mypy.nodes":
                walk(x, path)
            elif isinstance(x, (list, tuple)):
                for y in x:
                    if hasattr(y, "accept") and hasattr(y, "line") and type(y).__module__ == "mypy.nodes": walk(y, path)
for name, f in res.files.items():
    if name.split(".")[0] == sys.argv[2] and f.path:
        for d in f.defs: walk(d, f.path)
sys.stdout.write(json.dumps(out)); sys.stdout.flush(); os._exit(0)
'''

ANCHOR_METHODS = {"acquire", "release", "popleft", "append", "clear", "call", "all", "async_call", "async_all", "put", "processing_loop",
                  "_trigger", "_activate", "start", "match", "add", "resolve", "check", "async_or_sync"}


def mypy_crosscheck(ctx: Ctx) -> None:
    rep = ctx.rep
    try:
        import mypy  # noqa: F401
    except Exception:
        rep.extra["mypy_crosscheck"] = "mypy not importable in this interpreter: skipped"
        return
    t0 = time.time()
    try:
        r = subprocess.run([sys.executable, "-c", MYPY_SNIPPET, ctx.p.root, ctx.p.package], capture_output=True, text=True, timeout=180)
        data = json.loads(r.stdout)
    except Exception as ex:  # mypy could not build this tree: informational, never a verdict
        rep.extra["mypy_crosscheck"] = f"mypy run failed ({type(ex).__name__}): skipped"
        return
    by_site: Dict[tuple, List[str]] = {}
    for d in data:
        by_site.setdefault((os.path.relpath(d["file"], ctx.p.root) if os.path.isabs(d["file"]) else d["file"], d["line"], d["method"]), []).append(d["type"])
    compared = agree = 0
    disagreements = []
    for fn in ctx.p.all_functions():
        if not fn.module.rel.startswith((f"{ctx.p.package}/engines/", f"{ctx.p.package}/statemachine.py", f"{ctx.p.package}/callbacks.py", f"{ctx.p.package}/event.py")):
            continue
        for node, res in ctx.r.call_sites(fn):
            if not isinstance(node.func, ast.Attribute) or node.func.attr not in ANCHOR_METHODS:
                continue
            mine = ctx.r.typeof(node.func.value, fn, ())
            theirs = by_site.get((fn.module.rel, node.func.value.end_lineno or node.lineno, node.func.attr)) or by_site.get((fn.module.rel, node.lineno, node.func.attr))
            if not mine or not theirs or theirs[0] is None or theirs[0] in ("Any", "builtins.object"):
                continue
            t = theirs[0]
            base = t.split("[")[0].split(".")[-1].rstrip("?")
            mine_names = {m.strip("<>").split(":")[0] for m in mine}
            alias = {"LockType": "Lock", "lock": "Lock", "defaultdict": "dict", "Dict": "dict", "List": "list", "Set": "set", "Deque": "deque"}
            base = alias.get(base, base)
            if base in ("Any", "object", "None") or "Union" in t or "|" in t:
                continue
            compared += 1
            if base in mine_names or any(base == m for m in mine_names):
                agree += 1
            else:
                # subclass relation is fine (mypy: declared base, mine: concrete set)
                ok = False
                for m in mine_names:
                    c = ctx.p.classes.get(m)
                    if c is not None and any(x.name == base for x in ctx.p.mro(c)):
                        ok = True
                    c2 = ctx.p.classes.get(base)
                    if c2 is not None and m in {x.name for x in ctx.p.mro(c2)}:
                        ok = True
                if ok:
                    agree += 1
                else:
                    disagreements.append(f"{fn.module.rel}:{node.lineno} .{node.func.attr}: resolver {sorted(mine)} vs mypy {t}")
    rep.extra["mypy_crosscheck"] = {"receiver_sites_compared": compared, "agree": agree, "disagree": len(disagreements),
                                    "wall_s": round(time.time() - t0, 1), "mypy_member_calls_typed": len(data)}
    if disagreements:
        raise AnalysisError("resolver/mypy disagreement on receiver types: " + "; ".join(disagreements[:5]))


def handler_sweep(ctx: Ctx) -> None:
    """Package-wide handler discipline: a handler that catches Exception/BaseException/everything must
    end in a raise (any function, not only the event path)."""
    rep = ctx.rep
    n = 0
    swallowing = []
    for fn in ctx.p.all_functions():
        for t in ast.walk(fn.node):
            if isinstance(t, ast.Try):
                for h in t.handlers:
                    n += 1
                    broad = h.type is None or any(x in ast.unparse(h.type).split(".")[-1] for x in ("Exception", "BaseException") if ast.unparse(h.type).split(".")[-1] == x)
                    if broad and not isinstance(h.body[-1], ast.Raise):
                        swallowing.append(f"{fn.module.rel}:{h.lineno} {fn.qualname}")
    rep.extra["handler_sweep"] = {"handlers": n, "broad_handlers_not_reraising": swallowing}


def seeded_detection(ctx: Ctx, mod) -> None:
    """The breaking changes written by independent agents for this property (seeded/<id>/patch.diff, each confirmed to
    survive the test suite) are applied to the in-memory tree: every one that applies must be reported by this property's
    rules, unless its meta.json records it as inconclusive by design (re-implemented algorithm -> unrecognised)."""
    import glob

    rep = ctx.rep
    if any(o.status == "violation" for o in rep.obligations):
        return
    jobs, metas = [], {}
    skipped = 0
    for d in sorted(glob.glob(os.path.join(VERIF, "seeded", "*"))):
        try:
            meta = json.load(open(os.path.join(d, "meta.json")))
        except (OSError, ValueError):
            continue
        if meta.get("property") != ctx.prop:
            continue
        over = _refactor_overrides(ctx.p, os.path.join(d, "patch.diff"))
        if not over:
            skipped += 1
            continue
        metas[meta["id"]] = meta
        jobs.append((ctx.prop, ctx.p.root, ctx.p.package, over, meta["id"]))
    reported = inconclusive = 0
    for label, viol, err in _replay_all(jobs):
        if viol:
            reported += 1
        elif err and not metas[label].get("caught_by_own_property"):
            inconclusive += 1  # recorded as inconclusive by design in its meta.json
        else:
            raise AnalysisError(f"seeded breaking change `{label}` applied to the in-memory tree is not reported by {ctx.prop}"
                                + (f" (analysis error: {err})" if err else ""))
    rep.extra["seeded_detection"] = {"seeded_changes_reported": reported, "inconclusive_by_design": inconclusive,
                                     "not_applicable_to_this_tree": skipped}


def run(ctx: Ctx, mod) -> None:
    handler_sweep(ctx)
    sensitivity(ctx, mod)
    seeded_detection(ctx, mod)
    refactor_silence(ctx, mod)
    mypy_crosscheck(ctx)
