"""Per-run context shared by the rule modules."""

from __future__ import annotations

import ast
from typing import Callable, Dict, List, Optional

from .kernel import Kernel
from .loader import AnalysisError, FuncInfo, Program
from .paths import Enumerator, Path
from .report import Report
from .resolve import Resolver

ANCHOR_NAMES = {"processing_loop", "_trigger", "_activate"}


class Ctx:
    def __init__(self, prop: str, tier: str, repo: Optional[str] = None, write_evidence: bool = True,
                 evidence_dir: Optional[str] = None, program: Optional[Program] = None):
        self.prop = prop
        self.tier = tier
        self.p = program or Program(repo)
        self.r = Resolver(self.p)
        self.rep = Report(prop, tier, self.p, write_evidence=write_evidence, evidence_dir=evidence_dir)
        self._kernel: Optional[Kernel] = None
        self._path_cache: Dict[tuple, List[Path]] = {}
        self._stable_cache: Dict[str, set] = {}
        self._known = None
        self._wrapped_cache: Dict[str, Optional[list]] = {}

    @property
    def thorough(self) -> bool:
        return self.tier == "thorough"

    @property
    def k(self) -> Kernel:
        if self._kernel is None:
            self._kernel = Kernel(self.p, self.r)
        return self._kernel

    # ------------------------------------------------------------------ path enumeration
    def helper_inline(self, root: FuncInfo) -> Callable:
        """Inline policy: helpers of the same class family / same module that are not themselves
        kernel anchors.  This is what makes 'extract helper' refactorings invisible to the rules."""
        fam = set()
        if root.cls is not None:
            fam = {c.name for c in self.p.mro(root.cls)} | {c.name for c in self.p.subclasses(root.cls)}
            for c in list(fam):
                ci = self.p.classes.get(c)
                if ci:
                    fam |= {x.name for x in self.p.mro(ci)}

        def pred(callee: FuncInfo, depth: int, node) -> bool:
            if callee.name in ANCHOR_NAMES or callee is root:
                return False
            if callee.name.startswith("__") and callee.name.endswith("__"):
                return False
            if callee.cls is not None and callee.parent is None:
                return callee.cls.name in fam
            return callee.module is root.module and callee.parent is None

        return pred

    @property
    def known_functions(self) -> set:
        if self._known is None:
            import json
            import os

            path = os.path.join(os.path.dirname(os.path.abspath(__file__)), "known_functions.json")
            self._known = set(json.load(open(path, encoding="utf-8"))["functions"])
        return self._known

    @property
    def known_classes(self) -> set:
        if getattr(self, "_known_classes", None) is None:
            import json
            import os

            path = os.path.join(os.path.dirname(os.path.abspath(__file__)), "known_functions.json")
            self._known_classes = set(json.load(open(path, encoding="utf-8")).get("classes", []))
        return self._known_classes

    def is_new(self, fn: FuncInfo) -> bool:
        return fn.key not in self.known_functions

    def stable_attrs(self, fn: FuncInfo) -> set:
        """Attributes of `self` (class family of fn) assigned only in __init__ and not holding a
        mutable container / lock: their identity and truth value cannot change during a call."""
        if fn.cls is None:
            return set()
        if fn.cls.name in self._stable_cache:
            return self._stable_cache[fn.cls.name]
        fam = set(self.p.mro(fn.cls)) | set(self.p.subclasses(fn.cls))
        mutable_ctors = {"deque", "Lock", "RLock", "list", "dict", "set", "defaultdict", "OrderedDict", "Semaphore", "Condition"}
        cand = {}
        for c in fam:
            for ms in c.methods.values():
                for m in ms:
                    if m.name != "__init__":
                        continue
                    for n in ast.walk(m.node):
                        tgt, val = None, None
                        if isinstance(n, ast.Assign) and len(n.targets) == 1:
                            tgt, val = n.targets[0], n.value
                        elif isinstance(n, ast.AnnAssign):
                            tgt, val = n.target, n.value
                        if isinstance(tgt, ast.Attribute) and isinstance(tgt.value, ast.Name) and tgt.value.id == "self":
                            mut = isinstance(val, (ast.List, ast.Dict, ast.Set, ast.ListComp, ast.DictComp, ast.SetComp)) or (
                                isinstance(val, ast.Call) and (getattr(val.func, "id", None) or getattr(val.func, "attr", None)) in mutable_ctors)
                            cand[tgt.attr] = cand.get(tgt.attr, True) and not mut
        stable = {a for a, okk in cand.items() if okk}
        for f in self.p.all_functions():
            if f.name == "__init__":
                continue
            for n in ast.walk(f.node):
                if isinstance(n, ast.Attribute) and isinstance(n.ctx, (ast.Store, ast.Del)) and n.attr in stable:
                    stable.discard(n.attr)
                if isinstance(n, ast.Call) and isinstance(n.func, ast.Name) and n.func.id in ("setattr", "delattr"):
                    if len(n.args) >= 2 and not isinstance(n.args[1], ast.Constant):
                        pass  # dynamic names are used for model fields / event binding only (checked by C10/C13)
                    elif len(n.args) >= 2 and n.args[1].value in stable:
                        stable.discard(n.args[1].value)
        self._stable_cache[fn.cls.name] = stable
        return stable

    def paths(self, fn: FuncInfo, inline="helpers", exc_edges="try", unroll: Optional[int] = None,
              base_exc=False, max_depth=3, bindings=None, may_raise=None, loops_for_comps=False, comps_for_loops=False) -> List[Path]:
        if unroll is None:
            unroll = 3 if self.thorough else 2
        self._wrapped_guard(fn)
        key = (fn.key, fn.lineno, str(inline), exc_edges, unroll, base_exc, max_depth, may_raise, loops_for_comps, comps_for_loops)
        if key in self._path_cache and bindings is None:
            return self._path_cache[key]
        base = None
        if inline == "helpers":
            base = self.helper_inline(fn)
        elif callable(inline):
            base = inline
        known = self.known_functions

        def pred(callee, depth, node, base=base, known=known):
            # a function that did not exist in the analysed baseline is a helper introduced by a later change:
            # always inline it (this is what makes 'extract helper' refactorings transparent to the rules)
            if callee.key not in known and depth <= 5:
                return True
            return bool(base and base(callee, depth, node))
        e = Enumerator(self.p, self.r, inline=pred, max_depth=max(max_depth, 5), unroll=unroll,
                       exc_edges=exc_edges, base_exc=base_exc, may_raise=may_raise,
                       stable_self_attrs=self.stable_attrs(fn))
        e.loops_for_comps = loops_for_comps
        e.is_new = lambda f, known=known: f.key not in known
        e.comps_for_loops = comps_for_loops
        ps = e.paths(fn, bindings)
        self.rep.note_fn(fn)
        self.rep.note_paths(len(ps))
        self.rep.count("paths_truncated_by_unroll_bound", e.truncated)
        if not ps:
            raise AnalysisError(f"{fn.key}: no feasible path enumerated")
        if bindings is None:
            self._path_cache[key] = ps
        return ps

    def is_new_call(self, e) -> bool:
        """The call event targets a helper introduced later (it is inlined: its body's calls are what counts)."""
        c = e.x.get("callee")
        return bool(c is not None and c.how == "typed" and c.targets and all(self.is_new(t) for t in c.targets))

    def fn(self, key: str) -> FuncInfo:
        f = self.p.fn(key)
        self.rep.note_fn(f)
        self._wrapped_guard(f)
        return f

    def _wrapped_guard(self, f: FuncInfo) -> None:
        """A function the rules read must be what its callers get: a decorator added after the analysed baseline that can
        answer without running the body (memo) or changes arguments/result makes the reading unsound -> not a verdict.
        (Rules that decide such a wrapper themselves - wrappers.check_fresh - report it as a violation, which wins.)"""
        if not getattr(f.node, "decorator_list", None):
            return
        if f.key not in self._wrapped_cache:
            self._wrapped_cache[f.key] = None  # re-entrancy: the verdict itself enumerates paths
            from .wrappers import wrapped_report

            self._wrapped_cache[f.key] = wrapped_report(self, f)
        bad = self._wrapped_cache[f.key]
        if bad:
            txt, v, why = bad[0]
            raise AnalysisError(f"UNRECOGNISED-IDIOM {self.prop}.anchor at {f.loc()}: {f.qualname} is reached through @{txt} ({v}): {why}")
