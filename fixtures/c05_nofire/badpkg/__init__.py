"""Positive control for C05.nofire: this tiny package must be flagged on every run."""
import asyncio


async def after_group(cb):
    asyncio.ensure_future(cb())


def kick(loop, cb):
    loop.create_task(cb())
