"""Mutant corpus (edits that break a property; must be reported by the named rule) and benign corpus
(behaviour-preserving rewrites; must stay silent).  Edits are (file, old, new) string replacements
applied to a scratch copy of the package."""

SYNC = "statemachine/engines/sync.py"
ASYNC = "statemachine/engines/async_.py"
BASE = "statemachine/engines/base.py"
CB = "statemachine/callbacks.py"
TR = "statemachine/transition.py"
EV = "statemachine/event.py"
ED = "statemachine/event_data.py"
ST = "statemachine/state.py"
SM = "statemachine/statemachine.py"
DISP = "statemachine/dispatcher.py"
SIG = "statemachine/signature.py"
SP = "statemachine/spec_parser.py"
FAC = "statemachine/factory.py"
GR = "statemachine/graph.py"
TL = "statemachine/transition_list.py"
EVS = "statemachine/events.py"
STS = "statemachine/states.py"
UT = "statemachine/utils.py"
DIA = "statemachine/contrib/diagram.py"
MIX = "statemachine/transition_mixin.py"

CORPUS = []


def E(file, old, new, count=1):
    return {"file": file, "old": old, "new": new, "count": count}


def M(id, props, rules, *edits, note=""):
    CORPUS.append({"id": id, "kind": "mutant", "props": props if isinstance(props, list) else [props],
                   "rules": rules if isinstance(rules, list) else [rules], "edits": list(edits), "note": note})


def B(id, props, *edits, note=""):
    CORPUS.append({"id": id, "kind": "benign", "props": props if isinstance(props, list) else [props],
                   "rules": [], "edits": list(edits), "note": note})


# ----------------------------------------------------------------------------------------- C02
M("c02-async-exit-before-before", ["C02", "C05"], ["C02.order", "C05.sibling"],
  E(ASYNC, """        result = await self.sm._callbacks.async_call(transition.before.key, *args, **kwargs)
        if source is not None and not transition.internal:
            await self.sm._callbacks.async_call(source.exit.key, *args, **kwargs)
""", """        if source is not None and not transition.internal:
            await self.sm._callbacks.async_call(source.exit.key, *args, **kwargs)
        result = await self.sm._callbacks.async_call(transition.before.key, *args, **kwargs)
"""), note="properties.jsonl: verified to pass all 348 tests")
M("c02-sync-write-before-on", ["C02", "C04"], ["C02.order", "C04.state"],
  E(SYNC, """        result += self.sm._callbacks.call(transition.on.key, *args, **kwargs)

        self.sm.current_state = target
""", """        self.sm.current_state = target
        result += self.sm._callbacks.call(transition.on.key, *args, **kwargs)

"""))
M("c02-sync-write-after-enter", ["C02", "C04"], ["C02.order", "C04.state"],
  E(SYNC, """        self.sm.current_state = target
        event_data.state = target
        kwargs["state"] = target

        if not transition.internal:
            self.sm._callbacks.call(target.enter.key, *args, **kwargs)
""", """        event_data.state = target
        kwargs["state"] = target

        if not transition.internal:
            self.sm._callbacks.call(target.enter.key, *args, **kwargs)
        self.sm.current_state = target
"""))
M("c02-async-kwargs-state-not-refreshed", "C02", ["C02.order", "C02.view"],
  E(ASYNC, """        kwargs["state"] = target
""", ""))
M("c02-sync-kwargs-copy-refreshed", "C02", ["C02.view"],
  E(SYNC, """        kwargs["state"] = target
""", """        kwargs = dict(kwargs)
        kwargs["state"] = target
        kwargs = event_data.extended_kwargs
"""), note="a different mapping is refreshed than the one passed on")
M("c02-sync-enter-on-internal", "C02", ["C02.internal"],
  E(SYNC, """        if not transition.internal:
            self.sm._callbacks.call(target.enter.key, *args, **kwargs)
""", """        self.sm._callbacks.call(target.enter.key, *args, **kwargs)
"""))
M("c02-async-exit-on-internal", "C02", ["C02.internal"],
  E(ASYNC, """        if source is not None and not transition.internal:
            await self.sm._callbacks.async_call(source.exit.key, *args, **kwargs)
""", """        if source is not None:
            await self.sm._callbacks.async_call(source.exit.key, *args, **kwargs)
"""))
M("c02-sync-swapped-enter-exit-owner", "C02", ["C02.order"],
  E(SYNC, "self.sm._callbacks.call(source.exit.key, *args, **kwargs)", "self.sm._callbacks.call(target.exit.key, *args, **kwargs)"))
M("c02-drop-scope-after", "C02", ["C02.scope"],
  E(TR, """            after(
                f"after_{event}",
                priority=CallbackPriority.NAMING,
                is_convention=True,
                cond=same_event_cond,
            )""", """            after(
                f"after_{event}",
                priority=CallbackPriority.NAMING,
                is_convention=True,
            )"""), note="properties.jsonl: verified to pass all 348 tests")
M("c02-initial-no-clear", ["C02"], ["C02.initial"],
  E(BASE, "        transition._specs.clear()\n", ""))
M("c02-is-same-event-always", "C02", ["C02.scope"],
  E(EV, "        return self == event\n", "        return event is not None\n"))
M("c02-async-call-no-filter", ["C02"], ["C02.scope"],
  E(CB, """                callback(*args, **kwargs)
                for callback in self
                if callback.condition(*args, **kwargs)
""", """                callback(*args, **kwargs)
                for callback in self
"""))
M("c02-speclist-no-dedup", "C02", ["C02.once"],
  E(CB, """        if spec in self.items:
            return

""", ""))
M("c02-eventdata-state-starts-as-target", "C02", ["C02.view"],
  E(ED, "        self.state = self.transition.source\n", "        self.state = self.transition.target\n"))
M("c02-on-enter-registered-on-exit", "C02", ["C02.keys"],
  E(ST, """        self.enter.add(f"on_enter_{self.id}", priority=CallbackPriority.NAMING, is_convention=True)""",
    """        self.exit.add(f"on_enter_{self.id}", priority=CallbackPriority.NAMING, is_convention=True)"""))
M("c02-sync-validators-after-cond", ["C02", "C01"], ["C02.order", "C01.reject"],
  E(SYNC, """        self.sm._callbacks.call(transition.validators.key, *args, **kwargs)
        if not self.sm._callbacks.all(transition.cond.key, *args, **kwargs):
            return False, None
""", """        if not self.sm._callbacks.all(transition.cond.key, *args, **kwargs):
            return False, None
        self.sm._callbacks.call(transition.validators.key, *args, **kwargs)
"""))
M("c02-trigger-initial-literal-mismatch", "C02", ["C02.initial"],
  E(ASYNC, """        if trigger_data.event == "__initial__":""", """        if trigger_data.event == "__init__":"""))

B("b-activate-split-into-helpers", ["C01", "C02", "C04", "C05", "C14"],
  E(SYNC, """        result = self.sm._callbacks.call(transition.before.key, *args, **kwargs)
        if source is not None and not transition.internal:
            self.sm._callbacks.call(source.exit.key, *args, **kwargs)

        result += self.sm._callbacks.call(transition.on.key, *args, **kwargs)

        self.sm.current_state = target
        event_data.state = target
        kwargs["state"] = target

        if not transition.internal:
            self.sm._callbacks.call(target.enter.key, *args, **kwargs)
        self.sm._callbacks.call(transition.after.key, *args, **kwargs)
""", """        result = self._leave_phase(transition, source, args, kwargs)
        self._switch_state(event_data, kwargs, target)
        self._arrive_phase(transition, target, args, kwargs)
"""),
  E(SYNC, """    def _activate(self, trigger_data: TriggerData, transition: "Transition"):""",
    """    def _leave_phase(self, transition, source, args, kwargs):
        result = self.sm._callbacks.call(transition.before.key, *args, **kwargs)
        if source is not None and not transition.internal:
            self.sm._callbacks.call(source.exit.key, *args, **kwargs)
        return result + self.sm._callbacks.call(transition.on.key, *args, **kwargs)

    def _switch_state(self, event_data, kwargs, target):
        self.sm.current_state = target
        event_data.state = target
        kwargs["state"] = target

    def _arrive_phase(self, transition, target, args, kwargs):
        if not transition.internal:
            self.sm._callbacks.call(target.enter.key, *args, **kwargs)
        self.sm._callbacks.call(transition.after.key, *args, **kwargs)

    def _activate(self, trigger_data: TriggerData, transition: "Transition"):"""),
  note="helper extraction; C05.sibling compares abstract traces so it must stay silent too")
B("b-activate-rename-locals-reorder", ["C01", "C02", "C04", "C14"],
  E(ASYNC, """        source = transition.source
        target = transition.target
""", """        target = transition.target
        source = transition.source
"""),
  E(SYNC, """        event_data = EventData(trigger_data=trigger_data, transition=transition)
        args, kwargs = event_data.args, event_data.extended_kwargs
""", """        event_data = EventData(transition=transition, trigger_data=trigger_data)
        kwargs = event_data.extended_kwargs
        args = event_data.args
"""))
B("b-view-updates-swapped", ["C02", "C04"],
  E(SYNC, """        event_data.state = target
        kwargs["state"] = target
""", """        kwargs["state"] = target
        event_data.state = target
"""))
