"""Mutant corpus (edits that break a property; must be reported by the named rule) and benign corpus
(behaviour-preserving rewrites; must stay silent).  Edits are (file, old, new) string replacements
applied to a scratch copy of the package."""

SYNC = "statemachine/engines/sync.py"
ASYNC = "statemachine/engines/async_.py"
BASE = "statemachine/engines/base.py"
CB = "statemachine/callbacks.py"
TR = "statemachine/transition.py"
EV = "statemachine/event.py"
ED = "statemachine/event_data.py"
ST = "statemachine/state.py"
SM = "statemachine/statemachine.py"
DISP = "statemachine/dispatcher.py"
SIG = "statemachine/signature.py"
SP = "statemachine/spec_parser.py"
FAC = "statemachine/factory.py"
GR = "statemachine/graph.py"
TL = "statemachine/transition_list.py"
EVS = "statemachine/events.py"
STS = "statemachine/states.py"
UT = "statemachine/utils.py"
DIA = "statemachine/contrib/diagram.py"
MIX = "statemachine/transition_mixin.py"

CORPUS = []


def E(file, old, new, count=1):
    return {"file": file, "old": old, "new": new, "count": count}


def M(id, props, rules, *edits, note=""):
    CORPUS.append({"id": id, "kind": "mutant", "props": props if isinstance(props, list) else [props],
                   "rules": rules if isinstance(rules, list) else [rules], "edits": list(edits), "note": note})


def B(id, props, *edits, note=""):
    CORPUS.append({"id": id, "kind": "benign", "props": props if isinstance(props, list) else [props],
                   "rules": [], "edits": list(edits), "note": note})


# ----------------------------------------------------------------------------------------- C02
M("c02-async-exit-before-before", ["C02", "C05"], ["C02.order", "C05.sibling"],
  E(ASYNC, """        result = await self.sm._callbacks.async_call(transition.before.key, *args, **kwargs)
        if source is not None and not transition.internal:
            await self.sm._callbacks.async_call(source.exit.key, *args, **kwargs)
""", """        if source is not None and not transition.internal:
            await self.sm._callbacks.async_call(source.exit.key, *args, **kwargs)
        result = await self.sm._callbacks.async_call(transition.before.key, *args, **kwargs)
"""), note="properties.jsonl: verified to pass all 348 tests")
M("c02-sync-write-before-on", ["C02", "C04"], ["C02.order", "C04.state"],
  E(SYNC, """        result += self.sm._callbacks.call(transition.on.key, *args, **kwargs)

        self.sm.current_state = target
""", """        self.sm.current_state = target
        result += self.sm._callbacks.call(transition.on.key, *args, **kwargs)

"""))
M("c02-sync-write-after-enter", ["C02", "C04"], ["C02.order", "C04.state"],
  E(SYNC, """        self.sm.current_state = target
        event_data.state = target
        kwargs["state"] = target

        if not transition.internal:
            self.sm._callbacks.call(target.enter.key, *args, **kwargs)
""", """        event_data.state = target
        kwargs["state"] = target

        if not transition.internal:
            self.sm._callbacks.call(target.enter.key, *args, **kwargs)
        self.sm.current_state = target
"""))
M("c02-async-kwargs-state-not-refreshed", "C02", ["C02.order", "C02.view"],
  E(ASYNC, """        kwargs["state"] = target
""", ""))
M("c02-sync-kwargs-copy-refreshed", "C02", ["C02.view"],
  E(SYNC, """        kwargs["state"] = target
""", """        kwargs = dict(kwargs)
        kwargs["state"] = target
        kwargs = event_data.extended_kwargs
"""), note="a different mapping is refreshed than the one passed on")
M("c02-sync-enter-on-internal", "C02", ["C02.internal"],
  E(SYNC, """        if not transition.internal:
            self.sm._callbacks.call(target.enter.key, *args, **kwargs)
""", """        self.sm._callbacks.call(target.enter.key, *args, **kwargs)
"""))
M("c02-async-exit-on-internal", "C02", ["C02.internal"],
  E(ASYNC, """        if source is not None and not transition.internal:
            await self.sm._callbacks.async_call(source.exit.key, *args, **kwargs)
""", """        if source is not None:
            await self.sm._callbacks.async_call(source.exit.key, *args, **kwargs)
"""))
M("c02-sync-swapped-enter-exit-owner", "C02", ["C02.order"],
  E(SYNC, "self.sm._callbacks.call(source.exit.key, *args, **kwargs)", "self.sm._callbacks.call(target.exit.key, *args, **kwargs)"))
M("c02-drop-scope-after", "C02", ["C02.scope"],
  E(TR, """            after(
                f"after_{event}",
                priority=CallbackPriority.NAMING,
                is_convention=True,
                cond=same_event_cond,
            )""", """            after(
                f"after_{event}",
                priority=CallbackPriority.NAMING,
                is_convention=True,
            )"""), note="properties.jsonl: verified to pass all 348 tests")
M("c02-initial-no-clear", ["C02"], ["C02.initial"],
  E(BASE, "        transition._specs.clear()\n", ""))
M("c02-is-same-event-always", "C02", ["C02.scope"],
  E(EV, "        return self == event\n", "        return event is not None\n"))
M("c02-async-call-no-filter", ["C02"], ["C02.scope"],
  E(CB, """                callback(*args, **kwargs)
                for callback in self
                if callback.condition(*args, **kwargs)
""", """                callback(*args, **kwargs)
                for callback in self
"""))
M("c02-speclist-no-dedup", "C02", ["C02.once"],
  E(CB, """        if spec in self.items:
            return

""", ""))
M("c02-eventdata-state-starts-as-target", "C02", ["C02.view"],
  E(ED, "        self.state = self.transition.source\n", "        self.state = self.transition.target\n"))
M("c02-on-enter-registered-on-exit", "C02", ["C02.keys"],
  E(ST, """        self.enter.add(f"on_enter_{self.id}", priority=CallbackPriority.NAMING, is_convention=True)""",
    """        self.exit.add(f"on_enter_{self.id}", priority=CallbackPriority.NAMING, is_convention=True)"""))
M("c02-sync-validators-after-cond", ["C02", "C01"], ["C02.order", "C01.reject"],
  E(SYNC, """        self.sm._callbacks.call(transition.validators.key, *args, **kwargs)
        if not self.sm._callbacks.all(transition.cond.key, *args, **kwargs):
            return False, None
""", """        if not self.sm._callbacks.all(transition.cond.key, *args, **kwargs):
            return False, None
        self.sm._callbacks.call(transition.validators.key, *args, **kwargs)
"""))
M("c02-trigger-initial-test-on-other-trigger", ["C02", "C11"], ["C02.initial", "C11.who"],
  E(ASYNC, """        if trigger_data is self._initial_trigger:""", """        if trigger_data.event == "__init__":"""),
  note="the async engine no longer routes the initial trigger to the pseudo-transition")

B("b-activate-split-into-helpers", ["C01", "C02", "C04", "C05", "C14"],
  E(SYNC, """        result = self.sm._callbacks.call(transition.before.key, *args, **kwargs)
        if source is not None and not transition.internal:
            self.sm._callbacks.call(source.exit.key, *args, **kwargs)

        result += self.sm._callbacks.call(transition.on.key, *args, **kwargs)

        self.sm.current_state = target
        event_data.state = target
        kwargs["state"] = target

        if not transition.internal:
            self.sm._callbacks.call(target.enter.key, *args, **kwargs)
        self.sm._callbacks.call(transition.after.key, *args, **kwargs)
""", """        result = self._leave_phase(transition, source, args, kwargs)
        self._switch_state(event_data, kwargs, target)
        self._arrive_phase(transition, target, args, kwargs)
"""),
  E(SYNC, """    def _activate(self, trigger_data: TriggerData, transition: "Transition"):""",
    """    def _leave_phase(self, transition, source, args, kwargs):
        result = self.sm._callbacks.call(transition.before.key, *args, **kwargs)
        if source is not None and not transition.internal:
            self.sm._callbacks.call(source.exit.key, *args, **kwargs)
        return result + self.sm._callbacks.call(transition.on.key, *args, **kwargs)

    def _switch_state(self, event_data, kwargs, target):
        self.sm.current_state = target
        event_data.state = target
        kwargs["state"] = target

    def _arrive_phase(self, transition, target, args, kwargs):
        if not transition.internal:
            self.sm._callbacks.call(target.enter.key, *args, **kwargs)
        self.sm._callbacks.call(transition.after.key, *args, **kwargs)

    def _activate(self, trigger_data: TriggerData, transition: "Transition"):"""),
  note="helper extraction; C05.sibling compares abstract traces so it must stay silent too")
B("b-activate-rename-locals-reorder", ["C01", "C02", "C04", "C14"],
  E(ASYNC, """        source = transition.source
        target = transition.target
""", """        target = transition.target
        source = transition.source
"""),
  E(SYNC, """        event_data = EventData(trigger_data=trigger_data, transition=transition)
        args, kwargs = event_data.args, event_data.extended_kwargs
""", """        event_data = EventData(transition=transition, trigger_data=trigger_data)
        kwargs = event_data.extended_kwargs
        args = event_data.args
"""))
B("b-view-updates-swapped", ["C02", "C04"],
  E(SYNC, """        event_data.state = target
        kwargs["state"] = target
""", """        kwargs["state"] = target
        event_data.state = target
"""))

# ----------------------------------------------------------------------------------------- C01
M("c01-match-by-prefix", "C01", ["C01.match"],
  E(EVS, "        return any(e == event for e in self)", "        return any(event.startswith(e) for e in self)"),
  note="properties.jsonl: verified to pass all 348 tests")
M("c01-match-substring-in", "C01", ["C01.match"],
  E(EVS, "        return any(e == event for e in self)", "        return any(e in event for e in self)"))
M("c01-async-all-anyof", ["C01", "C05"], ["C01.allof", "C05.sibling"],
  E(CB, """        for coro in asyncio.as_completed(coros):
            if not await coro:
                return False
        return True""", """        for coro in asyncio.as_completed(coros):
            if await coro:
                return True
        return not coros"""), note="properties.jsonl: verified to pass all 348 tests")
M("c01-sync-all-anyof", "C01", ["C01.allof"],
  E(CB, """        for condition in self:
            if not condition.call(*args, **kwargs):
                return False
        return True""", """        for condition in self:
            if condition.call(*args, **kwargs):
                return True
        return len(self.items) == 0"""))
M("c01-sync-all-only-first", "C01", ["C01.allof"],
  E(CB, """        for condition in self:
            if not condition.call(*args, **kwargs):
                return False
        return True""", """        for condition in self:
            return bool(condition.call(*args, **kwargs))
        return True"""))
M("c01-unless-expected-true", "C01", ["C01.expected"],
  E(TR, ".add(unless, priority=CallbackPriority.INLINE, expected_value=False)", ".add(unless, priority=CallbackPriority.INLINE, expected_value=True)"))
M("c01-decorator-unless-true", "C01", ["C01.expected"],
  E(MIX, "return self._add_callback(f, CallbackGroup.COND, expected_value=False)", "return self._add_callback(f, CallbackGroup.COND, expected_value=True)"))
M("c01-wrapper-call-no-bool", "C01", ["C01.expected"],
  E(CB, """        value = self._callback(*args, **kwargs)
        if self.expected_value is not None:
            return bool(value) == self.expected_value
        return value

""", """        value = self._callback(*args, **kwargs)
        if self.expected_value is not None:
            return value == self.expected_value
        return value

"""), note="truthy non-bool guard results (e.g. 1, 'x') are then treated as falsy for cond")
M("c01-sync-continue-instead-of-break", "C01", ["C01.loop"],
  E(SYNC, """            if not executed:
                continue

            break
""", """            if not executed:
                continue

            continue
"""))
M("c01-async-reversed-candidates", "C01", ["C01.loop"],
  E(ASYNC, "        for transition in state.transitions:", "        for transition in reversed(list(state.transitions)):"))
M("c01-sync-raise-when-tolerated", "C01", ["C01.none"],
  E(SYNC, """            if not self.sm.allow_event_without_transition:
                raise TransitionNotAllowed(trigger_data.event, state)""", """            raise TransitionNotAllowed(trigger_data.event, state)"""))
M("c01-async-never-raise", "C01", ["C01.none"],
  E(ASYNC, """            if not self.sm.allow_event_without_transition:
                raise TransitionNotAllowed(trigger_data.event, state)""", """            pass"""))
M("c01-sync-activate-without-match", "C01", ["C01.loop"],
  E(SYNC, """            if not transition.match(trigger_data.event):
                continue

""", ""))
M("c01-sync-break-after-first-match", "C01", ["C01.loop"],
  E(SYNC, """            if not executed:
                continue

            break
""", """            break
"""), note="a rejected first candidate ends the search (later candidates never tried)")
M("c01-transitionlist-insert-front", "C01", ["C01.loop"],
  E(TL, "            self.transitions.append(transition)", "            self.transitions.insert(0, transition)"))
M("c01-second-state-writer", ["C01", "C10"], ["C01.write", "C10.access"],
  E(SM, """    def _put_nonblocking(self, trigger_data: TriggerData):
        \"\"\"Put the trigger on the queue without blocking the caller.\"\"\"
""", """    def _put_nonblocking(self, trigger_data: TriggerData):
        \"\"\"Put the trigger on the queue without blocking the caller.\"\"\"
        if trigger_data.event == "reset":
            setattr(self.model, self.state_field, self.initial_state.value)
"""))
M("c01-async-cond-ignored", ["C01", "C02"], ["C01.reject", "C02.order"],
  E(ASYNC, """        if not await self.sm._callbacks.async_all(transition.cond.key, *args, **kwargs):
            return False, None
""", """        await self.sm._callbacks.async_all(transition.cond.key, *args, **kwargs)
"""))
M("c07-f29-reintroduced", ["C07"], ["C07.layer"],
  E(CB, """    def call(*args, **kwargs):
        self, key, *args = args
        if key not in self._registry:""", """    def call(self, key: str, *args, **kwargs):
        if key not in self._registry:"""))
M("c01-registry-all-missing-key-false", "C01", ["C01.allof"],
  E(CB, """    def all(*args, **kwargs):
        self, key, *args = args
        if key not in self._registry:
            return True""", """    def all(*args, **kwargs):
        self, key, *args = args
        if key not in self._registry:
            return False"""))

B("b-trigger-flag-instead-of-for-else", ["C01", "C03", "C14"],
  E(SYNC, """        state = self.sm.current_state
        for transition in state.transitions:
            if not transition.match(trigger_data.event):
                continue

            executed, result = self._activate(trigger_data, transition)
            if not executed:
                continue

            break
        else:
            if not self.sm.allow_event_without_transition:
                raise TransitionNotAllowed(trigger_data.event, state)

        return result if executed else None
""", """        state = self.sm.current_state
        result = None
        for transition in state.transitions:
            if transition.match(trigger_data.event):
                executed, result = self._activate(trigger_data, transition)
                if executed:
                    return result

        if not self.sm.allow_event_without_transition:
            raise TransitionNotAllowed(trigger_data.event, state)
        return None
"""), note="early return instead of for/else")
B("b-all-with-builtin-all", ["C01", "C05"],
  E(CB, """        for condition in self:
            if not condition.call(*args, **kwargs):
                return False
        return True""", """        return all(condition.call(*args, **kwargs) for condition in self)"""))
B("b-match-in-items", ["C01"],
  E(EVS, "        return any(e == event for e in self)", "        return event in self._items"))

# ----------------------------------------------------------------------------------------- C03
M("c03-sync-lifo-pop", "C03", ["C03.fifo"],
  E(SYNC, """            while self._external_queue:
                    trigger_data = self._external_queue.popleft()""", """            while self._external_queue:
                    trigger_data = self._external_queue.pop()""".replace("            while", "                while", 1).replace("                while", "                while", 1)) if False else
  E(SYNC, "                    trigger_data = self._external_queue.popleft()", "                    trigger_data = self._external_queue.pop()"))
M("c03-put-appendleft", "C03", ["C03.fifo"],
  E(BASE, "        self._external_queue.append(trigger_data)", "        self._external_queue.appendleft(trigger_data)"))
M("c03-rlock", ["C03", "C06"], ["C03.elect", "C06.nonblock"],
  E(BASE, "from threading import Lock", "from threading import RLock as Lock"), note="alias keeps the name; resolved through the import")
M("c03-rlock-explicit", ["C03", "C06"], ["C03.elect", "C06.nonblock"],
  E(BASE, "from threading import Lock", "from threading import RLock"),
  E(BASE, "        self._processing = Lock()", "        self._processing = RLock()"))
M("c03-async-blocking-acquire", ["C03", "C06"], ["C03.elect", "C06.nonblock"],
  E(ASYNC, """        if not self._processing.acquire(blocking=False):
            return None
""", """        if not self._processing.acquire():
            return None
"""))
M("c03-sync-last-result", "C03", ["C03.first"],
  E(SYNC, """                        if first_result is self._sentinel:
                            first_result = result""", """                        first_result = result"""))
M("c03-sync-trigger-when-acquire-failed", ["C03", "C06"], ["C03.elect", "C03.rtc", "C06.mutex"],
  E(SYNC, """        if not self._processing.acquire(blocking=False):
            return None
""", """        if not self._processing.acquire(blocking=False):
            if len(self._external_queue) > 8:
                return self._trigger(self._external_queue.popleft())
            return None
"""))
M("c03-enqueue-after-drain", ["C03", "C06"], ["C03.put", "C06.order"],
  E(EV, """        machine._put_nonblocking(trigger_data)
        result = machine._processing_loop()
""", """        result = machine._processing_loop()
        machine._put_nonblocking(trigger_data)
"""))
M("c03-drain-by-recursion", "C03", ["C03.depth", "C03.rtc"],
  E(SYNC, """        return first_result if first_result is not self._sentinel else None

    def _trigger""", """        if self._external_queue:
            self.processing_loop()
        return first_result if first_result is not self._sentinel else None

    def _trigger"""))
M("c03-nonrtc-uses-pop", "C03", ["C03.nonrtc", "C03.fifo"],
  E(SYNC, """            trigger_data = self._external_queue.popleft()
            return self._trigger(trigger_data)""", """            trigger_data = self._external_queue.pop()
            return self._trigger(trigger_data)"""), note="nested immediate events would take the wrong trigger")
M("c03-async-accepts-rtc-false", "C03", ["C03.nonrtc"],
  E(ASYNC, """        if not rtc:
            raise InvalidDefinition(_("Only RTC is supported on async engine"))
""", ""))
M("c03-initial-returns-result", ["C03", "C11"], ["C03.first", "C11.sentinel"],
  E(SYNC, """            self._activate(trigger_data, transition)
            return self._sentinel""", """            executed, result = self._activate(trigger_data, transition)
            return result"""))
M("c03-trigger-called-from-put", ["C03", "C06"], ["C03.rtc", "C06.mutex"],
  E(SM, """        self._engine.put(trigger_data)
""", """        self._engine.put(trigger_data)
        if trigger_data.event == "urgent":
            self._engine._trigger(self._engine._external_queue.popleft())
"""))
M("c03-get-engine-ignores-rtc", "C03", ["C03.nonrtc"],
  E(SM, "        return SyncEngine(self, rtc=rtc)", "        return SyncEngine(self, rtc=True)"))

B("b-drain-extracted-helper", ["C03", "C04", "C06"],
  E(SYNC, """                while self._external_queue:
                    trigger_data = self._external_queue.popleft()
                    try:
                        result = self._trigger(trigger_data)
                        if first_result is self._sentinel:
                            first_result = result
                    except BaseException:
                        # Whe clear the queue as we don't have an expected behavior
                        # and cannot keep processing
                        self._external_queue.clear()
                        raise
""", """                first_result = self._drain(first_result)
"""),
  E(SYNC, """    def _trigger(self, trigger_data: TriggerData):""", """    def _drain(self, first_result):
        while self._external_queue:
            trigger_data = self._external_queue.popleft()
            try:
                result = self._trigger(trigger_data)
                if first_result is self._sentinel:
                    first_result = result
            except BaseException:
                self._external_queue.clear()
                raise
        return first_result

    def _trigger(self, trigger_data: TriggerData):"""))
B("b-bare-except-clears", ["C01", "C03", "C04", "C06", "C14"],
  E(SYNC, "                    except BaseException:", "                    except:  # noqa: E722"),
  E(ASYNC, "                    except BaseException:", "                    except:  # noqa: E722"))
B("b-clear-by-rebinding-deque", ["C03", "C04", "C06"],
  E(ASYNC, "                        self._external_queue.clear()", "                        self._external_queue = deque()"),
  E(ASYNC, "from typing import TYPE_CHECKING\n", "from collections import deque\nfrom typing import TYPE_CHECKING\n"))

# ----------------------------------------------------------------------------------------- C04
M("c04-sync-no-clear", ["C04"], ["C04.clear"],
  E(SYNC, """                        self._external_queue.clear()
                        raise""", """                        raise"""), note="properties.jsonl: verified to pass all 348 tests")
M("c04-async-no-clear", ["C04", "C05"], ["C04.clear", "C05.sibling"],
  E(ASYNC, """                        self._external_queue.clear()
                        raise""", """                        raise"""), note="properties.jsonl: verified to pass all 348 tests")
M("c04-sync-release-outside-finally", ["C04"], ["C04.release"],
  E(SYNC, """            finally:
                self._processing.release()
""", """            finally:
                pass
            self._processing.release()
"""))
M("c04-async-swallow-exception", ["C04"], ["C04.clear", "C04.noswallow"],
  E(ASYNC, """                        self._external_queue.clear()
                        raise""", """                        self._external_queue.clear()
                        break"""))
M("c04-sync-swallow-in-activate", ["C04", "C01"], ["C04.noswallow", "C04.state", "C01.reject"],
  E(SYNC, """        self.sm._callbacks.call(transition.after.key, *args, **kwargs)

        if len(result) == 0:""", """        try:
            self.sm._callbacks.call(transition.after.key, *args, **kwargs)
        except Exception:
            pass

        if len(result) == 0:"""))
M("c04-sync-rollback-on-failure", ["C04"], ["C04.state"],
  E(SYNC, """                    except BaseException:
                        # Whe clear the queue as we don't have an expected behavior
                        # and cannot keep processing
                        self._external_queue.clear()
                        raise""", """                    except BaseException:
                        # Whe clear the queue as we don't have an expected behavior
                        # and cannot keep processing
                        self._external_queue.clear()
                        self.sm.current_state = self.sm.initial_state
                        raise"""))
M("c04-processing-flag", ["C04"], ["C04.nosticky"],
  E(SYNC, """                    trigger_data = self._external_queue.popleft()
                    try:""", """                    trigger_data = self._external_queue.popleft()
                    self._busy = True
                    try:"""))
M("c04-clear-only-on-notallowed", ["C04"], ["C04.clear"],
  E(SYNC, """                    except BaseException:
                        # Whe clear the queue as we don't have an expected behavior
                        # and cannot keep processing
                        self._external_queue.clear()
                        raise""", """                    except TransitionNotAllowed:
                        # Whe clear the queue as we don't have an expected behavior
                        # and cannot keep processing
                        self._external_queue.clear()
                        raise"""))
M("c04-raise-different-exception", ["C04"], ["C04.clear"],
  E(ASYNC, """                        self._external_queue.clear()
                        raise""", """                        self._external_queue.clear()
                        raise RuntimeError("processing failed")"""))

# ----------------------------------------------------------------------------------------- C06
M("c06-no-recheck-after-release", ["C06"], ["C06.recheck"],
  E(SYNC, """            if not self._external_queue or not self._processing.acquire(blocking=False):
                break""", """            break"""), note="re-introduces F10 on the sync engine")
M("c06-async-no-recheck-after-release", ["C06", "C05"], ["C06.recheck", "C05.sibling"],
  E(ASYNC, """            if not self._external_queue or not self._processing.acquire(blocking=False):
                break""", """            break"""))
M("c06-async-await-in-window", ["C06"], ["C06.atomic-async"],
  E(ASYNC, """            finally:
                self._processing.release()
""", """            finally:
                await asyncio.sleep(0)
                self._processing.release()
"""),
  E(ASYNC, "from typing import TYPE_CHECKING\n", "import asyncio\nfrom typing import TYPE_CHECKING\n"))
M("c06-queue-peek-index", ["C06"], ["C06.prims"],
  E(SYNC, """                    trigger_data = self._external_queue.popleft()
                    try:""", """                    trigger_data = self._external_queue[0]
                    self._external_queue.popleft()
                    try:"""))
M("c06-pop-before-acquire", ["C06", "C03"], ["C06.mutex", "C03.elect"],
  E(ASYNC, """        if not self._processing.acquire(blocking=False):
            return None
""", """        pending = self._external_queue.popleft() if self._external_queue else None
        if not self._processing.acquire(blocking=False):
            if pending is not None:
                self._external_queue.append(pending)
            return None
        if pending is not None:
            self._external_queue.appendleft(pending)
"""))

# ----------------------------------------------------------------------------------------- C14
M("c14-sync-on-before-swapped", "C14", ["C14.flow"],
  E(SYNC, """        result = self.sm._callbacks.call(transition.before.key, *args, **kwargs)
        if source is not None and not transition.internal:
            self.sm._callbacks.call(source.exit.key, *args, **kwargs)

        result += self.sm._callbacks.call(transition.on.key, *args, **kwargs)
""", """        result = self.sm._callbacks.call(transition.before.key, *args, **kwargs)
        if source is not None and not transition.internal:
            self.sm._callbacks.call(source.exit.key, *args, **kwargs)

        result = self.sm._callbacks.call(transition.on.key, *args, **kwargs) + result
"""))
M("c14-async-after-results-appended", "C14", ["C14.flow"],
  E(ASYNC, "        await self.sm._callbacks.async_call(transition.after.key, *args, **kwargs)\n",
    "        result += await self.sm._callbacks.async_call(transition.after.key, *args, **kwargs)\n"))
M("c14-sync-unwrap-le-1", "C14", ["C14.unwrap"],
  E(SYNC, """        if len(result) == 0:
            result = None
        elif len(result) == 1:
            result = result[0]
""", """        if len(result) == 0:
            result = None
        elif len(result) <= 2:
            result = result[0]
"""))
M("c14-async-unwrap-no-none", "C14", ["C14.unwrap"],
  E(ASYNC, """        if len(result) == 0:
            result = None
        elif len(result) == 1:
            result = result[0]
""", """        if len(result) == 1:
            result = result[0]
"""))
M("c14-call-filters-none", "C14", ["C14.collect"],
  E(CB, """        return [
            callback.call(*args, **kwargs)
            for callback in self
            if callback.condition(*args, **kwargs)
        ]""", """        results = [
            callback.call(*args, **kwargs)
            for callback in self
            if callback.condition(*args, **kwargs)
        ]
        return [r for r in results if r is not None]"""))
B("b-trigger-returns-result-of-rejected", ["C14", "C01"],
  E(SYNC, "        return result if executed else None", "        return result"),
  E(SYNC, "        executed = False\n        if trigger_data is", "        executed = False\n        result = None\n        if trigger_data is"),
  note="the result component of a rejected activation is None, so this is behaviour-preserving")
M("c14-on-result-dropped", "C14", ["C14.flow"],
  E(SYNC, "        result += self.sm._callbacks.call(transition.on.key, *args, **kwargs)\n",
    "        self.sm._callbacks.call(transition.on.key, *args, **kwargs)\n"))

B("b-unwrap-not-result", ["C14"],
  E(SYNC, """        if len(result) == 0:
            result = None
        elif len(result) == 1:""", """        if not result:
            result = None
        elif len(result) == 1:"""))

M("c14-trigger-returns-constant-when-not-executed", "C14", ["C14.none"],
  E(SYNC, "        return result if executed else None", "        return result if executed else False"))

# ----------------------------------------------------------------------------------------- C05
M("c05-async-after-ensure-future", "C05", ["C05.await", "C05.nofire", "C05.sibling"],
  E(ASYNC, "        await self.sm._callbacks.async_call(transition.after.key, *args, **kwargs)\n",
    "        asyncio.ensure_future(self.sm._callbacks.async_call(transition.after.key, *args, **kwargs))\n"),
  E(ASYNC, "from typing import TYPE_CHECKING\n", "import asyncio\nfrom typing import TYPE_CHECKING\n"))
M("c05-async-enter-not-awaited", "C05", ["C05.await", "C05.sibling"],
  E(ASYNC, "            await self.sm._callbacks.async_call(target.enter.key, *args, **kwargs)\n",
    "            self.sm._callbacks.async_call(target.enter.key, *args, **kwargs)\n"))
M("c05-run-async-always-returns-coroutine", "C05", ["C05.facade"],
  E(UT, """    try:
        asyncio.get_running_loop()
        return coroutine
    except RuntimeError:
        if not hasattr(_cached_loop, "loop"):
            _cached_loop.loop = asyncio.new_event_loop()
        return _cached_loop.loop.run_until_complete(coroutine)""", """    return coroutine"""))
M("c05-global-loop-instead-of-thread-local", "C05", ["C05.facade"],
  E(UT, "_cached_loop = threading.local()", "class _Holder:\n    pass\n\n\n_cached_loop = _Holder()"))
B("b-send-returns-event-call-directly", ["C05", "C13"],
  E(SM, """        result = event_instance(*args, **kwargs)
        if not isawaitable(result):
            return result
        return run_async_from_sync(result)""", """        return event_instance(*args, **kwargs)"""),
  note="Event.__call__ already resolves awaitables; send's own guard is redundant")
M("c05-wrapper-call-awaits-nothing", "C05", ["C05.await", "C05.sibling"],
  E(CB, """        value = self._callback(*args, **kwargs)
        if isawaitable(value):
            value = await value

        if self.expected_value is not None:""", """        value = self._callback(*args, **kwargs)

        if self.expected_value is not None:"""))
M("c05-adapter-flag-always-false", "C05", ["C05.flag"],
  E(DISP, "    signature_adapter.is_coroutine = sig.is_coroutine  # type: ignore[attr-defined]", "    signature_adapter.is_coroutine = False  # type: ignore[attr-defined]"))
M("c05-adapter-flag-missing", "C05", ["C05.flag"],
  E(DISP, "    signature_adapter.is_coroutine = sig.is_coroutine  # type: ignore[attr-defined]\n", ""))
M("c05-engine-choice-inverted", ["C05", "C12"], ["C05.flag", "C12.engine"],
  E(SM, """        if self._callbacks.has_async_callbacks:
            return AsyncEngine(self, rtc=rtc)

        return SyncEngine(self, rtc=rtc)""", """        if not self._callbacks.has_async_callbacks:
            return AsyncEngine(self, rtc=rtc)

        return SyncEngine(self, rtc=rtc)"""))
M("c05-init-no-start", ["C05", "C11"], ["C05.start", "C11.who"],
  E(SM, """        self._engine = self._get_engine(rtc)
        self._engine.start()

    def _get_engine""", """        self._engine = self._get_engine(rtc)

    def _get_engine"""))
M("c05-async-trigger-initial-not-awaited", "C05", ["C05.await", "C05.sibling"],
  E(ASYNC, """            await self._activate(trigger_data, transition)
            return self._sentinel""", """            self._activate(trigger_data, transition)
            return self._sentinel"""))
M("c05-has-async-only-first-executor", "C05", ["C05.flag"],
  E(CB, """        self.has_async_callbacks = any(
            callback._iscoro for executor in self._registry.values() for callback in executor
        )""", """        self.has_async_callbacks = any(
            callback._iscoro for executor in list(self._registry.values())[:1] for callback in executor
        )"""))
M("c05-async-gather-return-exceptions", "C05", ["C05.sibling", "C14.collect"],
  E(CB, """                if callback.condition(*args, **kwargs)
            )
        )""", """                if callback.condition(*args, **kwargs)
            ),
            return_exceptions=True,
        )"""), note="exceptions of async callbacks would be returned as results instead of raised")

# ----------------------------------------------------------------------------------------- C07
M("c07-no-reserved-filter", "C07", ["C07.reserved"],
  E(EV, "        kwargs = {k: v for k, v in kwargs.items() if k not in _event_data_kwargs}\n", ""),
  note="properties.jsonl: verified to pass all 348 tests")
M("c07-reserved-table-misses-source", "C07", ["C07.reserved"],
  E(EV, '    "source",\n', ""))
M("c07-builtins-before-user-kwargs", "C07", ["C07.layer"],
  E(ED, """        kwargs = self.trigger_data.kwargs.copy()
        kwargs["event_data"] = self""", """        kwargs = {}
        kwargs["event_data"] = self"""),
  E(ED, """        kwargs["target"] = self.target
        return kwargs""", """        kwargs["target"] = self.target
        kwargs.update(self.trigger_data.kwargs)
        return kwargs"""))
M("c07-extended-kwargs-no-copy", "C07", ["C07.layer"],
  E(ED, "        kwargs = self.trigger_data.kwargs.copy()", "        kwargs = self.trigger_data.kwargs"),
  note="built-ins leak into the TriggerData kwargs shared by later candidate transitions")
M("c07-f5-reintroduced", "C07", ["C07.consume"],
  E(SIG, """                        # 'too many positional arguments' forgiven, but the parameter
                        # can still be filled by a keyword argument.
                        parameters_ex = (param,)
                        break""", """                        # 'too many positional arguments' forgiven
                        break"""), note="F5")
M("c07-f6-reintroduced", ["C07", "C16"], ["C07.cachekey", "C16.cachekey"],
  E(SIG, """                method.__code__,
                wrapped_code,
            )""", """                method.__code__.co_varnames,
            )"""),
  E(SIG, "return hash((method.__qualname__, method.__code__, wrapped_code))", "return hash((method.__qualname__, method.__code__.co_varnames))"), note="F6")
M("c07-adapter-drops-kwargs", "C07", ["C07.adapter"],
  E(DISP, """            ba = sig_bind_expected(*args, **kwargs)
            return a_callable(*ba.args, **ba.kwargs)""", """            ba = sig_bind_expected(*args, **kwargs)
            return a_callable(*ba.args)"""))
M("c07-search-name-bypasses-adapter", "C07", ["C07.adapter"],
  E(DISP, "            yield key, partial(callable_method, func)\n\n\ndef callable_method", "            yield key, partial(event_method, func)\n\n\ndef callable_method"))
M("c07-extra-raise-too-many-positional", "C07", ["C07.raise"],
  E(SIG, """                except StopIteration:
                    # raise TypeError('too many positional arguments') from None
                    break""", """                except StopIteration:
                    raise TypeError('too many positional arguments') from None"""))
M("c07-varkw-in-positional-phase-dropped", "C07", ["C07.consume"],
  E(SIG, """                    if param.kind == Parameter.VAR_KEYWORD:
                        # Memorize that we have a '**kwargs'-like parameter
                        kwargs_param = param
                        break

                    if param.kind == Parameter.KEYWORD_ONLY:""", """                    if param.kind == Parameter.VAR_KEYWORD:
                        break

                    if param.kind == Parameter.KEYWORD_ONLY:"""))
M("c07-keyword-phase-skips-kwonly", "C07", ["C07.consume"],
  E(SIG, """            if param.kind == Parameter.VAR_POSITIONAL:
                # Named arguments don't refer to '*args'-like parameters.""", """            if param.kind in (Parameter.VAR_POSITIONAL, Parameter.KEYWORD_ONLY):
                # Named arguments don't refer to '*args'-like parameters."""))

# ----------------------------------------------------------------------------------------- C08
M("c08-gt-applies-ge", "C08", ["C08.optable"],
  E(SP, "    ast.Gt: build_custom_operator(operator.gt),", "    ast.Gt: build_custom_operator(operator.ge),"))
M("c08-and-built-by-or", "C08", ["C08.optable"],
  E(SP, "    ast.And: custom_and,", "    ast.And: custom_or,"))
M("c08-regex-no-lookahead", "C08", ["C08.regex"],
  E(SP, r"""|\!(?!=)|\^|\bv\b""" + '""")', r"""|\!|\^|\bv\b""" + '""")'))
M("c08-regex-no-word-boundary", "C08", ["C08.regex"],
  E(SP, r"""|\!(?!=)|\^|\bv\b""" + '""")', r"""|\!(?!=)|\^|v""" + '""")'))
M("c08-replacement-unpadded", "C08", ["C08.regex"],
  E(SP, 'replacements = {"!": "not ", "^": " and ", "v": " or "}', 'replacements = {"!": "not ", "^": "and", "v": " or "}'))
M("c08-replacement-swapped", "C08", ["C08.regex"],
  E(SP, 'replacements = {"!": "not ", "^": " and ", "v": " or "}', 'replacements = {"!": "not ", "^": " or ", "v": " and "}'))
M("c08-and-eager", "C08", ["C08.optable"],
  E(SP, "        return left(*args, **kwargs) and right(*args, **kwargs)  # type: ignore[no-any-return]",
    "        lv, rv = left(*args, **kwargs), right(*args, **kwargs)\n        return lv and rv"))
M("c08-or-right-first", "C08", ["C08.optable"],
  E(SP, "        return left(*args, **kwargs) or right(*args, **kwargs)  # type: ignore[no-any-return]",
    "        return right(*args, **kwargs) or left(*args, **kwargs)"))
M("c08-attr-read-at-build-time", "C08", ["C08.fresh"],
  E(DISP, """    getter = attrgetter(attribute)

    def method(*args, **kwargs):
        return getter(obj)
""", """    value = attrgetter(attribute)(obj)

    def method(*args, **kwargs):
        return value
"""))
M("c08-f7-reintroduced", "C08", ["C08.fast"],
  E(SP, "    if expr.isidentifier() and not iskeyword(expr):", '    if "!" not in expr and " " not in expr:'), note="F7")
M("c08-shortcut-takes-keywords", "C08", ["C08.fast"],
  E(SP, "    if expr.isidentifier() and not iskeyword(expr):", "    if expr.isidentifier():"))
M("c08-boolop-fold-reversed-args", "C08", ["C08.build"],
  E(SP, "            left_expr = operator_fn(left_expr, right_expr)", "            left_expr = operator_fn(right_expr, left_expr)"))
M("c08-compare-chain-keeps-first-left", "C08", ["C08.build"],
  E(SP, "            left_expr = right_expr\n", ""), note="`a < b < c` becomes (a<b) and (a<c)")
M("c08-compare-joined-by-or", "C08", ["C08.build"],
  E(SP, "        return reduce(custom_and, expressions)", "        return reduce(custom_or, expressions)"))
M("c08-syntaxerror-not-converted", "C08", ["C08.when"],
  E(DISP, """        try:
            expression = parse_boolean_expr(spec.func, take_callback_partial, operator_mapping)
        except (SyntaxError, UnsupportedExpression) as err:
            raise InvalidDefinition(
                _("Failed to parse boolean expression '{}'").format(spec.func)
            ) from err
""", """        expression = parse_boolean_expr(spec.func, take_callback_partial, operator_mapping)
"""))
M("c08-missing-names-still-registered", "C08", ["C08.when"],
  E(DISP, """        if not expression or names_not_found:
            spec.names_not_found = names_not_found
            return
""", """        if not expression:
            spec.names_not_found = names_not_found
            return
"""), note="unknown names silently become always-true")
M("c08-comparator-args-swapped", "C08", ["C08.optable"],
  E(SP, "            return bool(operator(left(*args, **kwargs), right(*args, **kwargs)))", "            return bool(operator(right(*args, **kwargs), left(*args, **kwargs)))"))
M("c08-not-returns-operand", "C08", ["C08.optable"],
  E(SP, "        return not predicate(*args, **kwargs)", "        return predicate(*args, **kwargs) is False"))

# ----------------------------------------------------------------------------------------- C10
M("c10-f1-reintroduced", "C10", ["C10.falsy"],
  E(SM, "        self.model = model if model is not None else Model()", "        self.model = model if model else Model()"), note="F1")
M("c10-f2-reintroduced", ["C10", "C11"], ["C10.falsy", "C11.target"],
  E(SM, """        initial_state_value = (
            self.start_value if self.start_value is not None else self.initial_state.value
        )""", """        initial_state_value = self.start_value if self.start_value else self.initial_state.value"""), note="F2")
M("c10-model-or-default", "C10", ["C10.falsy"],
  E(SM, "        self.model = model if model is not None else Model()", "        self.model = model or Model()"))
M("c10-is-active-compares-names", "C10", ["C10.active"],
  E(ST, "        return self._machine().current_state == self", "        return self._machine().current_state.name == self.name"),
  note="properties.jsonl: verified to pass all 348 tests")
M("c10-membership-after-setattr", "C10", ["C10.access"],
  E(SM, """        if value not in self.states_map:
            raise InvalidStateValue(value)
        setattr(self.model, self.state_field, value)""", """        setattr(self.model, self.state_field, value)
        if value not in self.states_map:
            raise InvalidStateValue(value)"""))
M("c10-cached-current-state", "C10", ["C10.noshadow", "C10.access"],
  E(SM, """        if value not in self.states_map:
            raise InvalidStateValue(value)
        setattr(self.model, self.state_field, value)""", """        if value not in self.states_map:
            raise InvalidStateValue(value)
        self._current = value
        setattr(self.model, self.state_field, value)"""),
  E(SM, """        return getattr(self.model, self.state_field, None)""", """        cached = getattr(self, "_current", None)
        return cached if cached is not None else getattr(self.model, self.state_field, None)"""))
M("c10-setter-stores-state-id", "C10", ["C10.access", "C01.write"],
  E(SM, "        self.current_state_value = value.value", "        self.current_state_value = value.id"))
M("c10-start-guard-truthiness", ["C10", "C11"], ["C10.falsy", "C11.guard"],
  E(BASE, "        if self.sm.current_state_value is not None:\n            return", "        if self.sm.current_state_value:\n            return"),
  note="a stored state value 0 is re-initialised")
M("c10-getter-default-initial", "C10", ["C10.access"],
  E(SM, "        return getattr(self.model, self.state_field, None)", "        return getattr(self.model, self.state_field, None) or self.start_value"))
M("c10-state-eq-by-name-only", "C10", ["C10.active"],
  E(ST, "        return isinstance(other, State) and self.name == other.name and self.id == other.id",
    "        return isinstance(other, State) and self.name == other.name"), note="two states may share a display name")

B("b-model-none-test-rewritten", ["C10"],
  E(SM, "        self.model = model if model is not None else Model()", "        if model is None:\n            model = Model()\n        self.model = model"))

# ----------------------------------------------------------------------------------------- C11
M("c11-start-value-overrides-stored", "C11", ["C11.guard"],
  E(BASE, "        if self.sm.current_state_value is not None:\n            return",
    "        if self.sm.current_state_value is not None and self.sm.start_value is None:\n            return"),
  note="properties.jsonl: verified to pass all 348 tests")
M("c11-start-from-activate-initial-state", "C11", ["C11.who"],
  E(SYNC, """        return self.processing_loop()

    def processing_loop""", """        BaseEngine.start(self)
        return self.processing_loop()

    def processing_loop"""), note="re-activation re-enters the initial state when the model was reset")
M("c11-always-enqueue", "C11", ["C11.guard"],
  E(BASE, "        if self.sm.current_state_value is not None:\n            return\n\n", ""))
M("c11-initial-trigger-elsewhere", "C11", ["C11.who"],
  E(SM, """    def _put_nonblocking(self, trigger_data: TriggerData):
        \"\"\"Put the trigger on the queue without blocking the caller.\"\"\"
""", """    def reset(self):
        self._engine.put(TriggerData(machine=self, event=BoundEvent("__initial__", _sm=self)))

    def _put_nonblocking(self, trigger_data: TriggerData):
        \"\"\"Put the trigger on the queue without blocking the caller.\"\"\"
"""))
M("c11-get-initial-ignores-start-value", "C11", ["C11.target"],
  E(SM, """        initial_state_value = (
            self.start_value if self.start_value is not None else self.initial_state.value
        )""", """        initial_state_value = self.initial_state.value"""))
M("c11-sync-start-no-drain", "C11", ["C11.who"],
  E(SYNC, """        super().start()
        self.activate_initial_state()""", """        super().start()"""))

# ----------------------------------------------------------------------------------------- C13
M("c13-f4-reintroduced", "C13", ["C13.send"],
  E(SM, """        if event in self.__class__._events:
            event_instance: BoundEvent = getattr(self, event)
        else:
            # Unknown event names must never resolve to arbitrary attributes of the machine.
            event_instance = BoundEvent(id=event, name=event, _sm=self)
""", """        event_instance: BoundEvent = getattr(
            self, event, BoundEvent(id=event, name=event, _sm=self)
        )
"""), note="F4")
M("c13-allowed-events-from-all-states", "C13", ["C13.lists"],
  E(SM, "        return [getattr(self, event) for event in self.current_state.transitions.unique_events]",
    "        return [getattr(self, event) for state in self.states for event in state.transitions.unique_events]"))
M("c13-allowed-events-sorted", "C13", ["C13.lists"],
  E(SM, "        return [getattr(self, event) for event in self.current_state.transitions.unique_events]",
    "        return [getattr(self, event) for event in sorted(self.current_state.transitions.unique_events)]"))
M("c13-unique-events-set", "C13", ["C13.lists"],
  E(TL, "        return list(tmp_ordered_unique_events_as_keys_on_dict.keys())", "        return list(set(tmp_ordered_unique_events_as_keys_on_dict.keys()))"))
M("c13-get-binds-to-owner", "C13", ["C13.bind"],
  E(EV, "        return BoundEvent(id=self.id, name=self.name, _sm=instance)", "        return BoundEvent(id=self.id, name=self.name, _sm=self._sm or instance)"))
M("c13-second-enqueue-site", ["C13"], ["C13.single"],
  E(SM, """        result = event_instance(*args, **kwargs)""", """        if kwargs.pop("_twice", False):
            self._engine.put(TriggerData(machine=self, event=event_instance, args=args, kwargs=kwargs))
        result = event_instance(*args, **kwargs)"""))
M("c13-bind-overwrites-existing", "C13", ["C13.bind"],
  E(SM, """                if hasattr(target, event):
                    warnings.warn(
                        f"Attribute '{event}' already exists on {target!r}. Skipping binding.",
                        UserWarning,
                        stacklevel=2,
                    )
                    continue
""", ""))
M("c13-send-bound-to-other-name", "C13", ["C13.send"],
  E(SM, "            event_instance = BoundEvent(id=event, name=event, _sm=self)", "            event_instance = BoundEvent(id=event.strip().lower(), name=event, _sm=self)"))

# ----------------------------------------------------------------------------------------- C09
M("c09-visit-follows-source", "C09", ["C09.visit"],
  E(GR, "        visit.extend(t.target for t in state.transitions)",
    "        visit.extend(t.target for t in state.transitions)\n        visit.extend(t.source for t in start.transitions if t.target is state)"),
  E(GR, "def visit_connected_states(state):\n    visit = deque()", "def visit_connected_states(state):\n    start = state\n    visit = deque()"),
  note="variant of 'reachability that ignores direction'")
M("c09-final-check-ignores-self-loops", "C09", ["C09.pred"],
  E(FAC, "            state for state in cls.final_states if state.transitions",
    "            state for state in cls.final_states if [t for t in state.transitions if t.target is not state]"),
  note="properties.jsonl: verified to pass all 348 tests")
M("c09-skip-disconnected-check", "C09", ["C09.calls"],
  E(FAC, "        cls._check_disconnected_state()\n", ""))
M("c09-trap-raises-without-strict", "C09", ["C09.pred"],
  E(FAC, """            if cls._strict_states:
                raise InvalidDefinition(message)
            else:
                warnings.warn(message, UserWarning, stacklevel=4)""", """            raise InvalidDefinition(message)"""))
M("c09-reach-final-warns-under-strict", "C09", ["C09.pred"],
  E(FAC, """            if cls._strict_states:
                raise InvalidDefinition(message)
            else:
                warnings.warn(message, UserWarning, stacklevel=1)""", """            warnings.warn(message, UserWarning, stacklevel=1)"""))
M("c09-any-includes-final", ["C09", "C15"], ["C09.any", "C15.any"],
  E(ST, """            if state.final:
                continue
            new_transition""", """            new_transition"""))
M("c09-initial-at-least-one", "C09", ["C09.pred"],
  E(FAC, "        if len(initials) != 1:", "        if len(initials) < 1:"))
M("c09-trap-includes-final", "C09", ["C09.pred"],
  E(FAC, "        trap_states = [s for s in cls.states if not s.final and not s.transitions]", "        trap_states = [s for s in cls.states if not s.transitions]"))
M("c09-internal-check-after-registration", "C09", ["C09.internal"],
  E(TR, """        if internal and source is not target:
            raise InvalidDefinition("Internal transitions should be self-transitions.")

""", ""),
  E(TR, """            .add(unless, priority=CallbackPriority.INLINE, expected_value=False)
        )
""", """            .add(unless, priority=CallbackPriority.INLINE, expected_value=False)
        )
        if internal and source is not target:
            raise InvalidDefinition("Internal transitions should be self-transitions.")
"""), note="harmless by itself but the rule states 'before any registration'; kept as a strictness probe")
M("c09-internal-not-checked", "C09", ["C09.internal"],
  E(TR, """        if internal and source is not target:
            raise InvalidDefinition("Internal transitions should be self-transitions.")

""", ""))
M("c09-abstract-if-no-events", "C09", ["C09.calls"],
  E(FAC, "        cls._abstract = not has_states and not has_events", "        cls._abstract = not has_states or not has_events"))
M("c09-visit-yields-before-visited-test", "C09", ["C09.visit"],
  E(GR, """        if state in already_visited:
            continue
        already_visited.add(state)
        yield state""", """        yield state
        if state in already_visited:
            continue
        already_visited.add(state)"""))
M("c09-visit-only-first-target", "C09", ["C09.visit"],
  E(GR, "        visit.extend(t.target for t in state.transitions)", "        visit.extend(t.target for t in state.transitions[:1])"))
B("b-reach-final-predicate-without-final-test", ["C09"],
  E(FAC, "            if not state.final and not any(s.final for s in visit_connected_states(state))",
    "            if not any(s.final for s in visit_connected_states(state))"), note="a final state reaches itself, so dropping `not state.final` selects the same states")

B("b-trap-predicate-rewritten", ["C09"],
  E(FAC, "        trap_states = [s for s in cls.states if not s.final and not s.transitions]",
    "        trap_states = [s for s in cls.states if not (s.final or len(s.transitions) > 0)]"))
B("b-initial-count-rewritten", ["C09"],
  E(FAC, "        if len(initials) != 1:", "        if not len(initials) == 1:"))

# ----------------------------------------------------------------------------------------- C12
M("c12-search-name-first-provider-only", "C12", ["C12.allproviders"],
  E(DISP, """            yield key, partial(callable_method, func)


def callable_method""", """            yield key, partial(callable_method, func)
            return


def callable_method"""))
M("c12-guard-multi-provider-any", "C12", ["C12.allproviders"],
  E(DISP, "            return reduce(custom_and, callbacks)", "            return reduce(custom_or, callbacks)"),
  E(DISP, "from .spec_parser import custom_and\n", "from .spec_parser import custom_and\nfrom .spec_parser import custom_or\n"))
M("c12-key-without-provider-id", "C12", ["C12.dedup"],
  E(DISP, "            return cls(obj, all_attrs, str(id(obj)))", "            return cls(obj, all_attrs, type(obj).__name__)"),
  note="two listeners of the same class: the second one's callbacks are dropped as duplicates")
M("c12-class-level-registry", ["C12", "C16"], ["C12.own", "C16.fresh"],
  E(SM, "        self._callbacks = CallbacksRegistry()\n        self._states_for_instance: Dict[State, State] = {}\n\n        self._listeners: Dict[Any, Any] = {}\n        \"\"\"Listeners",
    "        self._states_for_instance: Dict[State, State] = {}\n\n        self._listeners: Dict[Any, Any] = {}\n        \"\"\"Listeners"),
  E(SM, """    TransitionNotAllowed = TransitionNotAllowed
""", """    TransitionNotAllowed = TransitionNotAllowed
    _callbacks = CallbacksRegistry()
"""))
M("c12-executor-no-seen-check", ["C12", "C02"], ["C12.dedup", "C02.once"],
  E(CB, """        if seen_key in self.items_already_seen:
            return

""", ""))
M("c12-late-listener-all-references", "C12", ["C12.same-path"],
  E(SM, "            allowed_references=SPECS_SAFE,", "            allowed_references=SPECS_ALL,"))
M("c12-model-not-a-provider", "C12", ["C12.same-path"],
  E(SM, "                    Listener.from_obj(self.model, skip_attrs={self.state_field}),\n", ""))
M("c12-listeners-only-on-transitions", "C12", ["C12.same-path"],
  E(GR, "        yield state\n        yield from state.transitions", "        yield from state.transitions"))
M("c12-setstate-f15-reintroduced", ["C12", "C17"], ["C12.engine", "C17.steps"],
  E(SM, """        # listeners attached after `_register_callbacks` decided between sync and async
        self._callbacks.async_or_sync()
""", ""), note="F15")
M("c12-resolve-stops-after-first-builder", "C12", ["C12.allproviders"],
  E(DISP, """            for key, builder in self.build(spec):
                executor.add(key, spec, builder)
""", """            for key, builder in self.build(spec):
                executor.add(key, spec, builder)
                break
"""))

M("c18-f34-reintroduced", ["C18"], ["C18.initial"],
  E(DIA, '    initial_node_id = ".initial"', '    initial_node_id = "i"'))
M("c02-f35-reintroduced", ["C02", "C12"], ["C02.once", "C12.same-path"],
  E(CB, """        # a snapshot: a callback may attach a listener (`add_listener`), which adds to `items`
        return iter(tuple(self.items))""", """        return iter(self.items)"""))
M("c16-f36-reintroduced", ["C16"], ["C16.defwrite"],
  E(ST, """        # every transition is built (and validated) before any of them is attached to its origin
        transitions = TransitionList(Transition(origin, self._state, **kwargs) for origin in states)
        for transition in transitions:
            transition.source.transitions.add_transitions(transition)
        return transitions
""", """        transitions = TransitionList()
        for origin in states:
            transition = Transition(origin, self._state, **kwargs)
            origin.transitions.add_transitions(transition)
            transitions.add_transitions(transition)
        return transitions
"""))
M("c08-f33-reintroduced", ["C08"], ["C08.when"],
  E(DISP, "        except (SyntaxError, UnsupportedExpression) as err:", "        except SyntaxError as err:"))
M("c08-compare-lookup-unguarded", ["C08"], ["C08.when"],
  E(SP, """            operator_fn = operator_mapping.get(type(right_op))
            if operator_fn is None:
                raise UnsupportedExpression(
                    f"Unsupported expression structure: {right_op.__class__.__name__}"
                )
""", """            operator_fn = operator_mapping[type(right_op)]
"""))
M("c08-f31-reintroduced", ["C08"], ["C08.identity"],
  E(SP, "    decorated.unique_key = repr(constant)  # type: ignore[attr-defined]", "    decorated.unique_key = str(constant)  # type: ignore[attr-defined]"))
M("c07-f32-reintroduced", ["C07", "C16"], ["C07.cachekey", "C16.cachekey"],
  E(SIG, """    if isinstance(method, partial):
        # the signature of a partial also depends on the arguments it already binds
        bound = (len(method.args), tuple(sorted(method.keywords)))
        return hash((_make_key(method.func), bound))
""", """    method = method.func if isinstance(method, partial) else method
"""))
M("c07-f39-reintroduced", ["C07", "C16"], ["C07.cachekey", "C16.cachekey"],
  E(SIG, """        if hasattr(method, "__signature__"):
            # an explicit signature belongs to this very object: callables that share name and
            # code (closures of one factory) may each declare their own
            return user_function(cls, method)
""", ""))
M("c10-f40-reintroduced", ["C10", "C11"], ["C10.access", "C11.target"],
  E("statemachine/factory.py", """        if other is not None and other is not state:
            raise InvalidDefinition(
                _("States '{}' and '{}' have the same value {!r}.").format(
                    other.id, state.id, state.value
                )
            )
""", ""))
M("c04-f41-reintroduced", ["C04", "C01", "C14"], ["C04.clear", "C01.reject", "C14.first"],
  E("statemachine/engines/sync.py", "                    except BaseException:", "                    except Exception:"))
M("c04-f41-reintroduced-async", ["C04", "C01", "C14"], ["C04.clear", "C01.reject", "C14.first"],
  E("statemachine/engines/async_.py", "                    except BaseException:", "                    except Exception:"))
M("c01-remove-while-walking", ["C01", "C15"], ["C01.liveiter", "C15.liveiter"],
  E(TL, """        for transition in self.transitions:
            transition.add_event(event)
""", """        for transition in self.transitions:
            if transition.internal and not event:
                self.transitions.remove(transition)
            transition.add_event(event)
"""))
M("c07-partial-key-ignores-keywords", ["C07", "C16"], ["C07.cachekey", "C16.cachekey"],
  E(SIG, "        bound = (len(method.args), tuple(sorted(method.keywords)))", "        bound = len(method.args)"))
M("c17-event-deepcopy-returns-self", ["C17", "C13"], ["C17.carry", "C13.bind"],
  E(EV, """    def is_same_event(self,""", """    def __deepcopy__(self, memo):
        return self

    def is_same_event(self,"""))
M("c15-ior-in-place", ["C15"], ["C15.or"],
  E(TL, """    def __or__(self,""", """    def __ior__(self, other):
        return self.add_transitions(other)

    def __or__(self,"""))
M("c18-node-builder-lru-cache", ["C18", "C16"], ["C18.highlight", "C16.inventory"],
  E(DIA, """    def _state_as_node(self, state):""", """    @functools.lru_cache(maxsize=None)
    def _state_as_node(self, state):"""),
  E(DIA, "import importlib\n", "import functools\nimport importlib\n"))
M("c10-states-map-id-alias", ["C10"], ["C10.access"],
  E(FAC, """        cls.states_map[state.value] = state
""", """        cls.states_map[state.value] = state
        cls.states_map.setdefault(state.id, state)
"""))
M("c03-put-override-filters", ["C03", "C01"], ["C03.put", "C01.none"],
  E(SYNC, """    def activate_initial_state(self):""", """    def put(self, trigger_data):
        if self.sm.allow_event_without_transition and not self.sm.current_state.transitions.match(trigger_data.event):
            return
        super().put(trigger_data)

    def activate_initial_state(self):"""))
B("b-put-override-delegates", ["C03", "C01", "C06"],
  E(SYNC, """    def activate_initial_state(self):""", """    def put(self, trigger_data):
        \"\"\"Queue the trigger (see BaseEngine.put).\"\"\"
        return super().put(trigger_data)

    def activate_initial_state(self):"""))
M("c07-f23-reintroduced", ["C07", "C16"], ["C07.cachekey", "C16.cachekey"],
  E("statemachine/signature.py", """                method.__code__,
                wrapped_code,
            )""", """                method.__code__,
            )"""),
  E("statemachine/signature.py", "        return hash((method.__qualname__, method.__code__, wrapped_code))", "        return hash((method.__qualname__, method.__code__))"),
  note="F23: key built from the outer (decorator) code object only")
M("c07-key-is-code-of-outer-object-only", ["C07", "C16"], ["C07.cachekey", "C16.cachekey"],
  E("statemachine/signature.py", "        return hash((method.__qualname__, method.__code__, wrapped_code))", "        return hash(method.__code__)"),
  note="seeded s07-3 re-expressed on the repaired tree")

M("c15-f25-reintroduced", ["C15", "C08", "C01"], ["C15.any", "C08.conj", "C01.expected"],
  E("statemachine/transition.py", "from copy import copy\n", "from copy import deepcopy\n"),
  E("statemachine/transition.py", "            new_spec = copy(spec)\n", "            new_spec = deepcopy(spec)\n"),
  note="F25: bound-method guards of from_.any() evaluated on a clone")

M("c11-f26-reintroduced", "C11", ["C11.who"],
  E("statemachine/engines/sync.py", "        if trigger_data is self._initial_trigger:", '        if trigger_data.event == "__initial__":'),
  note="F26: send('__initial__') re-enters the initial state")
M("c11-start-forgets-its-trigger", "C11", ["C11.who"],
  E("statemachine/engines/base.py", "        self._initial_trigger = trigger_data\n", ""))

M("c08-f27-reintroduced", "C08", ["C08.regex"],
  E("statemachine/spec_parser.py", 'pattern = re.compile(r"""("(?:[^"\\\\]|\\\\.)*"|\'(?:[^\'\\\\]|\\\\.)*\')|\\!(?!=)|\\^|\\bv\\b""")', 'pattern = re.compile(r"\\!(?!=)|\\^|\\bv\\b")'),
  E("statemachine/spec_parser.py", '        if match.group(1) is not None:\n            return match.group(0)  # a string literal: unchanged\n', ""),
  note="F27: operators rewritten inside string literals")
M("c08-literal-match-replaced-like-an-operator", "C08", ["C08.regex"],
  E("statemachine/spec_parser.py", '        if match.group(1) is not None:\n            return match.group(0)  # a string literal: unchanged\n', ""),
  note="a matched string literal is looked up in the replacement table")

# ----------------------------------------------------------------------------------------- C17
M("c17-clone-resets-allow-event", "C17", ["C17.carry"],
  E(SM, """        self.__dict__.update(state)
        self._callbacks = CallbacksRegistry()""", """        self.__dict__.update(state)
        self.allow_event_without_transition = False
        self._callbacks = CallbacksRegistry()"""), note="properties.jsonl: verified to pass all 348 tests")
M("c17-getstate-drops-start-value", "C17", ["C17.excluded", "C17.carry"],
  E(SM, """        del state["_engine"]
        return state""", """        del state["_engine"]
        del state["start_value"]
        return state"""))
M("c17-f12-reintroduced", "C17", ["C17.steps"],
  E(SM, """        self._engine = self._get_engine(rtc)
        if not activated:
            self._engine.start()

    def _get_initial_state""", """        self._engine = self._get_engine(rtc)

    def _get_initial_state"""), note="F12")
M("c17-f24-reintroduced", ["C17", "C05"], ["C17.steps", "C05.start"],
  E(SM, """        self._engine = self._get_engine(rtc)
        if not activated:
            self._engine.start()

    def _get_initial_state""", """        self._engine = self._get_engine(rtc)
        self._engine.start()

    def _get_initial_state"""), note="F24: unconditional start() on restore re-enters the initial state of a clone whose model is still empty")
M("c17-restore-start-polarity-inverted", "C17", ["C17.steps"],
  E(SM, "        if not activated:\n            self._engine.start()", "        if activated:\n            self._engine.start()"))
M("c17-activated-flag-by-truthiness", "C17", ["C17.steps"],
  E(SM, '        state["_activated"] = self.current_state_value is not None', '        state["_activated"] = bool(self.current_state_value)'))
M("c17-rtc-not-restored", "C17", ["C17.carry"],
  E(SM, "        self._engine = self._get_engine(rtc)\n        if not activated:", "        self._engine = self._get_engine(True)\n        if not activated:"))
M("c17-shared-registry-with-original", "C17", ["C17.excluded", "C17.carry"],
  E(SM, """        del state["_callbacks"]
""", ""),
  E(SM, """        self.__dict__.update(state)
        self._callbacks = CallbacksRegistry()""", """        self.__dict__.update(state)"""))
M("c17-listeners-not-reattached", "C17", ["C17.carry", "C17.steps", "C17.attach"],
  E(SM, """        self._register_callbacks([o for o, attached in listeners.items() if not attached])
        for attach_pass in sorted({attached for attached in listeners.values() if attached}):
            self.add_listener(*(o for o, attached in listeners.items() if attached == attach_pass))
""", "        self._register_callbacks([])\n"))
M("c17-f16-f22-reintroduced", "C17", ["C17.attach", "C17.steps"],
  E(SM, """        self._register_callbacks([o for o, attached in listeners.items() if not attached])
        for attach_pass in sorted({attached for attached in listeners.values() if attached}):
            self.add_listener(*(o for o, attached in listeners.items() if attached == attach_pass))
""", """        self._register_callbacks([])
        self.add_listener(*listeners.keys())
"""), note="F16 + F22: every saved listener re-attached in a late pass, after validation")
M("c17-restore-single-joint-pass", "C17", ["C17.attach"],
  E(SM, """        self._register_callbacks([o for o, attached in listeners.items() if not attached])
        for attach_pass in sorted({attached for attached in listeners.values() if attached}):
            self.add_listener(*(o for o, attached in listeners.items() if attached == attach_pass))
""", """        self._register_callbacks(list(listeners))
"""), note="the seeded change s17-1 rebased on the repaired tree: late listeners folded into the constructor pass")
M("c17-late-listeners-marked-like-constructor-ones", "C17", ["C17.attach"],
  E(SM, "        attach_pass = max(self._listeners.values(), default=0) + 1\n", "        attach_pass = 0\n"))
M("c17-late-passes-replayed-before-constructor-pass", "C17", ["C17.attach", "C17.steps"],
  E(SM, """        self._register_callbacks([o for o, attached in listeners.items() if not attached])
        for attach_pass in sorted({attached for attached in listeners.values() if attached}):
            self.add_listener(*(o for o, attached in listeners.items() if attached == attach_pass))
""", """        for attach_pass in sorted({attached for attached in listeners.values() if attached}):
            self.add_listener(*(o for o, attached in listeners.items() if attached == attach_pass))
        self._register_callbacks([o for o, attached in listeners.items() if not attached])
"""))
M("c17-getstate-no-copy", "C17", ["C17.carry"],
  E(SM, "        state = self.__dict__.copy()", "        state = self.__dict__"), note="serialising mutates the live machine (deletes its engine)")

# ----------------------------------------------------------------------------------------- C15
M("c15-from-swaps-second-origin", "C15", ["C15.to/from"],
  E(ST, """        transitions = TransitionList(Transition(origin, self._state, **kwargs) for origin in states)""",
    """        transitions = TransitionList(
            Transition(origin, self._state, **kwargs) if index == 0 else Transition(self._state, origin, **kwargs)
            for index, origin in enumerate(states)
        )"""))
M("c15-or-rebuilds-right-operand", "C15", ["C15.or"],
  E(TL, "        return TransitionList(self.transitions).add_transitions(other)",
    "        return TransitionList(self.transitions).add_transitions(\n            [Transition(t.source, t.target, event=t.event) for t in other]\n        )"),
  note="callbacks/guards of the right operand are dropped")
M("c15-events-no-split", "C15", ["C15.events"],
  E(EVS, "            for event in events.split(\" \"):", "            for event in [events]:"))
M("c15-enum-initial-by-first-member", "C15", ["C15.enum"],
  E(STS, "                    initial=e is initial,", "                    initial=e is list(enum_type)[0],"))
M("c15-enum-final-ignored-when-single", "C15", ["C15.enum"],
  E(STS, "        final_set = set(ensure_iterable(final))", "        final_set = set(final) if isinstance(final, (list, tuple, set)) else set()"))
M("c15-to-registers-on-target", "C15", ["C15.to/from"],
  E(ST, """        transitions = TransitionList(Transition(self._state, state, **kwargs) for state in states)
        self._state.transitions.add_transitions(transitions)""", """        transitions = TransitionList(Transition(self._state, state, **kwargs) for state in states)
        for t in transitions:
            t.target.transitions.add_transitions(t)"""))
M("c15-itself-not-self", "C15", ["C15.to/from"],
  E(ST, "        return self.__call__(self._state, **kwargs)", "        return self.__call__(**kwargs)"))
M("c15-transitionlist-shares-list", "C15", ["C15.or"],
  E(TL, "        self.transitions: List[Transition] = list(transitions) if transitions else []", "        self.transitions: List[Transition] = transitions if transitions else []"),
  note="`a | b` would append b's transitions to a's own list (and State.transitions when a is one)")
M("c15-events-dedup-dropped", "C15", ["C15.events"],
  E(EVS, """                if event in self._items:
                    continue
""", ""))

# ----------------------------------------------------------------------------------------- C16
M("c16-module-level-memo-written", "C16", ["C16.inventory"],
  E(SIG, "def _make_key(method):", "_seen_signatures = {}\n\n\ndef _make_key(method):"),
  E(SIG, "        arguments = {}\n", "        arguments = {}\n        _seen_signatures[id(self)] = self\n"))
M("c16-class-level-listeners", ["C16", "C12"], ["C16.fresh", "C12.own", "C16.inventory"],
  E(SM, "        self._listeners: Dict[Any, Any] = {}\n        \"\"\"Listeners that provides attributes to be used as callbacks.\"\"\"\n", ""),
  E(SM, """    TransitionNotAllowed = TransitionNotAllowed
""", """    TransitionNotAllowed = TransitionNotAllowed
    _listeners: Dict[Any, Any] = {}
"""))
M("c16-metaclass-shares-events-dict", "C16", ["C16.fresh"],
  E(FAC, "        cls._events: Dict[Event, None] = {}  # used Dict to preserve order and avoid duplicates",
    "        cls._events: Dict[Event, None] = getattr(cls, \"_events\", None) or {}"))
M("c16-instance-writes-definition", "C16", ["C16.defwrite"],
  E(SM, """        self._engine = self._get_engine(rtc)
        self._engine.start()

    def _get_engine""", """        self._engine = self._get_engine(rtc)
        self._engine.start()
        for state in self.states:
            state.transitions.transitions.sort(key=lambda t: t.event)

    def _get_engine"""))
M("c16-mutable-default-argument", "C16", ["C16.fresh"],
  E(CB, "    def __init__(self, factory=CallbackSpec):\n        self.items: List[CallbackSpec] = []", "    def __init__(self, factory=CallbackSpec, items=[]):\n        self.items: List[CallbackSpec] = items"))
M("c16-constant-table-written", "C16", ["C16.inventory"],
  E(SP, "    return pattern.sub(match_func, expr)", "    replacements.setdefault(\"&\", \" and \")\n    return pattern.sub(match_func, expr)"))

# ----------------------------------------------------------------------------------------- C18
M("c18-edge-reversed", "C18", ["C18.edge"],
  E(DIA, "            transition.source.id,\n            transition.target.id,", "            transition.target.id,\n            transition.source.id,"),
  note="properties.jsonl: verified to pass all 348 tests")
M("c18-highlight-initial", "C18", ["C18.highlight"],
  E(DIA, "        if state == self.machine.current_state:", "        if state == self.machine.initial_state:"),
  note="properties.jsonl: verified to pass all 348 tests")
M("c18-internal-drawn-as-edge", "C18", ["C18.edges"],
  E(DIA, """                if transition.internal:
                    continue
""", ""))
M("c18-final-states-skipped", "C18", ["C18.nodes"],
  E(DIA, "            graph.add_node(self._state_as_node(state))", "            if not state.final:\n                graph.add_node(self._state_as_node(state))"))
M("c18-peripheries-always-one", "C18", ["C18.node"],
  E(DIA, "            peripheries=2 if state.final else 1,", "            peripheries=1,"))
M("c18-initial-edge-to-first-state", "C18", ["C18.initial"],
  E(DIA, "            self.machine.initial_state.id,", "            list(self.machine.states)[0].id,"))
M("c18-only-first-transition-drawn", "C18", ["C18.edges"],
  E(DIA, "            for transition in state.transitions:\n                if transition.internal:", "            for transition in state.transitions[:1]:\n                if transition.internal:"))
M("c18-label-without-guards", "C18", ["C18.edge"],
  E(DIA, "            label=f\"{transition.event}{cond}\",", "            label=f\"{transition.event}\","))
M("c18-node-named-by-name", "C18", ["C18.node"],
  E(DIA, "            state.id,\n            label=f\"{state.name}{actions}\",", "            state.name,\n            label=f\"{state.name}{actions}\","))

# ----------------------------------------------------------------------------------------- support functions
M("c02-executor-key-without-list-id", ["C02"], ["C02.keys"],
  E(CB, '        return f"{self.name}@{id(specs)}"', '        return f"{self.name}"'),
  note="every transition shares one executor per group: callbacks of other transitions run too")
M("c02-spec-eq-ignores-group", ["C02"], ["C02.once"],
  E(CB, "            and self.group == other.group\n", ""),
  note="a name used for both `before` and `on` of one transition is registered once only")
M("c02-instancestate-exit-returns-enter", ["C02"], ["C02.keys"],
  E(ST, """    def exit(self):
        return self._state().exit""", """    def exit(self):
        return self._state().enter"""))
M("c12-resolve-skips-all-conventions", ["C12"], ["C12.allproviders"],
  E(DISP, "                spec.is_convention and spec.func not in found_convention_specs", "                spec.is_convention or spec.func not in found_convention_specs"))
M("c12-found-conventions-from-first-listener", ["C12"], ["C12.allproviders"],
  E(DISP, "        found_convention_specs = specs.conventional_specs & self.all_attrs", "        found_convention_specs = specs.conventional_specs & self.items[0].all_attrs"))

# ----------------------------------------------------------------------------------------- F17 / F18 (found via a sub-agent's side remark)
M("c08-f17-reintroduced-eq", ["C08"], ["C08.identity"],
  E(CB, """        return (
            self.func == other.func
            and self.group == other.group
            and self.expected_value == other.expected_value
        )""", """        return self.func == other.func and self.group == other.group"""), note="F17 (first site)")
M("c08-f17-reintroduced-seen-key", ["C08"], ["C08.identity"],
  E(CB, "        seen_key = (key, spec.expected_value)", "        seen_key = key"), note="F17 (second site)")
M("c08-f18-reintroduced", ["C08"], ["C08.identity"],
  E(SP, '    return f"({left_key} {operator} {right_key})"', '    return f"{left_key} {operator} {right_key}"'), note="F18")

M("c03-f19-reintroduced", ["C03", "C11"], ["C03.nonrtc", "C11.who"],
  E(SYNC, """            if not self._external_queue:
                # nothing to do, e.g. activating a machine that already has a state
                return None
""", ""), note="F19")

M("c12-f20-reintroduced", ["C12"], ["C12.dedup"],
  E(DISP, '        yield f"{spec.attr_name}@{id(spec.func)}", partial(callable_method, spec.func)', '        yield f"{spec.attr_name}@None", partial(callable_method, spec.func)'), note="F20")

# ----------------------------------------------------------------------------------------- second-round strengthening (mirrors of seeded misses + metaclass dispatch)
M("c13-send-calls-given-object", ["C13"], ["C13.send"],
  E(SM, """        if event in self.__class__._events:
            event_instance: BoundEvent = getattr(self, event)""", """        if isinstance(event, BoundEvent):
            event_instance: BoundEvent = event
        elif event in self.__class__._events:
            event_instance = getattr(self, event)"""))
M("c15-event-attribute-loses-display-name", ["C15"], ["C15.events"],
  E(FAC, """                        name=value.name,
                    ),
                    old_event=value,""", """                        name=key,
                    ),
                    old_event=value,"""), note="Event(name='Loop') declared explicitly gets the attribute name as display name")
M("c15-wiring-only-first-registration", ["C15"], ["C15.events"],
  E(FAC, """        transitions = event._transitions
        if transitions is not None:
            transitions._on_event_defined(event=event, states=list(cls.states))

        if event not in cls._events:
            cls._events[event] = None
            setattr(cls, event.id, event)
""", """        if event not in cls._events:
            transitions = event._transitions
            if transitions is not None:
                transitions._on_event_defined(event=event, states=list(cls.states))
            cls._events[event] = None
            setattr(cls, event.id, event)
"""))
M("c16-instance-writes-class-attribute", ["C16"], ["C16.defwrite"],
  E(SM, """        self._register_callbacks(listeners or [])
""", """        type(self)._last_listeners = listeners
        self._register_callbacks(listeners or [])
"""))
M("c18-event-label-cached", ["C18"], ["C18.edge"],
  E(TR, "        return str(self._events)", "        return self._event_names"),
  E(TR, "        self._events = Events().add(event)\n", "        self._events = Events().add(event)\n        self._event_names = str(self._events)\n"),
  E(TR, "        self._events.add(value)\n", "        self._events.add(value)\n        self._event_names = str(self._events)\n"))
M("c14-unwrap-result-or-none", ["C14"], ["C14.unwrap", "C14.flow"],
  E(SYNC, """        if len(result) == 0:
            result = None
        elif len(result) == 1:
            result = result[0]

        return True, result""", """        if len(result) == 1:
            result = result[0]

        return True, result or None"""))
