#!/venv/bin/python
"""Development tool (not a registered check): applies each corpus edit to a scratch copy of the
package (outside /repo and /verif, removed afterwards) and runs the named checks on it.

  selftest/run.py                 # whole corpus (mutants must be reported, benign must be silent)
  selftest/run.py -k C02          # entries whose id/property matches
  selftest/run.py --validate      # additionally run the repository's test suite on each mutant
"""

import argparse
import concurrent.futures as cf
import json
import os
import re
import shutil
import subprocess
import sys
import tempfile

HERE = os.path.dirname(os.path.abspath(__file__))
VERIF = os.path.dirname(HERE)
sys.path.insert(0, HERE)
REPO = os.environ.get("VERIF_REPO", "/repo")


def make_copy(full=False) -> str:
    d = tempfile.mkdtemp(prefix="pysm-mut-")
    if full:
        subprocess.check_call(f"git -C {REPO} archive HEAD | tar -x -C {d}", shell=True)
        # working-tree state of the package (uncommitted edits included)
        shutil.rmtree(os.path.join(d, "statemachine"))
    shutil.copytree(os.path.join(REPO, "statemachine"), os.path.join(d, "statemachine"),
                    ignore=shutil.ignore_patterns("__pycache__"))
    if not full:
        shutil.copy(os.path.join(REPO, "pyproject.toml"), d)
    return d


def apply_edits(root: str, edits) -> None:
    for e in edits:
        path = os.path.join(root, e["file"])
        s = open(path, encoding="utf-8").read()
        cnt = s.count(e["old"])
        want = e.get("count", 1)
        if cnt != want:
            raise RuntimeError(f"edit does not apply ({cnt} occurrences, wanted {want}): {e['file']}: {e['old'][:60]!r}")
        s = s.replace(e["old"], e["new"])
        open(path, "w", encoding="utf-8").write(s)
    # must still compile
    for e in edits:
        subprocess.check_call(["/venv/bin/python", "-m", "py_compile", os.path.join(root, e["file"])])


def run_check(prop: str, root: str, tier="quick"):
    r = subprocess.run([os.path.join(VERIF, "check"), prop, "--tier", tier, "--repo", root, "--no-evidence"],
                       capture_output=True, text=True)
    return r.returncode, r.stdout + r.stderr


def run_suite(root: str):
    r = subprocess.run(["/venv/bin/python", "-m", "pytest", "-q", "-p", "no:cacheprovider", "--timeout=900", "-x",
                        "-n", "4", "--no-cov"], cwd=root, capture_output=True, text=True)
    tail = (r.stdout.strip().splitlines() or [""])[-1]
    return r.returncode, tail


def do_entry(entry, validate=False, tier="quick"):
    root = make_copy(full=validate)
    try:
        apply_edits(root, entry["edits"])
        res = {"id": entry["id"], "kind": entry["kind"], "props": entry["props"], "checks": {}}
        for prop in entry["props"]:
            if not os.path.exists(os.path.join(VERIF, "sa", "rules", prop.lower() + ".py")):
                continue
            code, out = run_check(prop, root, tier)
            rules = sorted(set(re.findall(r"^\s+(C\d+\.[\w/-]+) at ", out, re.M)))
            res["checks"][prop] = {"exit": code, "rules": rules,
                                   "out": out if code == 2 else "\n".join(out.splitlines()[:8])}
        if validate:
            res["suite"] = run_suite(root)
        return res
    except Exception as e:  # noqa: BLE001
        return {"id": entry["id"], "kind": entry["kind"], "props": entry["props"], "error": str(e), "checks": {}}
    finally:
        shutil.rmtree(root, ignore_errors=True)


def verdict(entry, res) -> str:
    if "error" in res:
        return "ERROR " + res["error"]
    if entry["kind"] == "mutant":
        bad = []
        for prop in entry["props"]:
            if prop not in res["checks"]:
                continue
            c = res["checks"][prop]
            if c["exit"] != 1:
                bad.append(f"{prop}: exit {c['exit']} (not reported)")
            elif entry.get("rules") and not (set(entry["rules"]) & set(c["rules"])):
                bad.append(f"{prop}: reported by {c['rules']}, expected one of {entry['rules']}")
        return "ok" if not bad else "MISSED " + "; ".join(bad)
    bad = [f"{p}: exit {c['exit']} {c['rules']}" for p, c in res["checks"].items() if c["exit"] != 0]
    return "ok" if not bad else "FALSE-ALARM " + "; ".join(bad)


def main():
    ap = argparse.ArgumentParser()
    ap.add_argument("-k", default="")
    ap.add_argument("--validate", action="store_true")
    ap.add_argument("--tier", default="quick")
    ap.add_argument("-j", type=int, default=12)
    ap.add_argument("-v", action="store_true")
    ap.add_argument("--json", default="")
    a = ap.parse_args()
    from corpus import CORPUS

    entries = [e for e in CORPUS if a.k in e["id"] or a.k in " ".join(e["props"])]
    failures = 0
    results = []
    with cf.ThreadPoolExecutor(max_workers=a.j if not a.validate else 4) as ex:
        futs = {ex.submit(do_entry, e, a.validate, a.tier): e for e in entries}
        for fut in cf.as_completed(futs):
            e = futs[fut]
            res = fut.result()
            v = verdict(e, res)
            suite = ""
            if "suite" in res:
                suite = f"  suite: rc={res['suite'][0]} {res['suite'][1]}"
            print(f"[{e['kind']:6}] {e['id']:45} {v}{suite}")
            if a.v or not v.startswith("ok"):
                for prop, c in res.get("checks", {}).items():
                    print("     ", prop, "exit", c["exit"], c["rules"])
                    if c["exit"] == 2 or a.v:
                        print("        " + c["out"].replace("\n", "\n        "))
            if not v.startswith("ok"):
                failures += 1
            res["verdict"] = v
            results.append(res)
    print(f"{len(entries)} entries, {failures} failures")
    if a.json:
        json.dump(results, open(a.json, "w"), indent=1)
    return 1 if failures else 0


if __name__ == "__main__":
    sys.exit(main())
